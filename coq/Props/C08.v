(* Props/C08.v -- property C08: the problem handed to SciPy is equivalent to the configured problem.
   Only statements; each is closed by a lemma of Proofs/ScipyProblem.v.  The model
   (Model/ScipyProblem.v) mirrors NormalizedConstraints, get_masked_linear_constraints,
   _initialize_bounds, _parse_options, validate_supported_constraints and the kwargs of start(). *)
From Coq Require Import QArith Qabs List Bool String ZArith Lia.
From Ropt Require Import Base.Num Base.ListX Gen.Generated Gen.Gen_C08 Model.ScipyProblem Proofs.ScipyProblem.
Import ListNotations.
Open Scope Q_scope.

(* one bound pair of any kind (equality, lower-only, upper-only, two-sided, unbounded), any value c:
   lower <= c <= upper  iff  every normalised row is satisfied (= 0 for "eq", >= 0 for "ineq";
   <= 0 when the class is used with flip=True).  [sane]: lower <> +inf, upper <> -inf, and two finite
   bounds are equal or differ by at least the code's equality tolerance (generated constant). *)
Theorem C08_feasible_iff_row : forall af i l u c, sane l u ->
  (in_bounds l u c <-> Forall (fun r => sat af r (norm_value r c)) (rows_of af i l u)).
Proof. exact feasible_iff_row. Qed.

(* all constraints of a family: the configured bounds hold for the raw values cs iff every row of the
   normalised set, evaluated on the raw value it indexes, is satisfied *)
Theorem C08_feasible_iff : forall af bs cs,
  List.length bs = List.length cs -> Forall (fun b => sane (fst b) (snd b)) bs ->
  (all_in_bounds bs cs <-> rows_sat af (normalize_bounds af bs) cs).
Proof. exact feasible_iff. Qed.

(* END TO END.  For every problem the plug-in accepts ([construct p = Some h]: bounds, the masked linear
   constraints, the normalised rows of the constraint dicts or the LinearConstraint / NonlinearConstraint
   objects of differential_evolution), every value vector [c] of the non-linear constraints and every
   vector [xf] of free variables: the point passes everything that is handed to SciPy
   ([handed_feasible]: Bounds, and "= 0" / ">= 0" on every normalised row, or the constraint objects) iff
   it satisfies the configured problem ([config_feasible]: the bounds of the free variables, the retained
   linear rows on the completed vector, the non-linear bounds).  Both sides are the definitions the
   correspondence checker evaluates on the real plug-in's output.
   [wf_problem]: no lower bound is +inf / no upper bound is -inf, finite bound pairs are equal or differ by
   at least the code's equality tolerance ([sane]), the linear constraint arrays have consistent shapes;
   [wf_point]: the mask, x0 and xf have consistent lengths and c has one entry per non-linear constraint. *)
Theorem C08_handed_equiv_configured : forall p h c xf,
  construct p = Some h -> wf_problem p -> wf_point p c xf ->
  handed_feasible h c xf = config_feasible p c xf.
Proof. exact handed_equiv_configured. Qed.

(* the same with the decidable form of the hypotheses, which the correspondence checker evaluates on every
   generated case: every case it accepts lies in the domain of the theorem *)
Theorem C08_handed_equiv_configured_checked : forall p h c xf,
  construct p = Some h -> wf_problemb p = true -> wf_pointb p c xf = true ->
  handed_feasible h c xf = config_feasible p c xf.
Proof. exact handed_equiv_configured_b. Qed.

(* the dict path on its own: the rows built from any list of (sane) bound pairs, evaluated by the
   executable set_constraints on the raw values, are all satisfied iff every raw value is within its bounds *)
Theorem C08_rows_equiv_bounds : forall bs raw,
  List.length bs = List.length raw -> Forall (fun b => sane (fst b) (snd b)) bs ->
  rows_okb (normalize_bounds false bs) raw = bounds_okb (map fst bs) (map snd bs) raw.
Proof. exact rows_okb_bounds. Qed.

(* the executable normalisation (set_constraints) computes exactly those row values ... *)
Theorem C08_norm_values_spec : forall rows cs vs,
  norm_values rows (map (fun v => [v]) cs) = Some vs ->
  Forall2 (fun r v => exists c, nth_error cs (r_idx r) = Some c /\ v = [norm_value r c]) rows vs.
Proof. exact norm_values_spec. Qed.

(* ... and row i of the normalised Jacobian is built from the same raw index with the same flip *)
Theorem C08_values_and_jacobian_aligned : forall rows cs J vs js,
  norm_values rows (map (fun v => [v]) cs) = Some vs -> norm_jac rows J = Some js ->
  Forall2 (fun v j => exists r c g, In r rows /\ nth_error cs (r_idx r) = Some c /\ nth_error J (r_idx r) = Some g /\
                                    v = [norm_value r c] /\ j = norm_grad r g) vs js.
Proof. exact values_and_jac_aligned. Qed.

(* the normalised Jacobian row is the derivative of the normalised value, with the same sign: moving
   the raw value by (g . dx) moves the normalised value by (norm_grad r g . dx) *)
Theorem C08_jacobian_sign : forall r c g dx,
  norm_value r (c + dot g dx) == norm_value r c + dot (norm_grad r g) dx.
Proof. exact jacobian_sign. Qed.

(* masked linear constraints: a kept row, for every completed vector that agrees with the initial values
   on the fixed variables, satisfies  A_row . x_full = A_free_row . x_free + offset_row *)
Theorem C08_masked_row_exact : forall m a x0 xf,
  List.length a = List.length m -> List.length x0 = List.length m -> List.length xf = count_true m ->
  dot a (scatter m xf x0) == dot (gather m a) xf + dot (gather (map negb m) a) (gather (map negb m) x0).
Proof. exact masked_row_exact. Qed.

(* hence the restated bounds select the same points as the original rows on the completed vector *)
Theorem C08_masked_linear_exact : forall m x0 lc xf,
  Forall (fun a => List.length a = List.length m) (l_A lc) ->
  List.length x0 = List.length m -> List.length xf = count_true m ->
  let ml := masked_linear (Some m) x0 lc in
  let keep := map (fun a => forallb is_zero (gather (map negb m) a)) (l_A lc) in
  bounds_okb (l_lb ml) (l_ub ml) (matvec (l_A ml) xf) =
  bounds_okb (gather keep (l_lb lc)) (gather keep (l_ub lc)) (matvec (gather keep (l_A lc)) (scatter m xf x0)).
Proof. exact masked_linear_exact. Qed.

(* the rows touching a fixed variable with a non-zero coefficient are exactly the dropped ones; a kept
   row is the original row restricted to the free columns *)
Theorem C08_masked_rows_kept : forall m x0 lc a',
  In a' (l_A (masked_linear (Some m) x0 lc)) <->
  exists a, In a (l_A lc) /\ forallb is_zero (gather (map negb m) a) = true /\ a' = gather m a.
Proof. exact masked_rows_kept. Qed.

(* Bounds: absent iff no configured entry is finite, otherwise the free entries of the configured
   bounds, for any mix of finite and infinite entries; when absent every point is admitted *)
Theorem C08_bounds_exposed : forall mask lo hi,
  (exposed_bounds mask lo hi = None <->
     (forall e, In e lo -> efinite e = false) /\ (forall e, In e hi -> efinite e = false)) /\
  (exposed_bounds mask lo hi <> None -> exposed_bounds mask lo hi = Some (gmask mask lo, gmask mask hi)).
Proof. exact bounds_exposed. Qed.

Theorem C08_bounds_absent_harmless : forall mask lo hi,
  Forall (fun e => e <> PInf) lo -> Forall (fun e => e <> NInf) hi ->
  exposed_bounds mask lo hi = None -> forall x, bounds_okb (gmask mask lo) (gmask mask hi) x = true.
Proof. exact bounds_absent_harmless. Qed.

(* max_iterations: for every method, every form of options (None, list, {}, dict - also one that
   already has the key) the parsed options map the back-end's iteration key (generated rule: "maxfun"
   for tnc, "maxiter" otherwise) to the configured limit ... *)
Theorem C08_max_iterations_parsed : forall method n opts output_dir types,
  lookup (iter_key method) (parse_options method (Some n) opts output_dir types) = Some (OInt n).
Proof. exact max_iterations_parsed. Qed.

(* ... and so does what start() finally passes (also with the extra keys of vectorised DE) *)
Theorem C08_max_iterations_forwarded : forall p h n,
  construct p = Some h -> p_max_iter p = Some n ->
  lookup (iter_key (p_method p)) (h_options h) = Some (OInt n).
Proof. exact max_iterations_forwarded. Qed.

Theorem C08_user_options_kept : forall method mi kvs od types k,
  String.eqb k (iter_key method) = false -> mem k reserved_keys = false ->
  lookup k (parse_options method mi (DictOpt kvs) od types) = lookup k kvs.
Proof. exact user_options_kept. Qed.

(* unsupported kinds are rejected rather than dropped: whenever construction succeeds, the method is a
   supported one, every constraint family present is of a kind the generated support table lists for the
   method -- and every such kind is one SciPy itself handles (generated from SciPy's own lists) *)
Theorem C08_unsupported_rejected : forall p h, construct p = Some h ->
  In (p_method p) scipy_supported_methods /\
  (have_bounds p = true -> In (p_method p) scipy_constraint_support_bounds /\ In (p_method p) scipy_can_bounds) /\
  (have_bounds p = false -> ~ In (p_method p) scipy_constraint_requires_bounds) /\
  (forall lc, p_lin p = Some lc ->
     In (p_method p) (if all_close (l_lb lc) (l_ub lc) then scipy_constraint_support_linear_eq
                      else scipy_constraint_support_linear_ineq) /\ In (p_method p) scipy_can_constraints) /\
  (forall bs, p_nl p = Some bs ->
     In (p_method p) (if all_close (map fst bs) (map snd bs) then scipy_constraint_support_nonlinear_eq
                      else scipy_constraint_support_nonlinear_ineq) /\ In (p_method p) scipy_can_constraints).
Proof. exact unsupported_rejected. Qed.

Theorem C08_unsupported_kind_fails : forall p,
  (have_bounds p = true /\ ~ In (p_method p) scipy_constraint_support_bounds) \/
  (have_bounds p = false /\ In (p_method p) scipy_constraint_requires_bounds) \/
  (exists lc, p_lin p = Some lc /\
     ~ In (p_method p) (if all_close (l_lb lc) (l_ub lc) then scipy_constraint_support_linear_eq
                        else scipy_constraint_support_linear_ineq)) \/
  (exists bs, p_nl p = Some bs /\
     ~ In (p_method p) (if all_close (map fst bs) (map snd bs) then scipy_constraint_support_nonlinear_eq
                        else scipy_constraint_support_nonlinear_ineq)) \/
  ~ In (p_method p) scipy_supported_methods ->
  construct p = None.
Proof. exact unsupported_kind_fails. Qed.

(* the generated tables are well formed: they only mention supported methods and a method that requires
   bounds supports them *)
Theorem C08_tables_wellformed :
  subset scipy_constraint_requires_bounds scipy_constraint_support_bounds &&
  subset (scipy_constraint_support_bounds ++ scipy_constraint_support_linear_eq ++ scipy_constraint_support_linear_ineq ++
          scipy_constraint_support_nonlinear_eq ++ scipy_constraint_support_nonlinear_ineq ++ scipy_no_gradient)
         scipy_supported_methods = true.
Proof. exact tables_wellformed. Qed.

(* non-vacuity: a masked SLSQP problem with a two-sided and an equality non-linear constraint, a kept and a
   dropped linear row, mixed finite/infinite bounds, options given as a list: accepted, 3 + 2 rows, the
   limit forwarded; and the same problem for BFGS is rejected *)
Example C08_example :
  let p := {| p_method := "slsqp"; p_mask := Some [true; false; true]; p_x0 := [1; 2; 3];
              p_lower := [Fin 0; NInf; NInf]; p_upper := [PInf; PInf; Fin 5];
              p_nl := Some [(Fin (-1), Fin 2); (Fin 4, Fin 4)];
              p_lin := Some {| l_A := [[1; 0; 2]; [1; 1; 0]]; l_lb := [NInf; Fin 0]; l_ub := [Fin 7; Fin 1] |};
              p_options := ListOpt ["x"%string]; p_max_iter := Some 9%Z; p_output_dir := false; p_types := None;
              p_parallel := false; p_tol := None |} in
  match construct p with
  | Some h =>
      map (fun r => (r_idx r, r_flip r, r_eq r)) (h_rows h) =
        [(0%nat, false, false); (0%nat, true, false); (1%nat, false, true); (2%nat, true, false)] /\
      h_bounds h = Some ([Fin 0; NInf], [PInf; Fin 5]) /\
      option_map l_A (h_lin h) = Some [[1; 2]] /\
      lookup "maxiter" (h_options h) = Some (OInt 9) /\
      handed_feasible h [0; 4] [1; 3] = true /\ config_feasible p [0; 4] [1; 3] = true /\
      handed_feasible h [0; 4] [1; 4] = false /\ config_feasible p [0; 4] [1; 4] = false
  | None => False
  end /\
  construct {| p_method := "bfgs"; p_mask := None; p_x0 := [1]; p_lower := [Fin 0]; p_upper := [PInf];
               p_nl := None; p_lin := None; p_options := NoneOpt; p_max_iter := None; p_output_dir := false;
               p_types := None; p_parallel := false; p_tol := None |} = None.
Proof. vm_compute. repeat split; reflexivity. Qed.

(* the hypotheses of C08_handed_equiv_configured hold for the example problem and its test points *)
Example C08_example_wf :
  let p := {| p_method := "slsqp"; p_mask := Some [true; false; true]; p_x0 := [1; 2; 3];
              p_lower := [Fin 0; NInf; NInf]; p_upper := [PInf; PInf; Fin 5];
              p_nl := Some [(Fin (-1), Fin 2); (Fin 4, Fin 4)];
              p_lin := Some {| l_A := [[1; 0; 2]; [1; 1; 0]]; l_lb := [NInf; Fin 0]; l_ub := [Fin 7; Fin 1] |};
              p_options := ListOpt ["x"%string]; p_max_iter := Some 9%Z; p_output_dir := false; p_types := None;
              p_parallel := false; p_tol := None |} in
  wf_problem p /\ wf_point p [0; 4] [1; 3] /\ wf_point p [0; 4] [1; 4].
Proof.
  cbn zeta. unfold wf_problem, wf_point, wf_lin. cbn [p_lower p_upper p_nl p_lin p_mask p_x0].
  assert (T : forall a b : Q, 1 <= Qabs (b - a) -> a == b \/ eq_tol <= Qabs (b - a)).
  { intros a b H. right. apply (Qle_trans _ 1); [|exact H]. unfold eq_tol, norm_eq_tol, Q_, Qle. cbn. lia. }
  assert (M : forall m : list bool, Some [true; false; true] = Some m ->
              List.length m = 3%nat /\ 2%nat = count_true m) by (intros m E; injection E as <-; split; reflexivity).
  split; [|split; split; [exact M | reflexivity | exact M | reflexivity]].
  split; [repeat constructor; discriminate|]. split; [repeat constructor; discriminate|]. split.
  - intros bs E. injection E as <-. constructor; [|constructor; [|constructor]]; cbn [fst snd sane].
    + apply T. unfold Qle. cbn. lia.
    + left. reflexivity.
  - intros lc E. injection E as <-. cbn [l_lb l_ub l_A lin_pairs combine]. repeat split.
    + repeat constructor.
    + constructor; [exact I|]. constructor; [|constructor]. cbn [fst snd sane]. apply T. unfold Qle. cbn. lia.
Qed.

Print Assumptions C08_feasible_iff_row.
Print Assumptions C08_feasible_iff.
Print Assumptions C08_handed_equiv_configured.
Print Assumptions C08_handed_equiv_configured_checked.
Print Assumptions C08_rows_equiv_bounds.
Print Assumptions C08_norm_values_spec.
Print Assumptions C08_values_and_jacobian_aligned.
Print Assumptions C08_jacobian_sign.
Print Assumptions C08_masked_row_exact.
Print Assumptions C08_masked_linear_exact.
Print Assumptions C08_masked_rows_kept.
Print Assumptions C08_bounds_exposed.
Print Assumptions C08_bounds_absent_harmless.
Print Assumptions C08_max_iterations_parsed.
Print Assumptions C08_max_iterations_forwarded.
Print Assumptions C08_user_options_kept.
Print Assumptions C08_unsupported_rejected.
Print Assumptions C08_unsupported_kind_fails.
Print Assumptions C08_tables_wellformed.
