(* Props/C09.v -- property C09: fixed (masked-out) variables never move and never receive a gradient.
   Only statements; each is closed by a lemma of Proofs/Mask.v.
   [complete] is EnsembleOptimizer._get_completed_variables, [callback]/[run] the optimizer callback with its
   _fixed_variables state and nested deliveries, [sampler_mask] _get_mask, [sampler_fill] how a sampler writes
   its own variable set, [perturb] _perturb_variables (Model/Bounds.v), [expand_zeros] _expand_gradients. *)
From Coq Require Import QArith Qabs ZArith List Bool Arith.
From Ropt Require Import Base.Num Base.ListX Gen.Generated Model.Bounds Model.Mask Proofs.Bounds Proofs.Mask.
Import ListNotations.
Open Scope Q_scope.

(* the completed vector has the full length, holds the fixed vector's entry at every masked position and the
   free values, in order, elsewhere; the free part can be read back *)
Theorem C09_complete : forall (mask : list bool) (fixed free : list Q),
  length fixed = length mask -> length free = count_true mask ->
  length (complete mask fixed free) = length mask /\
  (forall i, nth_error mask i = Some false -> nth_error (complete mask fixed free) i = nth_error fixed i) /\
  (forall i, nth_error mask i = Some true ->
             nth_error (complete mask fixed free) i = nth_error free (count_true (firstn i mask))) /\
  gather mask (complete mask fixed free) = free.
Proof.
  intros mask fixed free Hl Hc. split; [apply complete_length; assumption|].
  split; [intros i; apply complete_fixed; assumption|].
  split; [intros i; apply complete_free; assumption | apply gather_complete; assumption].
Qed.

(* for every request sequence (vector and batch requests) and every interleaving of nested deliveries: each
   vector sent on for evaluation -- and each vector handed to the nested optimization -- equals, on the masked
   positions, the starting vector or the last nested delivery *)
Theorem C09_invariant : forall mask n start reqs k ni out,
  mask_len mask n -> length start = n -> Forall (wf_request mask n) reqs ->
  nth_error (run mask start reqs) k = Some (ni, out) ->
  (forall v, ni = Some v -> length v = n /\ agree mask v (last_delivered start (firstn k reqs))) /\
  (forall rows, out = CbEvaluate rows -> forall row, In row rows ->
     length row = n /\ agree mask row (last_delivered start (firstn (S k) reqs))).
Proof.
  intros mask n start reqs k ni out Hm Hs Hwf Hk.
  exact (run_from_invariant mask n Hm reqs {| fixed := start |} k ni out Hs Hwf Hk).
Qed.

(* without a nested plan the evaluated vectors carry exactly the requested free values *)
Theorem C09_free_values : forall mask n st free,
  mask_len mask n -> length (fixed st) = n -> Forall (fun row => length row = free_count mask n) free ->
  exists rows, callback mask st free None = (None, CbEvaluate rows, st) /\
               map (gather_opt mask) rows = free /\ Forall (fun row => length row = n) rows.
Proof. exact callback_free_values. Qed.

(* a sampler's variable set lies inside the mask; sets of different samplers are disjoint *)
Theorem C09_sampler_sets : forall idx gs m i,
  match gs with Some g => length g = length m | None => True end ->
  nth_error m i = Some false ->
  exists sm, sampler_mask idx gs (Some m) = Some sm /\ nth_error sm i = Some false.
Proof. exact sampler_mask_sub. Qed.
Theorem C09_sampler_sets_disjoint : forall a b g mask sa sb i,
  a <> b -> sampler_mask a (Some g) mask = Some sa -> sampler_mask b (Some g) mask = Some sb ->
  nth_error sa i = Some true -> nth_error sb i = Some false.
Proof. exact sampler_mask_disjoint. Qed.

(* a sampler writes literal zeros outside its own variable set *)
Theorem C09_sampler_zeros : forall m dense r p i mat row,
  nth_error dense r = Some mat -> nth_error mat p = Some row -> length row = count_true m ->
  nth_error m i = Some false -> nth3 (fill3 (Some m) dense) r p i = Some 0.
Proof. exact fill3_fixed. Qed.

(* so every perturbed vector equals the current vector on every position that no sampler owns -- in particular
   on the masked positions -- provided the current value is inside its bounds; for every boundary type *)
Theorem C09_perturbation_fixed : forall ts lbs ubs x mags ss r p i t l u xv m,
  ss <> [] -> Forall (fun s => nth3 s r p i = Some 0) ss ->
  nth_error ts i = Some t -> nth_error lbs i = Some l -> nth_error ubs i = Some u ->
  nth_error x i = Some xv -> nth_error mags i = Some m ->
  inside l u xv ->
  exists q, nth3 (perturb ts lbs ubs x mags (sum_samples ss)) r p i = Some q /\ q == xv.
Proof. exact perturb_unsampled. Qed.

(* the same for what _perturb_variables really builds ([run_samplers]: the samplers that own a variable, in order of
   first appearance, each restricted to its own variable set by _get_mask, their arrays added): every position no
   sampler owns -- every masked-out position, and every free position whose sampler index is negative -- shows
   the current value in every perturbed vector.  This is the term the correspondence checker evaluates. *)
Theorem C09_unowned_positions_kept : forall gs m scripts ts lbs ubs x mags r p i t l u xv mg,
  sampler_order gs <> [] ->
  match gs with Some g => length g = length m | None => True end ->
  (forall k, In k (sampler_order gs) -> exists s mat row,
      nth_error scripts (Z.to_nat k) = Some s /\ nth_error s r = Some mat /\ nth_error mat p = Some row /\
      length row = length m) ->
  nth_error (owned gs (Some m) (length m)) i = Some false ->
  nth_error ts i = Some t -> nth_error lbs i = Some l -> nth_error ubs i = Some u ->
  nth_error x i = Some xv -> nth_error mags i = Some mg -> inside l u xv ->
  exists q, nth3 (perturb ts lbs ubs x mags (run_samplers gs (Some m) scripts)) r p i = Some q /\ q == xv.
Proof. exact run_samplers_unowned. Qed.
Theorem C09_fixed_positions_kept : forall gs m scripts ts lbs ubs x mags r p i t l u xv mg,
  sampler_order gs <> [] ->
  match gs with Some g => length g = length m | None => True end ->
  (forall k, In k (sampler_order gs) -> exists s mat row,
      nth_error scripts (Z.to_nat k) = Some s /\ nth_error s r = Some mat /\ nth_error mat p = Some row /\
      length row = length m) ->
  nth_error m i = Some false ->
  nth_error ts i = Some t -> nth_error lbs i = Some l -> nth_error ubs i = Some u ->
  nth_error x i = Some xv -> nth_error mags i = Some mg -> inside l u xv ->
  exists q, nth3 (perturb ts lbs ubs x mags (run_samplers gs (Some m) scripts)) r p i = Some q /\ q == xv.
Proof.
  intros gs m scripts ts lbs ubs x mags r p i t l u xv mg Hne Hl Hs Hm.
  apply run_samplers_unowned; try assumption. apply masked_unowned; assumption.
Qed.

(* the evaluator computes a gradient from cached function values only for a gradient-only request of one vector
   that coincides (np.allclose, atol 1e-15) with the cached vector on EVERY position, the fixed ones included, so
   a nested delivery that changes a fixed variable between the function request and the gradient request
   invalidates the cache; in every other case the function values are evaluated afresh at the requested vector *)
Theorem C09_cached_gradient_same_full_vector : forall cache f g vs v c',
  evaluate cache f g vs = (EvGradCached v, c') ->
  f = false /\ g = true /\ vs = [v] /\ c' = cache /\
  exists c, cache = Some c /\ length c = length v /\
            forall i x y, nth_error c i = Some x -> nth_error v i = Some y -> Qabs (x - y) <= cache_atol.
Proof. exact evaluate_cached_sound. Qed.
Theorem C09_stale_cache_not_used : forall cache f g v,
  g = true -> (f = true \/ match cache with Some c => same_point c v = false | None => True end) ->
  evaluate cache f g [v] = (EvBoth v, None).
Proof. exact evaluate_fresh. Qed.

(* reported gradients are the literal 0 on masked positions and have the full length; the optimizer gets back
   exactly the free entries (count_true mask of them) *)
Theorem C09_gradient_zero : forall mask g,
  length g = count_true mask ->
  length (expand_zeros mask g) = length mask /\
  (forall i, nth_error mask i = Some false -> nth_error (expand_zeros mask g) i = Some 0) /\
  gather mask (expand_zeros mask g) = g /\
  length (gather mask (expand_zeros mask g)) = count_true mask.
Proof.
  intros mask g Hg. split; [apply expand_zeros_length, Hg|].
  split; [intros i; apply expand_zeros_fixed, Hg|].
  rewrite gather_expand_zeros by exact Hg. split; [reflexivity | exact Hg].
Qed.

(* what the algorithm is shown of a full vector: the free entries only *)
Theorem C09_exposed_length : forall (mask : list bool) (v : list Q),
  length v = length mask -> length (gather mask v) = count_true mask.
Proof. exact gather_length. Qed.

(* non-vacuity: mask [T;F;T], a function request, a nested delivery that changes the fixed variable, a batch;
   the fixed position shows 5, then 7 (delivered), then 7 *)
Example C09_example :
  let mask := Some [true; false; true] in
  wf_request mask 3 ([[1; 2]], None) /\
  run mask [0; 5; 0]
      [ ([[1; 2]], None); ([[3; 4]], Some (NDeliver [3; 7; 4])); ([[8; 9]; [10; 11]], None) ]
  = [ (None, CbEvaluate [[1; 5; 2]]);
      (Some [3; 5; 4], CbEvaluate [[3; 7; 4]]);
      (None, CbEvaluate [[8; 7; 9]; [10; 7; 11]]) ] /\
  expand_zeros [true; false; true] [Q_ 1 2; Q_ 3 4] = [Q_ 1 2; 0; Q_ 3 4] /\
  (* two samplers on disjoint sets (sampler 2 owns variable 0, sampler 0 variable 3, variable 2 belongs to none):
     the fixed variable 1 and the unowned variable 2 keep their values in the perturbed vector *)
  owned (Some [2; 0; -1; 0]%Z) (Some [true; false; true; true]) 4 = [true; false; false; true] /\
  forallb2 (forallb2 (list_eqb Qeqb))
    (perturb [bt_mirror; bt_mirror; bt_truncate; bt_none] [Fin 0; Fin 0; Fin 0; NInf] [Fin 1; Fin 1; Fin 1; PInf]
             [Q_ 1 2; Q_ 1 4; 1; 3] [1; 1; 1; 1]
             (run_samplers (Some [2; 0; -1; 0]%Z) (Some [true; false; true; true])
                           [ [[[5; 5; 5; 5]]]; [[[6; 6; 6; 6]]]; [[[Q_ 1 4; 7; 7; 7]]] ]))
    [[[Q_ 3 4; Q_ 1 4; 1; 8]]] = true /\
  (* the function values cached for [1; 5; 2] are not used for a gradient at [1; 7; 2] *)
  evaluate (Some [1; 5; 2]) false true [[1; 7; 2]] = (EvBoth [1; 7; 2], None) /\
  evaluate (Some [1; 5; 2]) false true [[1; 5; 2]] = (EvGradCached [1; 5; 2], Some [1; 5; 2]).
Proof.
  split; [split; cbn; [repeat constructor | exact I]|]. repeat split; vm_compute; reflexivity.
Qed.

Print Assumptions C09_complete.
Print Assumptions C09_invariant.
Print Assumptions C09_free_values.
Print Assumptions C09_sampler_sets.
Print Assumptions C09_sampler_sets_disjoint.
Print Assumptions C09_sampler_zeros.
Print Assumptions C09_perturbation_fixed.
Print Assumptions C09_unowned_positions_kept.
Print Assumptions C09_fixed_positions_kept.
Print Assumptions C09_cached_gradient_same_full_vector.
Print Assumptions C09_stale_cache_not_used.
Print Assumptions C09_gradient_zero.
Print Assumptions C09_exposed_length.
