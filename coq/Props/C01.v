(* Props/C01.v -- property C01: ensemble function values are the normalized weighted estimate over realizations.
   Only statements; each is closed by a lemma of Proofs/Ensemble.v.  All statements are about the executable
   definitions of Model/Ensemble.v that Check/Chk_C01.v evaluates against the real EnsembleEvaluator.

   Vocabulary (Model/Ensemble.v):
     f : list oQ                 one function column, one entry per realization (None = NaN)
     wrow : list Q               the weights in force for that function (configured weights or a filter's output)
     failed : list bool          realizations.failed_realizations;  keep_of failed = its negation
     gather (keep_of failed) l   the sub-list of l at the surviving realizations
     estimate k f wrow failed    _calculate_estimated_functions for one function: np.where(failed, 0, w); w /= w.sum();
                                 estimator k;  FOk v (Stddev: v is the VARIANCE) | FAbort (TOO_FEW_REALIZATIONS)
                                 | FDivZero (no surviving weight: 0/0, outside the quantifier)
     dot, qsum                   plain dot product and sum over Q (Base/Num.v) *)
From Coq Require Import String QArith List Bool Arith ZArith.
From Ropt Require Import Base.Num Base.ListX Gen.Generated Model.Ensemble Proofs.Ensemble.
Import ListNotations.
Open Scope Q_scope.

(* the mean: the weighted mean over the survivors, weights renormalised by their sum over the survivors; for every
   column, weight row and failure mask; without surviving weight the value is undefined (never a number) *)
Theorem C01_mean_spec : forall f wrow failed, length wrow = length failed ->
  let ws := gather (keep_of failed) wrow in
  let fs := nan_to_num (gather (keep_of failed) f) in
  (qsum ws == 0 -> estimate Mean f wrow failed = FDivZero) /\
  (~ qsum ws == 0 -> exists v, estimate Mean f wrow failed = FOk v /\ v == dot fs ws / qsum ws).
Proof. exact estimate_mean_spec. Qed.

(* the standard deviation (as its square): N/(N-1) * sum_i w^_i (f_i - m)^2 over the survivors, w^ = w / sum w,
   m the weighted mean, N the number of survivors with positive weight (non-negative weights, at least two of them
   positive on the survivors) *)
Theorem C01_var_spec : forall f wrow failed, length wrow = length failed -> Forall (fun x => 0 <= x) wrow ->
  let ws := gather (keep_of failed) wrow in
  let fs := nan_to_num (gather (keep_of failed) f) in
  let S := qsum ws in
  let N := nat_Q (count_pos ws) in
  let m := dot fs ws / S in
  (2 <= count_pos ws)%nat ->
  exists v, estimate Stddev f wrow failed = FOk v /\
            v == N / (N - 1) * (dot (map (fun x => sq (x - m)) fs) ws / S).
Proof. exact estimate_var_spec. Qed.

(* the stddev estimator aborts (TOO_FEW_REALIZATIONS) iff the surviving weights can be normalised and fewer than
   _MIN_STDDEV_REALIZATIONS (regenerated from the source: 2) of them are non-zero *)
Theorem C01_var_too_few : forall f wrow failed, length wrow = length failed ->
  let ws := gather (keep_of failed) wrow in
  estimate Stddev f wrow failed = FAbort <-> ~ qsum ws == 0 /\ (count_nonzero ws < min_stddev_realizations)%nat.
Proof. exact estimate_var_status. Qed.

(* "the per-realization values the evaluator returned": NaN propagation leaves the rows of the survivors untouched *)
Theorem C01_survivor_values : forall rows, Forall (fun oc : list oQ * list oQ => fst oc <> []) rows ->
  gather (keep_of (failed_fn (propagate_nan rows))) (propagate_nan rows) =
  gather (keep_of (failed_fn (propagate_nan rows))) rows.
Proof. exact survivors_untouched. Qed.

(* the weighted objective is the sum of objective weight times objective value *)
Theorem C01_weighted_objective : forall ow objs, weighted_objective ow objs == dot ow objs.
Proof. exact weighted_objective_dot. Qed.

(* factorisation: function j is the estimator mapped to j applied to column j, the weight row in force for j and the
   failure flags -- other columns, other weight rows and other estimators do not occur on the right-hand side *)
Theorem C01_factorisation : forall ests emap cfgw wmat rows failed j, (j < length emap)%nat ->
  nth j (estimate_all ests emap cfgw wmat rows failed) FNoEst =
    match nth_error ests (nth j emap 0%nat) with
    | Some k => estimate k (column j rows) (in_force cfgw wmat j) failed
    | None => FNoEst
    end.
Proof. exact estimate_all_nth. Qed.

(* hence: "nothing else influences these numbers" -- change the other columns, the other weight rows and the
   estimators of the other functions at will, function j keeps its value *)
Theorem C01_nothing_else : forall ests emap emap' cfgw wmat wmat' rows rows' failed j,
  (j < length emap)%nat -> (j < length emap')%nat ->
  nth j emap 0%nat = nth j emap' 0%nat -> column j rows = column j rows' ->
  in_force cfgw wmat j = in_force cfgw wmat' j ->
  nth j (estimate_all ests emap cfgw wmat rows failed) FNoEst =
  nth j (estimate_all ests emap' cfgw wmat' rows' failed) FNoEst.
Proof. exact estimate_all_local. Qed.

(* weights in force after _calculate_filtered_realization_weights (fouts = what the configured filters returned):
   the row of function j is the output of filter k when the index map sends j to a configured filter k, and the
   configured realization weights otherwise -- also for unfiltered functions that sit next to filtered ones (F01);
   objectives and constraints alike *)
Theorem C01_rows_in_force : forall c fouts ow cw, filtered_weights c fouts = FiltOk ow cw ->
  (forall j, (j < cfg_no c)%nat ->
     (forall k, (k < length fouts)%nat -> mapped_to (cfg_ofm c) j k ->
        exists w, nth_error fouts k = Some (FW w) /\ in_force (cfg_w c) ow j = w) /\
     ((forall k, (k < length fouts)%nat -> ~ mapped_to (cfg_ofm c) j k) -> in_force (cfg_w c) ow j = cfg_w c)) /\
  (forall j, (j < cfg_nc c)%nat ->
     (forall k, (k < length fouts)%nat -> mapped_to (cfg_cfm c) j k ->
        exists w, nth_error fouts k = Some (FW w) /\ in_force (cfg_w c) cw j = w) /\
     ((forall k, (k < length fouts)%nat -> ~ mapped_to (cfg_cfm c) j k) -> in_force (cfg_w c) cw j = cfg_w c)).
Proof. exact rows_in_force. Qed.

(* batch layout: the rows requested from the evaluator are the full product (vector, realization), vector-major,
   and cutting the returned rows into blocks gives, for every vector, exactly its own realizations in order *)
Theorem C01_layout : forall B R,
  layout_functions B R = list_prod (seq 0 B) (seq 0 R) /\
  forall (A : Type) (ev : nat -> nat -> A), eval_batch ev B R = map (eval_single ev R) (seq 0 B).
Proof. intros B R. split; [apply layout_functions_product | intros A ev; apply eval_batch_spec]. Qed.

(* batch invariance: for every batch size, realization count and evaluator that is a function of (vector,
   realization), the result reported for vector b of a batch is the result of evaluating vector b alone *)
Theorem C01_batch_invariance : forall c (ev : nat -> nat -> list oQ * list oQ) B R fouts rs b, (b < B)%nat ->
  calculate_sets c (eval_batch ev B R) fouts = Done rs ->
  exists r, nth_error rs b = Some r /\
            calculate_sets c (eval_batch (fun _ => ev b) 1 R) [nth b fouts []] = Done [r].
Proof. exact batch_invariance. Qed.

(* end to end, objectives: whenever the evaluation of one variable vector reports values (one_set = _calculate_one_set_of_
   functions on the rows the evaluator returned, NaN propagation, failure flags, filtered weights and gate included),
   objective j is -- in terms of the RAW values of the surviving realizations and the weight row in force for j -- the
   renormalised weighted mean, resp. (as its square) the sample standard deviation with N = survivors with positive weight *)
Theorem C01_reported_objectives : forall c raw fouts r objs cons,
  Forall (fun oc : list oQ * list oQ => fst oc <> []) raw ->
  one_set c raw fouts = Done r -> r_functions r = Some (Values objs cons) ->
  let emap := resolve_emap (cfg_no c) (cfg_oem c) in
  forall j, (j < length emap)%nat ->
  let wrow := in_force (cfg_w c) (r_ow r) j in
  length wrow = length raw ->
  let ws := gather (keep_of (r_failed r)) wrow in
  let fs := nan_to_num (gather (keep_of (r_failed r)) (column j (map fst raw))) in
  let S := qsum ws in
  (nth_error (cfg_ests c) (nth j emap 0%nat) = Some Mean -> ~ S == 0 ->
     exists v, nth j objs FNoEst = FOk v /\ v == dot fs ws / S) /\
  (nth_error (cfg_ests c) (nth j emap 0%nat) = Some Stddev -> Forall (fun x => 0 <= x) wrow -> (2 <= count_pos ws)%nat ->
     let N := nat_Q (count_pos ws) in
     let m := dot fs ws / S in
     exists v, nth j objs FNoEst = FOk v /\ v == N / (N - 1) * (dot (map (fun x => sq (x - m)) fs) ws / S)).
Proof.
  intros c raw fouts r objs cons Hraw H Hf emap j Hj wrow HL.
  exact (reported_values c raw fouts r objs cons Hraw H Hf fst objs emap (r_ow r)
                         (or_introl (conj eq_refl (conj eq_refl (conj eq_refl eq_refl)))) j Hj HL).
Qed.

(* end to end, constraints: the same with the constraint columns, the constraint estimator map and constraint_weights *)
Theorem C01_reported_constraints : forall c raw fouts r objs cons,
  Forall (fun oc : list oQ * list oQ => fst oc <> []) raw ->
  one_set c raw fouts = Done r -> r_functions r = Some (Values objs cons) ->
  let emap := resolve_emap (cfg_nc c) (cfg_cem c) in
  forall j, (j < length emap)%nat ->
  let wrow := in_force (cfg_w c) (r_cw r) j in
  length wrow = length raw ->
  let ws := gather (keep_of (r_failed r)) wrow in
  let fs := nan_to_num (gather (keep_of (r_failed r)) (column j (map snd raw))) in
  let S := qsum ws in
  (nth_error (cfg_ests c) (nth j emap 0%nat) = Some Mean -> ~ S == 0 ->
     exists v, nth j cons FNoEst = FOk v /\ v == dot fs ws / S) /\
  (nth_error (cfg_ests c) (nth j emap 0%nat) = Some Stddev -> Forall (fun x => 0 <= x) wrow -> (2 <= count_pos ws)%nat ->
     let N := nat_Q (count_pos ws) in
     let m := dot fs ws / S in
     exists v, nth j cons FNoEst = FOk v /\ v == N / (N - 1) * (dot (map (fun x => sq (x - m)) fs) ws / S)).
Proof.
  intros c raw fouts r objs cons Hraw H Hf emap j Hj wrow HL.
  exact (reported_values c raw fouts r objs cons Hraw H Hf snd cons emap (r_cw r)
                         (or_intror (conj eq_refl (conj eq_refl (conj eq_refl eq_refl)))) j Hj HL).
Qed.

(* non-vacuity: three realizations with weights 1/2, 1/4, 1/4, the second one failed: mean (2*1/2 + 4*1/4)/(3/4) = 8/3,
   variance 2 * (2/3 * (2 - 8/3)^2 + 1/3 * (4 - 8/3)^2) = 16/9; with one survivor the stddev estimator aborts; an
   unfiltered objective next to a filtered one keeps the configured weights; a batch of two vectors *)
Example C01_example :
  let f := [Some (Q_ 2 1); None; Some (Q_ 4 1)] in
  let wrow := [Q_ 1 2; Q_ 1 4; Q_ 1 4] in
  let failed := [false; true; false] in
  let c := {| cfg_w := wrow; cfg_ow := [Q_ 1 4; Q_ 3 4]; cfg_nc := 0; cfg_rmin := 1; cfg_pmin := 1;
              cfg_ests := [Mean; Stddev]; cfg_oem := Some [0; 1]%nat; cfg_cem := None;
              cfg_ofm := Some [(-1)%Z; 0%Z]; cfg_cfm := None |} in
  length wrow = length failed /\ Forall (fun x => 0 <= x) wrow /\
  ~ qsum (gather (keep_of failed) wrow) == 0 /\ (2 <= count_pos (gather (keep_of failed) wrow))%nat /\
  fres_eq (estimate Mean f wrow failed) (FOk (Q_ 8 3)) /\
  fres_eq (estimate Stddev f wrow failed) (FOk (Q_ 16 9)) /\
  estimate Stddev f wrow [false; true; true] = FAbort /\
  estimate Mean f wrow [true; true; true] = FDivZero /\
  filtered_weights c [FW [0; 0; 1]] = FiltOk (Some [wrow; [0; 0; 1]]) None /\
  mapped_to (cfg_ofm c) 1 0 /\
  eval_batch (fun b r => (b, r)) 2 3 = [[(0, 0); (0, 1); (0, 2)]; [(1, 0); (1, 1); (1, 2)]]%nat.
Proof.
  cbv zeta. split; [reflexivity|]. split; [repeat constructor; discriminate|].
  split; [vm_compute; discriminate|]. split; [vm_compute; repeat constructor|].
  split; [vm_compute; reflexivity|]. split; [vm_compute; reflexivity|].
  split; [vm_compute; reflexivity|]. split; [vm_compute; reflexivity|]. split; [vm_compute; reflexivity|].
  split; [eexists; split; reflexivity | vm_compute; reflexivity].
Qed.

(* non-vacuity of the end-to-end statements: one evaluation whose second realization fails is reported with values *)
Example C01_example_reported :
  let c := {| cfg_w := [Q_ 1 2; Q_ 1 4; Q_ 1 4]; cfg_ow := [Q_ 1 1]; cfg_nc := 1; cfg_rmin := 2; cfg_pmin := 1;
              cfg_ests := [Mean; Stddev]; cfg_oem := None; cfg_cem := Some [1%nat]; cfg_ofm := None; cfg_cfm := None |} in
  let raw := [([Some (Q_ 2 1)], [Some (Q_ 2 1)]); ([Some (Q_ 7 1)], [None]); ([Some (Q_ 4 1)], [Some (Q_ 4 1)])] in
  Forall (fun oc : list oQ * list oQ => fst oc <> []) raw /\
  exists r, one_set c raw [] = Done r /\ r_failed r = [false; true; false] /\
            r_functions r = Some (Values [FOk (Q_ 8 3)] [FOk (Q_ 16 9)]) /\
            length (in_force (cfg_w c) (r_ow r) 0) = length raw.
Proof.
  cbv zeta. split; [repeat constructor; discriminate|].
  eexists. split; [vm_compute; reflexivity|]. split; [reflexivity|]. split; reflexivity.
Qed.

Print Assumptions C01_mean_spec.
Print Assumptions C01_var_spec.
Print Assumptions C01_var_too_few.
Print Assumptions C01_survivor_values.
Print Assumptions C01_weighted_objective.
Print Assumptions C01_factorisation.
Print Assumptions C01_nothing_else.
Print Assumptions C01_rows_in_force.
Print Assumptions C01_layout.
Print Assumptions C01_batch_invariance.
Print Assumptions C01_reported_objectives.
Print Assumptions C01_reported_constraints.
