(* Props/C13.v -- property C13: constraint differences and violations are reported exactly for all
   bound kinds.  Only statements; each is closed by a lemma of Proofs/ConstraintInfo.v (and, for the
   transform clause, Proofs/Transforms.v).  Bounds and differences are extended reals, so every
   statement covers any mix of finite and infinite entries on either side. *)
From Coq Require Import QArith List Bool.
From Ropt Require Import Base.Num Model.ConstraintInfo Model.Transforms Proofs.ConstraintInfo Proofs.Transforms.
Import ListNotations.
Open Scope Q_scope.

(* which families are reported, and with which content: variable bounds whenever at least one bound
   is finite, linear constraints on A.x, non-linear constraints on the passed function values *)
Theorem C13_create : forall cfg x cons, wf_cons cfg cons ->
  match create cfg x cons with
  | CErr => False
  | CNone => any_finite cfg = false /\ c_linear cfg = None /\ nonlinear_part cfg cons = None
  | CInfo ci =>
      ci_bound ci = (if any_finite cfg then Some (mk_family x (v_lower cfg) (v_upper cfg)) else None) /\
      ci_linear ci = match c_linear cfg with
                     | Some lc => Some (mk_family (matvec (l_coef lc) x) (l_lower lc) (l_upper lc))
                     | None => None end /\
      ci_nonlinear ci = match cons, c_nonlinear cfg with
                        | Some c, Some (lo, up) => Some (mk_family c lo up) | _, _ => None end
  end.
Proof.
  intros cfg x cons Hwf. pose proof (create_spec cfg x cons Hwf) as H.
  destruct (create cfg x cons) as [| |ci]; [exact H | | ].
  - destruct H as (H1 & H2 & H3). unfold bound_part in H1. unfold linear_part in H2.
    destruct (any_finite cfg); [discriminate|]. destruct (c_linear cfg); [discriminate|]. auto.
  - destruct H as (H1 & H2 & H3 & _). auto.
Qed.

(* entry i of a family: lower difference = value - lower bound, upper difference = value - upper bound
   (with v - (-inf) = +inf, v - (+inf) = -inf), violation derived from the two differences *)
Theorem C13_diffs : forall vals lb ub i v l u,
  nth_error vals i = Some v -> nth_error lb i = Some l -> nth_error ub i = Some u ->
  nth_error (f_lower (mk_family vals lb ub)) i = Some (ediff v l) /\
  nth_error (f_upper (mk_family vals lb ub)) i = Some (ediff v u) /\
  nth_error (f_viol (mk_family vals lb ub)) i = Some (viol1 (ediff v l) (ediff v u)).
Proof. exact mk_family_nth. Qed.

Theorem C13_diff_values : forall v b,
  ediff v (Fin b) = Fin (v - b) /\ ediff v NInf = PInf /\ ediff v PInf = NInf.
Proof. intros v b. repeat split. Qed.

(* violation = max(lower - value, value - upper, 0) for every mix of finite and infinite bounds *)
Theorem C13_violation_formula : forall l u v,
  eeq (viol1 (ediff v l) (ediff v u)) (emax (emax (esub_r l v) (ediff v u)) (Fin 0)).
Proof. exact violation_formula. Qed.

(* inside the bounds <=> violation zero; outside <=> strictly positive *)
Theorem C13_inside_zero : forall l u v,
  eeq (viol1 (ediff v l) (ediff v u)) (Fin 0) <-> (ele l (Fin v) = true /\ ele (Fin v) u = true).
Proof. exact violation_zero_iff. Qed.

Theorem C13_outside_positive : forall l u v,
  elt (Fin 0) (viol1 (ediff v l) (ediff v u)) = true <-> ~ (ele l (Fin v) = true /\ ele (Fin v) u = true).
Proof. exact violation_positive_iff. Qed.

(* a result is treated as feasible iff every reported violation is within the tolerance *)
Theorem C13_feasible_iff : forall t ci,
  feasible (Some t) (Some ci) = true <->
  fam_within t (ci_bound ci) /\ fam_within t (ci_linear ci) /\ fam_within t (ci_nonlinear ci).
Proof. exact feasible_iff. Qed.

(* ... for every tolerance: without a tolerance (None) or without constraint information nothing is ever rejected *)
Theorem C13_feasible_total : forall tol ci,
  feasible tol ci = true <->
  match tol, ci with
  | Some t, Some c => fam_within t (ci_bound c) /\ fam_within t (ci_linear c) /\ fam_within t (ci_nonlinear c)
  | _, _ => True
  end.
Proof. exact feasible_total. Qed.

(* what the trackers retain from the delivered results (single vectors, batches, several evaluations): a "last"
   tracker retains the last delivered result that has function values and whose every violation is within the
   tolerance, and nothing iff there is no such result ... *)
Theorem C13_tracker_last : forall tol items,
  (forall j, tracked_last tol items = Some j ->
     exists it, nth_error items j = Some it /\ ti_ok tol it = true /\
       forall k' it', (j < k')%nat -> nth_error items k' = Some it' -> ti_ok tol it' = false) /\
  (tracked_last tol items = None <-> forall k it, nth_error items k = Some it -> ti_ok tol it = false).
Proof.
  intros tol items. split; [|apply last_ok_none].
  intros j H. destruct (last_ok_some tol items 0 j H) as (k & it & -> & Hk & Hok & Hl). exists it. auto.
Qed.

(* ... a "best" tracker (and BasicOptimizer) retains the first result of smallest objective among those that have
   function values, a numeric objective and every violation within the tolerance; a result with a violation beyond
   the tolerance is never retained, whatever its objective *)
Theorem C13_tracker_best : forall tol items,
  match tracked_best tol items with
  | Some j => exists it o, nth_error items j = Some it /\ ti_ok tol it = true /\ ti_obj it = Some o /\
                (forall k it' o', nth_error items k = Some it' -> ti_ok tol it' = true -> ti_obj it' = Some o' ->
                                  o <= o' /\ ((k < j)%nat -> o < o'))
  | None => forall k it, nth_error items k = Some it -> ti_ok tol it = true -> ti_obj it = None
  end.
Proof.
  intros tol items. unfold tracked_best. pose proof (best_ok_spec tol items) as H.
  destruct (best_ok tol items 0 None) as [[j o]|]; cbn in *; [|exact H].
  destruct H as ((it & H1 & H2 & H3) & H4). exists it, o. auto.
Qed.

Theorem C13_retained_within_tolerance : forall t it, ti_ok (Some t) it = true ->
  ti_fun it = true /\
  match ti_info it with
  | Some c => fam_within t (ci_bound c) /\ fam_within t (ci_linear c) /\ fam_within t (ci_nonlinear c)
  | None => True
  end.
Proof. exact ti_ok_within. Qed.

(* a variable farther than the tolerance outside a FINITE bound is always detected, whatever the other
   bounds are (in particular when lower and upper bounds each contain infinite entries) *)
Theorem C13_outside_bound_detected : forall cfg x cons t i v l u,
  wf_cons cfg cons ->
  nth_error x i = Some v -> nth_error (v_lower cfg) i = Some l -> nth_error (v_upper cfg) i = Some u ->
  (exists a, l = Fin a /\ t < a - v) \/ (exists b, u = Fin b /\ t < v - b) ->
  exists ci, create cfg x cons = CInfo ci /\ feasible (Some t) (Some ci) = false.
Proof. exact outside_bound_detected. Qed.

Theorem C13_outside_linear_detected : forall cfg lc x cons t i r l u,
  wf_cons cfg cons -> c_linear cfg = Some lc ->
  nth_error (l_coef lc) i = Some r -> nth_error (l_lower lc) i = Some l -> nth_error (l_upper lc) i = Some u ->
  (exists a, l = Fin a /\ t < a - dot r x) \/ (exists b, u = Fin b /\ t < dot r x - b) ->
  exists ci, create cfg x cons = CInfo ci /\ feasible (Some t) (Some ci) = false.
Proof. exact outside_linear_detected. Qed.

Theorem C13_outside_nonlinear_detected : forall cfg x c lo up t i v l u,
  c_nonlinear cfg = Some (lo, up) ->
  nth_error c i = Some v -> nth_error lo i = Some l -> nth_error up i = Some u ->
  (exists a, l = Fin a /\ t < a - v) \/ (exists b, u = Fin b /\ t < v - b) ->
  exists ci, create cfg x (Some c) = CInfo ci /\ feasible (Some t) (Some ci) = false.
Proof. exact outside_nonlinear_detected. Qed.

(* conversely: every value inside its bounds => feasible for every non-negative tolerance *)
Theorem C13_inside_feasible : forall cfg x cons t, 0 <= t ->
  (forall i v l u, nth_error x i = Some v -> nth_error (v_lower cfg) i = Some l ->
                   nth_error (v_upper cfg) i = Some u -> inside l u v) ->
  (forall lc i v l u, c_linear cfg = Some lc -> nth_error (matvec (l_coef lc) x) i = Some v ->
                   nth_error (l_lower lc) i = Some l -> nth_error (l_upper lc) i = Some u -> inside l u v) ->
  (forall c lo up i v l u, cons = Some c -> c_nonlinear cfg = Some (lo, up) -> nth_error c i = Some v ->
                   nth_error lo i = Some l -> nth_error up i = Some u -> inside l u v) ->
  feasible (Some t) (info_of (create cfg x cons)) = true.
Proof. exact inside_feasible. Qed.

(* transforms: the constraint information computed on the validated (optimizer-domain) configuration at the
   image of the point, mapped back with transform_from_optimizer (differences multiplied by the variable
   scales / equation scaling / constraint scales, violations recomputed), equals -- family by family, entry
   by entry, infinite entries included -- the information computed directly on the user's configuration *)
Theorem C13_transform : forall n ss os nls cfg cfg' eqo x cons,
  length x = n -> length ss = n -> length os = n -> positive ss -> positive nls -> ccfg_sized n cfg cons nls ->
  ccfg_to_opt ss os nls cfg = Some (cfg', eqo) ->
  created_eq (created_from_opt (Some ss) eqo (Some nls)
                (create cfg' (to_opt ss os x) (option_map (fun_to_opt nls) cons)))
             (create cfg x cons).
Proof. exact constraint_info_invariant. Qed.

(* non-vacuity: the input of the repaired defect (lower = [0,-inf], upper = [+inf,1], x = [-1,2]) *)
Example C13_example :
  let cfg := {| v_lower := [Fin 0; NInf]; v_upper := [PInf; Fin 1]; c_linear := None; c_nonlinear := None |} in
  wf_cons cfg None /\
  create cfg [-1; 2] None =
    CInfo {| ci_bound := Some {| f_lower := [Fin (-1 - 0); PInf]; f_upper := [NInf; Fin (2 - 1)];
                                 f_viol := [Fin (- (-1 - 0)); Fin (2 - 1)] |};
             ci_linear := None; ci_nonlinear := None |} /\
  feasible (Some (1 # 2)) (info_of (create cfg [-1; 2] None)) = false.
Proof. cbv zeta. split; [left; reflexivity | split; vm_compute; reflexivity]. Qed.

(* non-vacuity of the tracker statements: three delivered results, the best objective belongs to an infeasible one *)
Example C13_tracker_example :
  let cfg := {| v_lower := [Fin 0]; v_upper := [PInf]; c_linear := None; c_nonlinear := None |} in
  let it x o := {| ti_fun := true; ti_obj := Some o; ti_info := info_of (create cfg [x] None) |} in
  let items := [it 1 3; it (-1) 0; it 2 2; it (-(1 # 2)) 1] in
  tracked_last (Some (1 # 4)) items = Some 2%nat /\ tracked_best (Some (1 # 4)) items = Some 2%nat /\
  tracked_best None items = Some 1%nat /\ tracked_last (Some (1 # 2)) items = Some 3%nat.
Proof. cbv zeta. repeat split; vm_compute; reflexivity. Qed.

Print Assumptions C13_create.
Print Assumptions C13_diffs.
Print Assumptions C13_diff_values.
Print Assumptions C13_violation_formula.
Print Assumptions C13_inside_zero.
Print Assumptions C13_outside_positive.
Print Assumptions C13_feasible_iff.
Print Assumptions C13_feasible_total.
Print Assumptions C13_tracker_last.
Print Assumptions C13_tracker_best.
Print Assumptions C13_retained_within_tolerance.
Print Assumptions C13_outside_bound_detected.
Print Assumptions C13_outside_linear_detected.
Print Assumptions C13_outside_nonlinear_detected.
Print Assumptions C13_inside_feasible.
Print Assumptions C13_transform.
