(* Props/C14.v -- property C14: every run ends with the documented exit code under any failure pattern.
   Only statements; each is closed by a lemma of Proofs/Step.v.  The machine is Model/Step.v:
   [run c script completed cache] = (outcome, delivered results, evaluation events, completed functions),
   [run_optimizer_step], [run_evaluator_step]. *)
From Coq Require Import String List Bool Arith Lia.
From Ropt Require Import Model.Step Proofs.Step Gen.Generated.
Import ListNotations.
Open Scope nat_scope.

(* The outcome is decided by the FIRST request that does not run to completion, in execution order
   budget check -> evaluator exception / user abort -> too few realizations (threshold, filter or
   estimator); each documented outcome arises exactly in its case and there is no other outcome.
   [first_stop_is c script P]: script = pre ++ r :: post, every request of pre is executed completely
   (within budget, evaluator returns, enough successes) and P holds for r in the state reached. *)
Theorem C14_exit_classification : forall c script,
  let o := fst (fst (run_optimizer_step c script)) in
  (o = Exit TooFew <-> first_stop_is c script (stop_few c)) /\
  (o = Exit MaxFunctions <-> first_stop_is c script (stop_budget c)) /\
  (o = Exit UserAbort <-> first_stop_is c script (stop_abort c)) /\
  (o = Raise <-> first_stop_is c script (stop_raise c)) /\
  (o = Exit OptFinished <-> no_stop c script) /\
  o <> Exit EvalFinished /\ o <> Exit NestedFailed.
Proof. intros c script. cbv zeta. rewrite optimizer_step_outcome. apply classification. Qed.

(* the whole observation of a stopped run: what was delivered and emitted before the stopping
   request, then exactly the contribution of that request *)
Theorem C14_first_stop_observation : forall c pre r post dpre epre n' ca' o rs es,
  conts c 0 None pre dpre epre n' ca' -> stops c n' ca' r o rs es ->
  run c (pre ++ r :: post) 0 None = (o, dpre ++ rs, epre ++ es, n').
Proof.
  intros c pre r post dpre epre n' ca' o rs es Hc Hs.
  exact (run_first_stop c pre r post 0 None dpre epre n' ca' o rs es Hc Hs).
Qed.

(* function results delivered never exceed max_functions + (largest batch - 1), the results of a
   failing last evaluation included, for cache-respecting scripts ... *)
Theorem C14_budget : forall c m B script o d e,
  maxf c = Some m -> 1 <= B ->
  Forall (fun r => length (vectors r) <= B) script ->
  cache_ok None script = true ->
  run_optimizer_step c script = (o, d, e) ->
  countF d <= m + (B - 1).
Proof.
  intros c m B script o d e Hm HB Hall Hok H. unfold run_optimizer_step in H.
  destruct (run c script 0 None) as [[[o' d'] e'] k] eqn:Er. injection H as <- <- <-.
  assert (H0 : 0 <= m + (B - 1)) by lia.
  destruct (budget_delivered c m B Hm HB script 0 None _ _ _ _ Hall Hok H0 Er) as [H1 _]. lia.
Qed.

(* ... in particular at most max_functions for non-parallel scripts ... *)
Theorem C14_budget_serial : forall c m script o d e,
  maxf c = Some m ->
  Forall (fun r => length (vectors r) <= 1) script ->
  cache_ok None script = true ->
  run_optimizer_step c script = (o, d, e) ->
  countF d <= m.
Proof.
  intros c m script o d e Hm Hall Hok H.
  pose proof (C14_budget c m 1 script o d e Hm (le_n 1) Hall Hok H). lia.
Qed.

(* ... and the functions counted against the budget obey the bound for every script *)
Theorem C14_budget_counted : forall c m B script o d e k,
  maxf c = Some m -> 1 <= B ->
  Forall (fun r => length (vectors r) <= B) script ->
  run c script 0 None = (o, d, e, k) -> k <= m + (B - 1).
Proof.
  intros c m B script o d e k Hm HB Hall H.
  assert (H0 : 0 <= m + (B - 1)) by lia.
  exact (budget_counted c m B Hm HB script 0 None o d e k Hall H0 H).
Qed.

(* the results of the evaluation that has too few realizations are delivered, and its
   FINISHED_EVALUATION event emitted, before the step ends with TOO_FEW_REALIZATIONS *)
Theorem C14_results_before_abort : forall c script d e,
  run_optimizer_step c script = (Exit TooFew, d, e) ->
  exists pre r post dpre epre n' ca' rs,
    script = pre ++ r :: post /\ conts c 0 None pre dpre epre n' ca' /\
    too_few c r ca' rs /\ rs <> [] /\
    d = dpre ++ rs /\ e = StartOpt :: epre ++ [StartEval; FinEval; FinOpt].
Proof. exact results_before_too_few. Qed.

(* an exception of the user's evaluator reaches the caller, and nothing else raises *)
Theorem C14_exceptions_propagate : forall c script,
  fst (fst (run_optimizer_step c script)) = Raise <-> first_stop_is c script (stop_raise c).
Proof. exact exceptions_propagate. Qed.

(* the evaluator step: a single function evaluation, possibly of several vectors *)
Theorem C14_evaluator_step : forall c r,
  let '(o, d, e) := run_evaluator_step c r in
  match flt r with
  | FRaise => o = Raise /\ d = [] /\ e = [StartEvalStep; StartEval]
  | FAbort => o = Exit UserAbort /\ d = [] /\ e = [StartEvalStep; StartEval; FinEvalStep]
  | FMasks fms _ =>
      e = [StartEvalStep; StartEval; FinEval; FinEvalStep] /\
      match eval_vectors c fms with
      | inl _ => o = Exit TooFew /\ length d = length fms
      | inr rs => d = rs /\ (o = Exit TooFew <-> exists x, In x rs /\ r_has x = false) /\
                  (o = Exit EvalFinished <-> forall x, In x rs -> r_has x = true) /\
                  (o = Exit TooFew \/ o = Exit EvalFinished)
      end
  end.
Proof. exact evaluator_step_classification. Qed.

(* WHY an evaluation has too few realizations, in terms of the failure masks.  A function request for one vector:
   (a) the realization filter leaves no successful realization with a positive weight, or
   (b) fewer than realization_min_success realizations succeeded, or
   (c) the stddev estimator is left with fewer than two realizations, or
   (d) realization_min_success = 0, the method does not accept NaN and every realization failed -- and nothing else *)
Theorem C14_too_few_function_request : forall c r ca fm pm,
  rk r = KF -> flt r = FMasks [fm] pm ->
  ((exists rs, too_few c r ca rs) <->
   filter_few (chosen c fm) = true \/
   (filter_few (chosen c fm) = false /\
    (count_ok fm < rmin c \/
     (rmin c <= count_ok fm /\ all_failed fm = false /\ cest c = Stddev /\ nz c (chosen c fm) fm < min_stddev) \/
     (rmin c = 0 /\ allow_nan c = false /\ all_failed fm = true)))).
Proof. exact too_few_function_request. Qed.

(* ... a gradient-only request at the cached point: a realization counts as failed when its function value failed or
   fewer than perturbation_min_success of its perturbations succeeded ([failed_grad]); too few exactly when fewer than
   realization_min_success are left, or the stddev estimator is left with fewer than two, or realization_min_success = 0,
   the method does not accept NaN and none is left (the all-failed test applies to gradient results as well) *)
Theorem C14_too_few_gradient_request : forall c r p cfm cch fms pm,
  rk r = KG -> flt r = FMasks fms pm -> p = pt r ->
  let fg := failed_grad c cfm pm in
  (forall i, i < nreal c -> nth i fg true = failed_at cfm i || (count_ok (nth i pm []) <? pmin c)) /\
  ((exists rs, too_few c r (Some (p, cfm, cch)) rs) <->
   count_ok fg < rmin c \/
   (rmin c <= count_ok fg /\ cest c = Stddev /\ nz c cch fg < min_stddev) \/
   (rmin c = 0 /\ allow_nan c = false /\ all_failed fg = true)).
Proof.
  intros c r p cfm cch fms pm Hk Hf Hp fg. split.
  - intros i Hi. exact (failed_grad_nth c cfm pm i Hi).
  - exact (too_few_gradient_request c r p cfm cch fms pm Hk Hf Hp).
Qed.

(* ... and on the delivered results themselves: the optimizer step stops with TOO_FEW_REALIZATIONS exactly when a result
   has no functions / gradients, or all its realizations failed while realization_min_success = 0 and the method does not
   accept NaN; the evaluator step exactly when a result has no functions *)
Theorem C14_too_few_by_result_flags : forall c rs,
  (few_opt c rs = true <->
   exists r, In r rs /\ (r_has r = false \/ (rmin c = 0 /\ allow_nan c = false /\ r_allf r = true))) /\
  (few_eval rs = true <-> exists r, In r rs /\ r_has r = false).
Proof. intros c rs. split; [apply few_opt_spec | apply few_eval_spec]. Qed.

(* NESTED OPTIMIZATIONS (to any depth; [rec] is the behaviour of the nested runs, arbitrary).  A request of a step with
   a nested optimization: the budget is checked before the nested run starts; an exception of the nested run passes
   through; a nested USER_ABORT ends the step with USER_ABORT whatever the tracker holds -- in particular it wins over
   NESTED_OPTIMIZER_FAILED; a nested run that ended otherwise and has left the tracker empty gives
   NESTED_OPTIMIZER_FAILED; otherwise the request is evaluated exactly as without nesting *)
Theorem C14_nested_priority : forall rec c r st rest n ca hs own io id itr hst iown,
  rec st (tl hs) = (io, id, itr, (hst, iown)) ->
  let h := hd false hs || iown in
  run_items rec c ((r, Some st) :: rest) n ca hs own =
  if over_budget c n then (Exit MaxFunctions, [], [], (hs, own)) else
  match io with
  | Raise => (Raise, id, [TInner io itr], (h :: hst, own))
  | Exit UserAbort => (Exit UserAbort, id, [TInner io itr], (h :: hst, own))
  | Exit _ =>
      if h then
        let '(o, d, e, s') := run_items rec c ((r, None) :: rest) n ca (h :: hst) own in
        (o, id ++ d, TInner io itr :: e, s')
      else (Exit NestedFailed, id, [TInner io itr], (h :: hst, own))
  end.
Proof. exact run_items_nested. Qed.

(* a step without nested optimization, seen as a tree, is the plain machine all theorems above are about *)
Theorem C14_leaf_is_plain_step : forall c script hs,
  tree_step (leaf c script) hs = run_optimizer_step c script.
Proof. exact tree_step_leaf. Qed.

(* the exit codes and events of the model are members of the enums of the current source *)
Theorem C14_codes_documented :
  (forall c, exists z, In (code_name c, z) enum_OptimizerExitCode) /\
  (forall e, exists z, In (evt_name e, z) enum_EventType) /\
  min_stddev = min_stddev_realizations.
Proof.
  repeat split.
  - intros c. destruct c; vm_compute; eexists; eauto 10.
  - intros e. destruct e; vm_compute; eexists; eauto 10.
Qed.

(* non-vacuity: two realizations, threshold 2; the third evaluation loses a realization.  The run
   delivers F, F+G, and the failing F (functions = None) and ends with TOO_FEW_REALIZATIONS; with
   max_functions = 2 the same script is stopped by the budget before the failing evaluation. *)
Example C14_example :
  let c := {| nreal := 2; rmin := 2; pmin := 1; allow_nan := false; maxf := None; cfilt := NoFilter;
              cest := Mean; order := [0; 1]; zerow := [] |} in
  let ok := FMasks [[false; false]] [[false]; [false]] in
  let script := [ {| rk := KF; pt := 0; batch := 0; flt := ok |};
                  {| rk := KFG; pt := 1; batch := 0; flt := ok |};
                  {| rk := KF; pt := 2; batch := 0; flt := FMasks [[false; true]] [] |};
                  {| rk := KF; pt := 3; batch := 0; flt := FRaise |} ] in
  run_optimizer_step c script =
    (Exit TooFew,
     [mkres RF true false; mkres RF true false; mkres RG true false; mkres RF false false],
     [StartOpt; StartEval; FinEval; StartEval; FinEval; StartEval; FinEval; FinOpt]) /\
  fst (fst (run_optimizer_step {| nreal := 2; rmin := 2; pmin := 1; allow_nan := false; maxf := Some 2;
                                  cfilt := NoFilter; cest := Mean; order := [0; 1]; zerow := [] |} script))
    = Exit MaxFunctions /\
  first_stop_is c script (stop_few c).
Proof.
  cbv zeta. split; [vm_compute; reflexivity|]. split; [vm_compute; reflexivity|].
  apply (C14_exit_classification _ _). vm_compute. reflexivity.
Qed.

(* non-vacuity, nested: three plan levels; the innermost run is aborted by the evaluator at its first evaluation, before any
   tracker holds a result: every level reports USER_ABORT (not NESTED_OPTIMIZER_FAILED), no FINISHED_EVALUATION is
   invented, every started step is finished, innermost first, and both nested plans are marked aborted *)
Example C14_example_nested :
  let c := {| nreal := 1; rmin := 1; pmin := 1; allow_nan := false; maxf := None; cfilt := NoFilter;
              cest := Mean; order := [0]; zerow := [] |} in
  let ok := FMasks [[false]] [[false]] in
  let rq f := {| rk := KF; pt := 0; batch := 0; flt := f |} in
  let t := NS c [(rq ok, Some (NS c [(rq ok, Some (NS c [(rq FAbort, None); (rq ok, None)]))]))] in
  run_tree_step t =
    (Exit UserAbort, [], [StartOpt; StartOpt; StartOpt; StartEval; FinOpt; FinOpt; FinOpt]) /\
  (let '(_, _, l, _) := run_tree t [] in aborted_below 2 l) = [true; true].
Proof. vm_compute. split; reflexivity. Qed.

Print Assumptions C14_exit_classification.
Print Assumptions C14_first_stop_observation.
Print Assumptions C14_budget.
Print Assumptions C14_budget_serial.
Print Assumptions C14_budget_counted.
Print Assumptions C14_results_before_abort.
Print Assumptions C14_exceptions_propagate.
Print Assumptions C14_evaluator_step.
Print Assumptions C14_too_few_function_request.
Print Assumptions C14_too_few_gradient_request.
Print Assumptions C14_too_few_by_result_flags.
Print Assumptions C14_nested_priority.
Print Assumptions C14_leaf_is_plain_step.
Print Assumptions C14_codes_documented.
