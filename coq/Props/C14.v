(* Props/C14.v -- property C14: every run ends with the documented exit code under any failure pattern.
   Only statements; each is closed by a lemma of Proofs/Step.v.  The machine is Model/Step.v:
   [run c script completed cache] = (outcome, delivered results, evaluation events, completed functions),
   [run_optimizer_step], [run_evaluator_step]. *)
From Coq Require Import String List Bool Arith Lia.
From Ropt Require Import Model.Step Proofs.Step Gen.Generated.
Import ListNotations.
Open Scope nat_scope.

(* The outcome is decided by the FIRST request that does not run to completion, in execution order
   budget check -> evaluator exception / user abort -> too few realizations (threshold, filter or
   estimator); each documented outcome arises exactly in its case and there is no other outcome.
   [first_stop_is c script P]: script = pre ++ r :: post, every request of pre is executed completely
   (within budget, evaluator returns, enough successes) and P holds for r in the state reached. *)
Theorem C14_exit_classification : forall c script,
  let o := fst (fst (run_optimizer_step c script)) in
  (o = Exit TooFew <-> first_stop_is c script (stop_few c)) /\
  (o = Exit MaxFunctions <-> first_stop_is c script (stop_budget c)) /\
  (o = Exit UserAbort <-> first_stop_is c script (stop_abort c)) /\
  (o = Raise <-> first_stop_is c script (stop_raise c)) /\
  (o = Exit OptFinished <-> no_stop c script) /\
  o <> Exit EvalFinished /\ o <> Exit NestedFailed.
Proof. intros c script. cbv zeta. rewrite optimizer_step_outcome. apply classification. Qed.

(* the whole observation of a stopped run: what was delivered and emitted before the stopping
   request, then exactly the contribution of that request *)
Theorem C14_first_stop_observation : forall c pre r post dpre epre n' ca' o rs es,
  conts c 0 None pre dpre epre n' ca' -> stops c n' ca' r o rs es ->
  run c (pre ++ r :: post) 0 None = (o, dpre ++ rs, epre ++ es, n').
Proof.
  intros c pre r post dpre epre n' ca' o rs es Hc Hs.
  exact (run_first_stop c pre r post 0 None dpre epre n' ca' o rs es Hc Hs).
Qed.

(* function results delivered never exceed max_functions + (largest batch - 1), the results of a
   failing last evaluation included, for cache-respecting scripts ... *)
Theorem C14_budget : forall c m B script o d e,
  maxf c = Some m -> 1 <= B ->
  Forall (fun r => length (vectors r) <= B) script ->
  cache_ok None script = true ->
  run_optimizer_step c script = (o, d, e) ->
  countF d <= m + (B - 1).
Proof.
  intros c m B script o d e Hm HB Hall Hok H. unfold run_optimizer_step in H.
  destruct (run c script 0 None) as [[[o' d'] e'] k] eqn:Er. injection H as <- <- <-.
  assert (H0 : 0 <= m + (B - 1)) by lia.
  destruct (budget_delivered c m B Hm HB script 0 None _ _ _ _ Hall Hok H0 Er) as [H1 _]. lia.
Qed.

(* ... in particular at most max_functions for non-parallel scripts ... *)
Theorem C14_budget_serial : forall c m script o d e,
  maxf c = Some m ->
  Forall (fun r => length (vectors r) <= 1) script ->
  cache_ok None script = true ->
  run_optimizer_step c script = (o, d, e) ->
  countF d <= m.
Proof.
  intros c m script o d e Hm Hall Hok H.
  pose proof (C14_budget c m 1 script o d e Hm (le_n 1) Hall Hok H). lia.
Qed.

(* ... and the functions counted against the budget obey the bound for every script *)
Theorem C14_budget_counted : forall c m B script o d e k,
  maxf c = Some m -> 1 <= B ->
  Forall (fun r => length (vectors r) <= B) script ->
  run c script 0 None = (o, d, e, k) -> k <= m + (B - 1).
Proof.
  intros c m B script o d e k Hm HB Hall H.
  assert (H0 : 0 <= m + (B - 1)) by lia.
  exact (budget_counted c m B Hm HB script 0 None o d e k Hall H0 H).
Qed.

(* the results of the evaluation that has too few realizations are delivered, and its
   FINISHED_EVALUATION event emitted, before the step ends with TOO_FEW_REALIZATIONS *)
Theorem C14_results_before_abort : forall c script d e,
  run_optimizer_step c script = (Exit TooFew, d, e) ->
  exists pre r post dpre epre n' ca' rs,
    script = pre ++ r :: post /\ conts c 0 None pre dpre epre n' ca' /\
    too_few c r ca' rs /\ rs <> [] /\
    d = dpre ++ rs /\ e = StartOpt :: epre ++ [StartEval; FinEval; FinOpt].
Proof. exact results_before_too_few. Qed.

(* an exception of the user's evaluator reaches the caller, and nothing else raises *)
Theorem C14_exceptions_propagate : forall c script,
  fst (fst (run_optimizer_step c script)) = Raise <-> first_stop_is c script (stop_raise c).
Proof. exact exceptions_propagate. Qed.

(* the evaluator step: a single function evaluation, possibly of several vectors *)
Theorem C14_evaluator_step : forall c r,
  let '(o, d, e) := run_evaluator_step c r in
  match flt r with
  | FRaise => o = Raise /\ d = [] /\ e = [StartEvalStep; StartEval]
  | FAbort => o = Exit UserAbort /\ d = [] /\ e = [StartEvalStep; StartEval; FinEvalStep]
  | FMasks fms _ =>
      e = [StartEvalStep; StartEval; FinEval; FinEvalStep] /\
      match eval_vectors c fms with
      | inl _ => o = Exit TooFew /\ length d = length fms
      | inr rs => d = rs /\ (o = Exit TooFew <-> exists x, In x rs /\ r_has x = false) /\
                  (o = Exit EvalFinished <-> forall x, In x rs -> r_has x = true) /\
                  (o = Exit TooFew \/ o = Exit EvalFinished)
      end
  end.
Proof. exact evaluator_step_classification. Qed.

(* the exit codes and events of the model are members of the enums of the current source *)
Theorem C14_codes_documented :
  (forall c, exists z, In (code_name c, z) enum_OptimizerExitCode) /\
  (forall e, exists z, In (evt_name e, z) enum_EventType) /\
  min_stddev = min_stddev_realizations.
Proof.
  repeat split.
  - intros c. destruct c; vm_compute; eexists; eauto 10.
  - intros e. destruct e; vm_compute; eexists; eauto 10.
Qed.

(* non-vacuity: two realizations, threshold 2; the third evaluation loses a realization.  The run
   delivers F, F+G, and the failing F (functions = None) and ends with TOO_FEW_REALIZATIONS; with
   max_functions = 2 the same script is stopped by the budget before the failing evaluation. *)
Example C14_example :
  let c := {| nreal := 2; rmin := 2; pmin := 1; allow_nan := false; maxf := None; cfilt := NoFilter;
              cest := Mean; order := [0; 1] |} in
  let ok := FMasks [[false; false]] [[false]; [false]] in
  let script := [ {| rk := KF; pt := 0; batch := 0; flt := ok |};
                  {| rk := KFG; pt := 1; batch := 0; flt := ok |};
                  {| rk := KF; pt := 2; batch := 0; flt := FMasks [[false; true]] [] |};
                  {| rk := KF; pt := 3; batch := 0; flt := FRaise |} ] in
  run_optimizer_step c script =
    (Exit TooFew,
     [mkres RF true false; mkres RF true false; mkres RG true false; mkres RF false false],
     [StartOpt; StartEval; FinEval; StartEval; FinEval; StartEval; FinEval; FinOpt]) /\
  fst (fst (run_optimizer_step {| nreal := 2; rmin := 2; pmin := 1; allow_nan := false; maxf := Some 2;
                                  cfilt := NoFilter; cest := Mean; order := [0; 1] |} script))
    = Exit MaxFunctions /\
  first_stop_is c script (stop_few c).
Proof.
  cbv zeta. split; [vm_compute; reflexivity|]. split; [vm_compute; reflexivity|].
  apply (C14_exit_classification _ _). vm_compute. reflexivity.
Qed.

Print Assumptions C14_exit_classification.
Print Assumptions C14_first_stop_observation.
Print Assumptions C14_budget.
Print Assumptions C14_budget_serial.
Print Assumptions C14_budget_counted.
Print Assumptions C14_results_before_abort.
Print Assumptions C14_exceptions_propagate.
Print Assumptions C14_evaluator_step.
Print Assumptions C14_codes_documented.
