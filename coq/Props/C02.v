(* Props/C02.v -- property C02: the stochastic gradient is exact on affine ensembles and zero on fixed
   variables.  Statements only; each is closed by a lemma of Proofs/{Lstsq,SvdBound,Gradient,LstsqComplete}.v.
   All statements are about the executable definitions of Model/Gradient.v that Check/Chk_C02.v
   evaluates against the real implementation.  Equality of rationals is Qeq (==), [veq] is Qeq
   entry by entry, [vz] means every entry == 0. *)
From Coq Require Import QArith List Bool Arith.
From Ropt Require Import Base.Num Base.ListX Gen.Generated Model.Gradient Proofs.Lstsq Proofs.SvdBound Proofs.Gradient Proofs.LstsqComplete.
Import ListNotations.
Open Scope Q_scope.

(* Certified least squares.  If the data is consistent (b == A a) and A has full column rank
   (A d == 0 -> d == 0), every vector accepted by the normal-equation test equals a. *)
Theorem C02_lstsq_exact : forall n A b a g,
  length a = n -> veq b (mv A a) -> (forall d, length d = n -> vz (mv A d) -> vz d) ->
  lstsq n A b = Some g -> veq g a.
Proof. exact lstsq_exact. Qed.

(* What "accepted" means: g = N / D with D <> 0 and  sum_i w_i A_i^T (A_i N - D b_i) == 0  exactly. *)
Theorem C02_accepted_satisfies_normal_equations : forall n sys g,
  wlstsq n sys = Some g ->
  exists N D, ~ D == 0 /\ length N = n /\ vz (wresidual n (scale_rhs D sys) N) /\ g = map (fun k => Qred (k / D)) N.
Proof.
  intros n sys g H. destruct (wlstsq_sound n sys g H) as [N [D [HD [Hacc Hg]]]].
  destruct (accept_spec _ _ _ Hacc) as [HN [_ Hres]]. exists N, D. auto.
Qed.

(* The accepted vector is the least-squares solution, also for inconsistent data (non-affine ensembles): its
   residual sum of squares |A g - b|^2 is minimal among all vectors, and under full column rank every
   minimiser equals it. *)
Theorem C02_lstsq_least_squares : forall n A b g h,
  lstsq n A b = Some g -> length h = n -> rss A b g <= rss A b h.
Proof. exact lstsq_minimal. Qed.
Theorem C02_lstsq_unique_minimiser : forall n A b g g',
  (forall d, length d = n -> vz (mv A d) -> vz d) -> lstsq n A b = Some g -> length g' = n ->
  (forall h, length h = n -> rss A b g' <= rss A b h) -> veq g' g.
Proof. exact lstsq_unique_minimiser. Qed.

(* The 99.9 % energy rule.  For non-negative squared singular values s ++ [x] whose last (smallest)
   element is at least k of the total, nothing is truncated provided 1 - k < tau. *)
Theorem C02_no_truncation : forall tau k s x, 1 - k < tau ->
  Forall (fun y => 0 <= y) (s ++ [x]) -> 0 < qsum (s ++ [x]) -> k * qsum (s ++ [x]) <= x ->
  select_mask tau (s ++ [x]) = repeat true (length (s ++ [x])).
Proof. exact no_truncation. Qed.

(* The side condition holds for the constant found in the source on this run (kappa = 1/100). *)
Theorem C02_svd_tolerance_in_range : 1 - kappa < svd_tolerance /\ svd_tolerance < 1.
Proof. exact svd_tolerance_in_range. Qed.

(* Hence inside the property's conditioning clause the code's rule keeps every singular value and all
   of them are positive (the truncated pseudo-inverse is the full one); the checker compares values
   exactly when [keeps_all] holds, so the clause never excuses a mismatch. *)
Theorem C02_bound_implies_no_truncation : forall n s2,
  well_conditioned n s2 = true -> keeps_all svd_tolerance s2 = true /\ length s2 = n.
Proof. exact well_conditioned_keeps_all. Qed.

(* Failed realizations get weight zero, the rest is renormalised: the weights used sum to one. *)
Theorem C02_weights_normalised : forall v wh, normalize v = Some wh ->
  ~ qsum v == 0 /\ veq wh (map (fun x => x / qsum v) v) /\ qsum wh == 1.
Proof. exact normalize_spec. Qed.
Theorem C02_failed_weight_zero : forall failed w k, length failed = length w ->
  nth k (zero_failed failed w) 0 = if nth k failed false then 0 else nth k w 0.
Proof. exact zero_failed_spec. Qed.

(* Mean, per-realization estimation.  [affine_ens n x rs wh sl]: realization i evaluates an affine
   function with slope sl_i (any offset) at x and at its successful perturbations, and whenever its
   normalised weight is non-zero its successful difference rows have full column rank. *)
Theorem C02_mean_affine : forall n x rs failed w wh sl g, length x = n ->
  normalize (zero_failed failed w) = Some wh ->
  affine_ens n x rs wh sl ->
  calc_gradient n x rs failed w EMean false = GMean g ->
  veq g (affine_mean_gradient n wh sl).
Proof. exact mean_affine. Qed.

(* Merged estimation, identical realizations (same slope a, any offsets, any perturbations). *)
Theorem C02_merged_affine_identical : forall n x rs ws a g, length x = n ->
  (forall r w, In (r, w) (combine rs ws) -> 0 <= w /\ exists c, affine_on n x a c r) ->
  (exists r w, In (r, w) (combine rs ws) /\ 0 < w /\ full_rank n (fst (system_of x r))) ->
  estimate_merged n x rs ws = Some g -> veq g a.
Proof. exact merged_identical. Qed.

(* The same under JOINT rank only: no single realization needs enough successful perturbations (this is what
   merge_realizations is for: one or two perturbations per realization); it suffices that the difference
   matrices of the realizations with positive weight, stacked, have full column rank. *)
Theorem C02_merged_affine_identical_joint : forall n x rs ws a g, length x = n -> length a = n ->
  (forall r w, In (r, w) (combine rs ws) -> 0 <= w /\ exists c, affine_on n x a c r) ->
  (forall d, length d = n ->
     (forall r w, In (r, w) (combine rs ws) -> 0 < w -> vz (mv (fst (system_of x r)) d)) -> vz d) ->
  estimate_merged n x rs ws = Some g -> veq g a.
Proof. exact merged_identical_joint. Qed.

(* Merged estimation, shared perturbations: all contributing realizations have the same difference
   matrix A (same perturbations, same successful rows), weights sum to one. *)
Theorem C02_merged_affine_shared : forall n x A rs ws sl g, length x = n -> wfm n A -> full_rank n A ->
  shared_ens n x A rs ws sl -> qsum ws == 1 ->
  estimate_merged n x rs ws = Some g -> veq g (wvsum n ws sl).
Proof. exact merged_shared. Qed.

(* Standard deviation: the model's sigma * grad sigma on an affine ensemble is the chain-rule
   expression in the exact slopes ... *)
Theorem C02_sd_affine : forall n x rs failed w wh sl sg var, length x = n ->
  normalize (zero_failed failed w) = Some wh ->
  affine_ens n x rs wh sl ->
  calc_gradient n x rs failed w EStd false = GStd sg var ->
  let f := nan_to_num (map r_f0 rs) in
  veq sg (affine_sd_gradient n wh f sl) /\ var = wvariance (bessel wh) wh f /\ (2 <= count_pos wh)%nat.
Proof. exact sd_affine. Qed.

(* ... and that expression is the derivative of the variance: along x + t d the values of an affine
   ensemble are f_i + t (a_i . d), and  Var(t) == Var(0) + 2 t (sigma grad sigma . d) + t^2 Var_d
   for all t and d. *)
Theorem C02_sd_chain_rule : forall n c (w f : vec) (sl : list vec) (d : vec) t,
  length f = length w -> length sl = length w -> Forall (fun a => length a = n) sl -> length d = n ->
  qsum w == 1 ->
  let u := map (fun a => rdot a d) sl in
  wvariance c w (vadd f (qscale t u))
  == wvariance c w f + 2 * t * rdot (sd_grad_times_sd n c w f sl) d + t * t * wvariance c w u.
Proof. exact sd_chain_rule. Qed.

(* sigma = 0 (all values that carry weight coincide): sigma * grad sigma vanishes, so the zeros the
   estimator returns in that case agree with the chain-rule expression. *)
Theorem C02_sd_zero_variance : forall n c (w f : vec) gs, ~ c == 0 -> length f = length w -> length gs = length w ->
  Forall (fun g => length g = n) gs -> Forall (fun x => 0 <= x) w ->
  wvariance c w f == 0 -> vz (sd_grad_times_sd n c w f gs).
Proof. exact sd_zero_variance. Qed.

(* Variable scaling.  The user's evaluator sees from_optimizer y = y * s + o.  If realization r is affine in
   user coordinates with slope a, then in optimizer coordinates (where the perturbations, the differences and
   the reported gradient live) it is affine with slope s (.) a; so every theorem above applies with the
   slopes [scale_slope s a], which is what the checker compares the reported gradients with. *)
Theorem C02_variable_scaling : forall n s o x a c r, length s = n -> length o = n -> length x = n ->
  Forall (fun p => length p = n) (r_X r) ->
  affine_on n (from_optimizer s o x) a c (map_rdata_X (from_optimizer s o) r) ->
  affine_on n x (scale_slope s a) (rdot a o + c) r.
Proof. exact affine_on_scaled. Qed.

(* Fixed variables: the reported vector has one entry per variable, entries of fixed variables are the
   literal 0, and the free positions carry the estimate computed on the restricted problem, in order. *)
Theorem C02_fixed_entries_zero : forall mask x rs failed w e merge G,
  gres_vec (compute_gradient mask x rs failed w e merge) = Some G ->
  length G = length mask /\
  (forall k, nth k mask true = false -> nth k G 1 = 0) /\
  exists g, gres_vec (calc_gradient (count_true mask) (restrict_free mask x) (map (restrict_rdata mask) rs)
                                    failed w e merge) = Some g /\
            G = expand_with_zeros mask g /\ restrict_free mask G = g.
Proof. exact compute_gradient_expansion. Qed.

(* The matrix handed to the optimizer callback (weighted-objective gradient, then the constraint gradients,
   free columns only) consists exactly of the estimates of the restricted problem: no column of a fixed
   variable, the free ones unchanged and in order. *)
Theorem C02_optimizer_matrix : forall mask gw gcs,
  length gw = count_true mask -> Forall (fun g => length g = count_true mask) gcs ->
  optimizer_matrix mask (expand_with_zeros mask gw) (map (expand_with_zeros mask) gcs) = gw :: gcs.
Proof. exact optimizer_matrix_expand. Qed.

(* Weighted-objective gradient: entry k is sum_j ow_j * (objective gradient j)_k. *)
Theorem C02_weighted_objective : forall n ow gs k, Forall (fun g => length g = n) gs ->
  nth k (weighted_objective_gradient n ow gs) 0 == wsum ow (map (fun g => nth k g 0) gs).
Proof. exact wvsum_nth. Qed.

(* ---- Completeness of the certified solver (Proofs/LstsqComplete.v) ------------------------------------------------
   The theorems above say what an accepted vector is; these say that one IS returned.  For every number of
   columns n: if A has n columns, b one entry per row, and A has full column rank, the Cramer proposer passes
   the acceptance test, so the solver never answers "singular".  (Cramer's rule and det <> 0 for a definite
   Gram matrix are proved for the model's own cofactor determinant, generically in n.) *)
Theorem C02_lstsq_complete : forall n A b,
  wfm n A -> length b = length A -> (forall d, length d = n -> vz (mv A d) -> vz d) ->
  exists g, lstsq n A b = Some g.
Proof. exact lstsq_complete. Qed.

(* The same for the weighted stacked solve of the merged estimate: non-negative weights, and only the STACK of
   the systems with positive weight needs full column rank. *)
Theorem C02_wlstsq_complete : forall n sys,
  Forall (wfs n) sys -> (forall s, In s sys -> 0 <= fst s) ->
  (forall d, length d = n -> (forall s, In s sys -> 0 < fst s -> vz (mv (fst (snd s)) d)) -> vz d) ->
  exists g, wlstsq n sys = Some g.
Proof. exact wlstsq_complete. Qed.

(* Conversely a vector is returned ONLY for well-shaped data of full (joint) column rank: with the two theorems
   above, "singular" is answered exactly on rank-deficient (or ill-shaped) data. *)
Theorem C02_wlstsq_some_only_if_full_rank : forall n sys g,
  (forall s, In s sys -> 0 <= fst s) -> wlstsq n sys = Some g ->
  Forall (wfs n) sys /\
  (forall d, length d = n -> (forall s, In s sys -> 0 < fst s -> vz (mv (fst (snd s)) d)) -> vz d).
Proof. exact wlstsq_some_joint_rank. Qed.

(* Singular values and rank.  The singular values are an oracle (NumPy's); what the theorems use is the
   characterisation of the smallest squared one as a lower bound of the Rayleigh quotient of A^T A, written
   homogeneously:  smin * |x|^2 <= |A x|^2  for every x.  If smin > 0 then A has full column rank. *)
Theorem C02_singular_values_full_rank : forall n A smin, 0 < smin ->
  (forall x, length x = n -> smin * rdot x x <= rdot (mv A x) (mv A x)) ->
  forall d, length d = n -> vz (mv A d) -> vz d.
Proof. exact rayleigh_full_rank. Qed.

(* Inside the property's conditioning clause (n squared singular values, descending, the smallest at least 1 % of
   the total) the smallest one is positive, so the clause implies full column rank ... *)
Theorem C02_bound_implies_full_rank : forall n A s2, well_conditioned n s2 = true ->
  (forall x, length x = n -> last s2 0 * rdot x x <= rdot (mv A x) (mv A x)) ->
  forall d, length d = n -> vz (mv A d) -> vz d.
Proof. exact well_conditioned_full_rank. Qed.

(* ... and under the 1 % bound the code's rule truncates nothing and the model's solver returns THE least-squares
   solution: it is returned, it minimises |A g - b|^2, every minimiser equals it, and for consistent data
   (b == A a) it is a. *)
Theorem C02_bound_solver_returns_least_squares : forall n A b s2,
  wfm n A -> length b = length A -> well_conditioned n s2 = true ->
  (forall x, length x = n -> last s2 0 * rdot x x <= rdot (mv A x) (mv A x)) ->
  keeps_all svd_tolerance s2 = true /\
  exists g, lstsq n A b = Some g /\
    (forall h, length h = n -> rss A b g <= rss A b h) /\
    (forall g', length g' = n -> (forall h, length h = n -> rss A b g' <= rss A b h) -> veq g' g) /\
    (forall a, length a = n -> veq b (mv A a) -> veq g a).
Proof. exact well_conditioned_lstsq. Qed.

(* Consequences for the gradient model: on an affine ensemble whose contributing realizations have full column
   rank it never answers GSingular (whatever the estimator), the mean gradient IS returned and is exact ... *)
Theorem C02_never_singular_on_full_rank_ensembles : forall n x rs failed w wh sl e, length x = n ->
  normalize (zero_failed failed w) = Some wh -> affine_ens n x rs wh sl ->
  calc_gradient n x rs failed w e false <> GSingular.
Proof. exact calc_gradient_not_singular. Qed.
Theorem C02_mean_affine_total : forall n x rs failed w wh sl, length x = n ->
  normalize (zero_failed failed w) = Some wh -> affine_ens n x rs wh sl ->
  exists g, calc_gradient n x rs failed w EMean false = GMean g /\ veq g (affine_mean_gradient n wh sl).
Proof. exact mean_affine_total. Qed.

(* ... and the merged estimate is returned for ANY function values (affine or not) as soon as the perturbed
   vectors have n entries, the weights are non-negative and the stacked difference matrices of the
   realizations with positive weight have full column rank. *)
Theorem C02_merged_total : forall n x rs ws, length x = n ->
  (forall r w, In (r, w) (combine rs ws) -> 0 <= w /\ Forall (fun p => length p = n) (r_X r)) ->
  (forall d, length d = n ->
     (forall r w, In (r, w) (combine rs ws) -> 0 < w -> vz (mv (fst (system_of x r)) d)) -> vz d) ->
  exists g, estimate_merged n x rs ws = Some g.
Proof. exact merged_total. Qed.

(* Non-vacuity: two realizations, three variables of which the middle one is fixed, slopes (2,_,-3)
   and (4,_,1), weights 1 and 3, the second perturbation of realization 1 failed (still full rank
   with the remaining two), an extra failed realization.  The model returns exactly the weighted
   slopes, with a literal zero for the fixed variable; the merged estimate on shared perturbations
   gives the same. *)
Example C02_example :
  let mask := [true; false; true] in
  let x := [0; 5; 1] in
  let f1 p := match p with [a; _; b] => Some (2 * a - 3 * b + 7) | _ => None end in
  let f2 p := match p with [a; _; b] => Some (4 * a + 1 * b - 1) | _ => None end in
  let X1 := [[1; 5; 1]; [0; 5; 2]; [1; 5; 2]] in
  let X2 := [[1; 5; 1]; [0; 5; 2]] in
  let r1 := {| r_X := X1; r_f0 := f1 x; r_fp := [f1 [1; 5; 1]; None; f1 [1; 5; 2]] |} in
  let r2 := {| r_X := X2; r_f0 := f2 x; r_fp := map f2 X2 |} in
  let r3 := {| r_X := X2; r_f0 := None; r_fp := map f2 X2 |} in
  compute_gradient mask x [r1; r2; r3] [false; false; true] [1; 3; 5] EMean false
    = GMean [7 # 2; 0; 0] /\
  compute_gradient mask x [{| r_X := X2; r_f0 := f1 x; r_fp := map f1 X2 |}; r2; r3]
                   [false; false; true] [1; 3; 5] EMean true = GMean [7 # 2; 0; 0] /\
  well_conditioned 2 [1; 1] = true /\
  full_rank 2 [[1; 0]; [1; 1]].
Proof.
  repeat split; try (vm_compute; reflexivity).
  intros d Hd Hz. destruct d as [|a [|b [|? ?]]]; try discriminate.
  cbn [mv map rdot] in Hz. inversion Hz as [|? ? H1 Hz']; subst. inversion Hz' as [|? ? H2 _]; subst.
  rewrite !radd_correct in H1, H2.
  repeat constructor; [|]; Lqa.lra.
Qed.

(* Non-vacuity of the joint-rank, scaling and optimizer-matrix statements: two identical realizations with ONE
   perturbation each (each difference matrix alone is rank deficient: the per-realization solve has no unique
   answer) whose stack has full rank -- the merged estimate is the exact slope; the VariableScaler map of the
   known finding C11 example; the matrix the optimizer gets for mask (free, fixed, free). *)
Example C02_example_joint :
  let x := [0; 0] in
  let f p := match p with [a; b] => Some (2 * a - 3 * b + 1) | _ => None end in
  let r1 := {| r_X := [[1; 0]]; r_f0 := f x; r_fp := [f [1; 0]] |} in
  let r2 := {| r_X := [[0; 1]]; r_f0 := f x; r_fp := [f [0; 1]] |} in
  estimate_merged 2 x [r1; r2] [1 # 2; 1 # 2] = Some [2; -3] /\
  lstsq 2 (fst (system_of x r1)) (snd (system_of x r1)) = None /\
  optimizer_matrix [true; false; true] [7 # 2; 0; 0] [[1; 0; 2]] = [[7 # 2; 0]; [1; 2]] /\
  from_optimizer [2; 4] [1; 1] [3; 5] = [7; 21] /\
  rss [[1; 0]; [0; 1]; [1; 1]] [1; 1; 0] [1 # 3; 1 # 3] == 4 # 3.
Proof. repeat split; vm_compute; reflexivity. Qed.

(* Non-vacuity of the conditioning hypotheses of C02_bound_solver_returns_least_squares: A = [[1 0];[0 1];[1 1]],
   A^T A = [[2 1];[1 2]] has eigenvalues 3 and 1 (inside the 1 % bound), |A x|^2 >= 1 * |x|^2, inconsistent data. *)
Example C02_example_complete :
  let A := [[1; 0]; [0; 1]; [1; 1]] in
  well_conditioned 2 [3; 1] = true /\
  (forall x, length x = 2%nat -> last [3; 1] 0 * rdot x x <= rdot (mv A x) (mv A x)) /\
  lstsq 2 A [1; 1; 0] = Some [1 # 3; 1 # 3].
Proof.
  split; [vm_compute; reflexivity|]. split; [|vm_compute; reflexivity].
  intros x Hx. destruct x as [|a [|b [|? ?]]]; try discriminate.
  cbn [last mv map rdot]. rewrite !radd_correct.
  assert (H : 0 <= (a + b) * (a + b)) by (generalize (a + b); intros c; Lqa.nra). Lqa.nra.
Qed.

Print Assumptions C02_lstsq_exact.
Print Assumptions C02_accepted_satisfies_normal_equations.
Print Assumptions C02_lstsq_least_squares.
Print Assumptions C02_lstsq_unique_minimiser.
Print Assumptions C02_no_truncation.
Print Assumptions C02_svd_tolerance_in_range.
Print Assumptions C02_bound_implies_no_truncation.
Print Assumptions C02_weights_normalised.
Print Assumptions C02_failed_weight_zero.
Print Assumptions C02_mean_affine.
Print Assumptions C02_merged_affine_identical.
Print Assumptions C02_merged_affine_identical_joint.
Print Assumptions C02_merged_affine_shared.
Print Assumptions C02_sd_affine.
Print Assumptions C02_sd_chain_rule.
Print Assumptions C02_sd_zero_variance.
Print Assumptions C02_variable_scaling.
Print Assumptions C02_fixed_entries_zero.
Print Assumptions C02_optimizer_matrix.
Print Assumptions C02_weighted_objective.
Print Assumptions C02_lstsq_complete.
Print Assumptions C02_wlstsq_complete.
Print Assumptions C02_wlstsq_some_only_if_full_rank.
Print Assumptions C02_singular_values_full_rank.
Print Assumptions C02_bound_implies_full_rank.
Print Assumptions C02_bound_solver_returns_least_squares.
Print Assumptions C02_never_singular_on_full_rank_ensembles.
Print Assumptions C02_mean_affine_total.
Print Assumptions C02_merged_total.
