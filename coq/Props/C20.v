(* Props/C20.v -- property C20: external-process runs equal in-process runs; process death is never
   success; the run never hangs; no optimizer process is left running.
   Only statements; each is closed by lemmas of Proofs/Pipe.v.  The model (Model/Pipe.v) is the
   message-level protocol of ropt/plugins/optimizer/external.py; the OS (signal delivery, FIFO
   buffering, real time) is not modelled -- see MANIFEST level_note: partial w.r.t. OS behaviour. *)
From Coq Require Import List Bool Arith ZArith String Lia.
From Ropt Require Import Model.Framing Proofs.Framing Model.Pipe Proofs.Pipe.
Import ListNotations.
Local Open Scope string_scope.
Local Open Scope list_scope.

(* (a) the channel is lossless: what the parent decodes is what the child sent, and vice versa *)
Theorem C20_lossless_request : forall r,
  wf_request r = true -> dec_request (enc_request r) = Some r.
Proof. exact lossless_request. Qed.

Theorem C20_lossless_answer : forall r a,
  fits r a = true -> wf_answer a = true -> dec_answer r (enc_answer a) = Some a.
Proof. exact lossless_answer. Qed.

(* (a) for EVERY optimizer strategy, evaluator and pipe schedule with enough passes in which the pipes
   are ready: the external run makes exactly the callbacks of the in-process run, gets the same
   answers, and ends in the same way (same exit code / same exception) *)
Theorem C20_trace_equal : forall ev s cfg x0,
  (forall hist, wf_action (s cfg x0 hist) = true) ->
  (forall i v rf rg, wf_evres (fst (ev i v rf rg)) = true) ->
  forall fuel r tr, inproc fuel ev (s cfg x0) [] [] = Some (r, tr) ->
  forall sch, fuel + 2 <= enabled sch ->
  exists st, ext_run ev s NoFault cfg x0 sch = Some (r, st) /\ p_trace (s_par st) = tr.
Proof. exact trace_equal. Qed.

(* (b) a child that dies by ANY signal -- when it is about to write its k-th message, right after it read
   the answer to its k-th message, or while it is blocked waiting for that answer -- or exits with a
   non-zero code, for ANY k: the run either was already complete (same result, same trace) or ends with
   the "terminated abnormally" error / the error of writing into a FIFO nobody reads, after a prefix of
   the in-process evaluations *)
Theorem C20_fault_outcome : forall ev s cfg x0 flt,
  (forall hist, wf_action (s cfg x0 hist) = true) ->
  (forall i v rf rg, wf_evres (fst (ev i v rf rg)) = true) ->
  abnormal flt ->
  forall fuel r tr, inproc fuel ev (s cfg x0) [] [] = Some (r, tr) ->
  forall sch, fuel + 2 <= enabled sch ->
  exists r' st, ext_run ev s flt cfg x0 sch = Some (r', st) /\
    ((r' = r /\ p_trace (s_par st) = tr) \/
     (death r' /\ exists rest, tr = p_trace (s_par st) ++ rest)).
Proof. exact fault_outcome. Qed.

(* (b) process death is never success: whenever the child's return code is not 0 (signal or exit
   code), or an error report was read, the parent raises -- for every strategy, evaluator, fault and
   schedule; the loop can only return normally when the child exited with code 0 *)
Theorem C20_death_never_success : forall ev s flt cfg x0 sch r st,
  ext_run ev s flt cfg x0 sch = Some (r, st) ->
  returncode (s_child st) <> 0%Z \/ error_read st ->
  exists e, r = Raise e.
Proof.
  intros ev s flt cfg x0 sch r st H D. destruct r as [|e]; [exfalso | exists e; reflexivity].
  destruct D as [D | D].
  - apply D. unfold ext_run in H. rewrite (return_exit0 ev s cfg x0 flt sch _ _ H). reflexivity.
  - exact (return_no_error ev s cfg x0 flt sch _ _ (inv_init flt) H D).
Qed.

(* ... and a normal return means the whole in-process run was made *)
Theorem C20_success_is_complete : forall ev s cfg x0 flt,
  (forall hist, wf_action (s cfg x0 hist) = true) ->
  (forall i v rf rg, wf_evres (fst (ev i v rf rg)) = true) ->
  abnormal flt ->
  forall fuel r tr, inproc fuel ev (s cfg x0) [] [] = Some (r, tr) ->
  forall sch st, fuel + 2 <= enabled sch ->
  ext_run ev s flt cfg x0 sch = Some (Return, st) ->
  r = Return /\ p_trace (s_par st) = tr.
Proof.
  intros ev s cfg x0 flt SW EW A fuel r tr H sch st N E.
  destruct (fault_outcome ev s cfg x0 flt SW EW A fuel r tr H sch N) as (r' & st' & E' & D).
  rewrite E in E'. inversion E'; subst r' st'.
  destruct D as [[<- T] | [[(c & _ & K) | K] _]]; [split; [reflexivity | exact T] | discriminate K | discriminate K].
Qed.

(* the plan step maps a raised error to an error or the abort's own code, never to "finished" *)
Theorem C20_raise_not_finished : forall fin e,
  (forall c, e = ExAbort c -> c <> fin) -> step_outcome fin (Raise e) <> Exit fin.
Proof.
  intros fin e H. destruct e as [c | cls | m | rc |]; cbn; try discriminate.
  intros K. inversion K. exact (H c eq_refl H1).
Qed.

(* (b) never hangs.  Once the child is gone the loop is left in the very next pass, whatever the
   pipes do ... *)
Theorem C20_poll_exit : forall ev s cfg x0 flt t st,
  running (s_child st) = false -> exists r, iter ev s flt cfg x0 t st = Done r st.
Proof. exact poll_exit. Qed.

(* ... and for every finite script, fault and evaluator the loop ends within |script| + 3 passes in
   which the pipes are ready (no fuel exhaustion; passes with unready pipes only delay) *)
Theorem C20_terminates : forall ev sc flt cfg x0,
  forallb wf_action sc = true ->
  (forall i v rf rg, wf_evres (fst (ev i v rf rg)) = true) ->
  forall sch, List.length sc + 3 <= enabled sch ->
  exists res, ext_run ev (script_strategy sc) flt cfg x0 sch = Some res.
Proof. exact script_terminates. Qed.

(* (c) no orphan: in every final state -- normal return, abort, evaluator exception, error report,
   child death -- the child is not running *)
Theorem C20_no_orphan : forall ev s cfg x0 flt sch st r st',
  run ev s flt cfg x0 sch st = Some (r, st') -> running (s_child st') = false.
Proof. exact no_orphan. Qed.

(* schedules: result, trace, wire log and final child state do not depend on when the pipes were ready *)
Theorem C20_schedule_independent : forall ev s cfg x0 flt sch1 sch2 st res1 res2,
  run ev s flt cfg x0 sch1 st = Some res1 -> run ev s flt cfg x0 sch2 st = Some res2 -> res1 = res2.
Proof. exact schedule_independent. Qed.

(* (b) which signal it was is irrelevant: two deaths at the same moment (about to write message k / right after
   the answer to message k / while waiting for the answer to message k) by DIFFERENT signals give, on every
   schedule, runs with the same callbacks, the same messages on the wire, the same stored exception and the same
   liveness of the child; the results are equal, or both are the abnormal-termination error and differ only in
   the (negative) return code *)
Theorem C20_signal_irrelevant : forall ev s cfg x0 f1 f2 sch r1 st1,
  same_moment f1 f2 -> ext_run ev s f1 cfg x0 sch = Some (r1, st1) ->
  exists r2 st2, ext_run ev s f2 cfg x0 sch = Some (r2, st2) /\
    (r1 = r2 \/ exists g1 g2 : positive, r1 = Raise (ExDeath (Zneg g1)) /\ r2 = Raise (ExDeath (Zneg g2))) /\
    s_par st2 = s_par st1 /\ running (s_child st2) = running (s_child st1).
Proof. exact signal_irrelevant. Qed.

(* (a) framing of the messages on the FIFO (`json + "\n--READY--\n"`, _JSONPipeCommunicator.read): for EVERY list of
   messages (without newline, none equal to the delimiter text -- what json.dumps produces) and EVERY way the FIFO
   cuts their byte stream into pieces, polling the reader after every piece returns exactly the messages, in
   order, and leaves an empty buffer *)
Theorem C20_framing_any_chunking :
  forall (A : Type) (eq_dec : forall x y : A, {x = y} + {x <> y}) (nl : A) (delim : list A),
  ~ In nl delim ->
  forall cs ms, Forall (Proofs.Framing.good A nl delim) ms ->
  List.concat cs = List.concat (map (Model.Framing.wire A nl delim) ms) ->
  Model.Framing.run A eq_dec nl delim [] cs = (ms, []).
Proof. exact Proofs.Framing.run_any_chunking. Qed.

(* ... in particular one message cut in two at ANY offset, also inside the delimiter line (a message of
   65536*k + 1..9 bytes): nothing is returned after the first piece, the message after the second *)
Theorem C20_framing_two_pieces :
  forall (A : Type) (eq_dec : forall x y : A, {x = y} + {x <> y}) (nl : A) (delim : list A),
  ~ In nl delim ->
  forall m p q, Proofs.Framing.good A nl delim m -> q <> [] -> p ++ q = Model.Framing.wire A nl delim m ->
  Model.Framing.run_trace A eq_dec nl delim [] [p; q] = [[]; [m]].
Proof. exact Proofs.Framing.two_pieces. Qed.

(* non-vacuity: a two-evaluation script; without fault the run returns after both evaluations; a child
   killed (SIGKILL) or terminated (SIGTERM) when about to write its 4th message gives the abnormal-termination
   error after one evaluation; a child that dies right after the last answer -- the run was complete -- still
   is an error; a child killed while it waits for the answer to its 3rd message gives the pipe error after
   that callback was made; a child that reports an error, also one with an EMPTY message, gives the optimizer
   error; an aborting evaluator gives its code; pipes that are ready only now and then change nothing *)
Example C20_example :
  let v1 := T1 [1%Z; 2%Z] in let v2 := T1 [3%Z; 4%Z] in
  let sc := [Ask v1 true false; Ask v2 true true] in
  let ev : evaluator := fun i _ _ _ => (EvOk (T1 [Z.of_nat i]) (T2 [[5%Z]]), [[Z.of_nat i]]) in
  let evab : evaluator := fun i _ _ _ => (if Nat.eqb i 1 then EvAbort 4 else EvOk (T1 []) (T1 []), []) in
  let out r := option_map (fun p : result * sys => (fst p, List.length (p_trace (s_par (snd p))), s_child (snd p))) r in
  let lazy := [Tick false false; Tick true false; Tick false true; Tick true true; Tick true false;
               Tick false false; Tick false true; Tick true true; Tick true true; Tick true true; Tick true true] in
  forallb wf_action sc = true /\
  out (ext_run ev (script_strategy sc) NoFault JNull [] (sync 5)) = Some (Return, 2, CExited 0) /\
  out (ext_run ev (script_strategy sc) NoFault JNull [] lazy) = Some (Return, 2, CExited 0) /\
  out (ext_run ev (script_strategy sc) (DieAfter 3 sigkill) JNull [] (sync 5)) = Some (Raise (ExDeath (-9)), 1, CKilled sigkill) /\
  out (ext_run ev (script_strategy sc) (DieAfter 3 sigterm) JNull [] lazy) = Some (Raise (ExDeath (-15)), 1, CKilled sigterm) /\
  out (ext_run ev (script_strategy sc) (DieOnAnswer 4 sigterm) JNull [] (sync 5)) = Some (Raise (ExDeath (-15)), 2, CKilled sigterm) /\
  out (ext_run ev (script_strategy sc) (DieOnAnswer 2 sigint) JNull [] (sync 5)) = Some (Raise (ExDeath (-2)), 0, CKilled sigint) /\
  out (ext_run ev (script_strategy sc) (DieWaiting 3 sigterm) JNull [] (sync 5)) = Some (Raise ExPipe, 1, CKilled sigterm) /\
  out (ext_run ev (script_strategy sc) (DieWaiting 1 sigkill) JNull [] lazy) = Some (Raise ExPipe, 0, CKilled sigkill) /\
  out (ext_run ev (script_strategy sc) (ExitAfter 0 3) JNull [] (sync 5)) = Some (Raise (ExDeath 3), 0, CExited 3) /\
  out (ext_run ev (with_raise 1 "boom" (script_strategy sc)) NoFault JNull [] (sync 5))
    = Some (Raise (ExOptimizer "boom"), 1, CKilled sigterm) /\
  out (ext_run ev (with_raise 1 "" (script_strategy sc)) NoFault JNull [] (sync 5))
    = Some (Raise (ExOptimizer ""), 1, CKilled sigterm) /\
  out (ext_run evab (script_strategy sc) NoFault JNull [] (sync 5)) = Some (Raise (ExAbort 4), 2, CKilled sigterm) /\
  option_map fst (inproc 5 ev (script_strategy sc JNull []) [] []) = Some Return.
Proof. vm_compute. repeat split; reflexivity. Qed.

Print Assumptions C20_lossless_request.
Print Assumptions C20_lossless_answer.
Print Assumptions C20_trace_equal.
Print Assumptions C20_fault_outcome.
Print Assumptions C20_death_never_success.
Print Assumptions C20_success_is_complete.
Print Assumptions C20_raise_not_finished.
Print Assumptions C20_poll_exit.
Print Assumptions C20_terminates.
Print Assumptions C20_no_orphan.
Print Assumptions C20_schedule_independent.
Print Assumptions C20_signal_irrelevant.
Print Assumptions C20_framing_any_chunking.
Print Assumptions C20_framing_two_pieces.
