(* Props/C11.v -- property C11 (stub while the correspondence is being developed). *)
From Coq Require Import QArith List Bool.
From Ropt Require Import Base.Num Model.ConstraintInfo Model.Transforms Proofs.Transforms.
Import ListNotations.
Open Scope Q_scope.

Theorem C11_stub : forall s o y, ~ s == 0 -> (y * s + o - o) / s == y.
Proof. exact to_opt1_from_opt1. Qed.
Print Assumptions C11_stub.
