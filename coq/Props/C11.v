(* Props/C11.v -- property C11: scaling transforms change optimizer coordinates only, not user-domain
   behaviour.  Only statements; each is closed by a lemma of Proofs/Transforms.v.  Everything is over exact
   rationals, for vectors of any length, positive scales (non-zero is enough for the round trip) and arbitrary
   offsets; bounds are extended reals, so every bound kind (finite, -inf, +inf, equality) is covered.
   [veq] / [meq] are component-wise == on vectors / lists of rows, [eeq] is == on extended reals. *)
From Coq Require Import QArith List Bool.
From Ropt Require Import Base.Num Base.ListX Model.ConstraintInfo Model.Transforms Proofs.ConstraintInfo Proofs.Transforms.
Import ListNotations.
Open Scope Q_scope.

(* mapping to the optimizer domain and back is the identity (both ways) *)
Theorem C11_roundtrip : forall ss os x,
  length ss = length x -> length os = length x -> nonzero ss ->
  veq (from_opt ss os (to_opt ss os x)) x /\ veq (to_opt ss os (from_opt ss os x)) x.
Proof. intros; split; [apply roundtrip_from_to | apply roundtrip_to_from]; assumption. Qed.

(* a point satisfies the user's bounds iff its image satisfies the transformed bounds (infinite entries incl.) *)
Theorem C11_bounds_iff : forall ss os lb ub x,
  length ss = length x -> length os = length x -> length lb = length x -> length ub = length x -> positive ss ->
  all_within (bounds_to_opt ss os lb) (bounds_to_opt ss os ub) (to_opt ss os x) = all_within lb ub x.
Proof. exact bounds_iff_bool. Qed.

(* linear constraints: the transformation is defined whenever no scaled row vanishes ... *)
Theorem C11_linear_defined : forall ss os lc,
  (forall r, In r (l_coef lc) -> exists a, In a (zipw Qmult r ss) /\ ~ a == 0) ->
  exists lc' eq, linear_to_opt ss os lc = Some (lc', eq).
Proof. exact linear_to_opt_defined. Qed.

(* ... every row i of the result is the user's row with columns scaled, divided by its equation scaling
   e = max |coefficient| > 0, right-hand sides corrected by A.offsets; for every bound kind
   l <= A x <= u  <=>  l^ <= A^ x^ <= u^, and the back-transformed differences (A^ x^ - l^) * e are exactly
   the user-domain differences A x - l *)
Theorem C11_linear_iff : forall ss os lc lc' eq x i r l u,
  length ss = length x -> length os = length x -> positive ss -> length r = length x ->
  linear_to_opt ss os lc = Some (lc', eq) ->
  nth_error (l_coef lc) i = Some r -> nth_error (l_lower lc) i = Some l -> nth_error (l_upper lc) i = Some u ->
  exists e r' l' u',
    nth_error eq i = Some e /\ 0 < e /\ e = qabs_max (zipw Qmult r ss) /\
    nth_error (l_coef lc') i = Some r' /\ nth_error (l_lower lc') i = Some l' /\ nth_error (l_upper lc') i = Some u' /\
    within l' u' (dot r' (to_opt ss os x)) = within l u (dot r x) /\
    eeq (escale e (ediff (dot r' (to_opt ss os x)) l')) (ediff (dot r x) l) /\
    eeq (escale e (ediff (dot r' (to_opt ss os x)) u')) (ediff (dot r x) u).
Proof.
  intros ss os lc lc' eq x i r l u H1 H2 Hp Hr Hlin Er El Eu.
  destruct (linear_to_opt_row _ _ _ _ _ _ _ _ _ Hlin Er El Eu) as (e & He & Hpos & Hdef & Hr' & Hl' & Hu').
  destruct (linear_row_invariant ss os x r l u e Hr H1 H2 Hp Hpos) as (A & B & C).
  exists e, (map (fun a => a / e) (zipw Qmult r ss)), (Tb e (dot r os) l), (Tb e (dot r os) u).
  repeat (split; [assumption|]). assumption.
Qed.

(* bounds and linear constraints together, on the configuration as transformed at validation *)
Theorem C11_feasible_iff : forall n ss os nls cfg cfg' eqo x,
  length x = n -> length ss = n -> length os = n -> positive ss -> ccfg_sized n cfg None nls ->
  ccfg_to_opt ss os nls cfg = Some (cfg', eqo) ->
  feasible_point cfg' (to_opt ss os x) = feasible_point cfg x.
Proof. exact feasible_point_iff. Qed.

(* boundary handling of perturbations is equivariant under the positive affine map T v = (v - o) / s,
   for all three boundary types, every repeat count and every bound kind *)
Theorem C11_apply_bounds_equivariant : forall s o, 0 < s -> forall rep t lb ub y,
  apply_bounds_1 rep t (Tb s o lb) (Tb s o ub) (T s o y) == T s o (apply_bounds_1 rep t lb ub y).
Proof. intros s o Hs rep t lb ub y. apply apply_bounds_T; [exact Hs | reflexivity]. Qed.

(* the evaluator receives the same user-domain vectors (perturbed ones included): two validated versions of
   one user configuration -- in particular the untransformed one (scales 1, offsets 0) and any positively
   scaled one -- yield the same rows for every kind of call, every point, all samples; absolute magnitudes
   (m / s, then * s) and relative magnitudes (from the transformed bounds) included *)
Theorem C11_requests_invariant : forall rep R k n u ss1 os1 m1 ss2 os2 m2 x samples,
  ucfg_sized n u -> length x = n -> Forall (Forall (fun z => length z = n)) samples ->
  length ss1 = n -> length os1 = n -> positive ss1 -> validate_vars ss1 os1 u = Some m1 ->
  length ss2 = n -> length os2 = n -> positive ss2 -> validate_vars ss2 os2 u = Some m2 ->
  meq (requests rep R k ss1 os1 m1 (to_opt ss1 os1 x) samples) (requests rep R k ss2 os2 m2 (to_opt ss2 os2 x) samples).
Proof. exact requests_invariant. Qed.

Corollary C11_requests_equal_untransformed : forall rep R k n u ss os m0 m x samples,
  ucfg_sized n u -> length x = n -> Forall (Forall (fun z => length z = n)) samples ->
  length ss = n -> length os = n -> positive ss ->
  validate_vars (ones n) (zeros n) u = Some m0 -> validate_vars ss os u = Some m ->
  meq (requests rep R k ss os m (to_opt ss os x) samples)
      (requests rep R k (ones n) (zeros n) m0 (to_opt (ones n) (zeros n) x) samples).
Proof.
  intros rep R k n u ss os m0 m x samples Hu Hx Hs H1 H2 Hp Hv0 Hv.
  apply (requests_invariant rep R k n u ss os m (ones n) (zeros n) m0 x samples); auto;
    [apply ones_length | apply zeros_length | apply ones_pos].
Qed.

(* the validated perturbation magnitude of a variable, in the user's own units: an absolute magnitude m is stored
   as m / s, a relative one is taken from the transformed bounds, and both are m_user / s with
   m_user = m (absolute) or (upper - lower) * m (relative) -- whatever the scale and offset of that variable *)
Theorem C11_magnitude_user_units : forall s o l u pt m mh, 0 < s ->
  fix_magnitude s (Tb s o l) (Tb s o u) pt m = Some mh ->
  exists me, eff_mag l u pt m = Some me /\ mh == me / s.
Proof. exact fix_magnitude_eff. Qed.

(* every component of every perturbed row the evaluator receives, stated directly in user units: the boundary
   handling applied to x_i + m_user,i * z_i with the user's own bounds -- no scale or offset appears *)
Theorem C11_request_component : forall rep n ss os u m x z i a,
  ucfg_sized n u -> length ss = n -> length os = n -> positive ss -> validate_vars ss os u = Some m ->
  nth_error (from_opt ss os (perturb rep m (to_opt ss os x) z)) i = Some a ->
  exists xi zi l ub t mg p me,
    nth_error x i = Some xi /\ nth_error z i = Some zi /\ nth_error (u_lb u) i = Some l /\
    nth_error (u_ub u) i = Some ub /\ nth_error (u_bt u) i = Some t /\ nth_error (u_mag u) i = Some mg /\
    nth_error (u_pt u) i = Some p /\ eff_mag l ub p mg = Some me /\
    a == apply_bounds_1 rep t l ub (xi + me * zi).
Proof. exact request_component. Qed.

(* function requests for a batch of points (2-D variables, parallel optimizers, evaluator steps given several
   vectors): the evaluator receives every user-domain point R times, in order, whatever the scaler *)
Theorem C11_batch_requests_user : forall R ss os xs,
  Forall (fun x => length ss = length x /\ length os = length x) xs -> positive ss ->
  meq (batch_requests R ss os (map (to_opt ss os) xs)) (batch_rows R xs).
Proof. exact batch_requests_user. Qed.

Theorem C11_batch_requests_invariant : forall R n ss1 os1 ss2 os2 xs,
  Forall (fun x => length x = n) xs ->
  length ss1 = n -> length os1 = n -> positive ss1 -> length ss2 = n -> length os2 = n -> positive ss2 ->
  meq (batch_requests R ss1 os1 (map (to_opt ss1 os1) xs)) (batch_requests R ss2 os2 (map (to_opt ss2 os2) xs)).
Proof. exact batch_requests_invariant. Qed.

(* user-domain results: per-realization values (diagonal scale round trip) ... *)
Theorem C11_values_invariant : forall sc f, length sc = length f -> nonzero sc ->
  veq (fun_from_opt sc (fun_to_opt sc f)) f.
Proof. exact fun_roundtrip. Qed.

(* ... function values, for every estimator that is homogeneous under positive scaling ... *)
Theorem C11_function_values_invariant : forall est : list Q -> Q,
  (forall c f, 0 < c -> est (map (fun v => v / c) f) == est f / c) ->
  forall s col, 0 < s -> est (map (fun v => v / s) col) * s == est col.
Proof. exact function_value_invariant. Qed.

(* ... which the normalised weighted mean (the default estimator) is *)
Theorem C11_weighted_mean_homogeneous : forall w f s, wmean w (map (fun v => v / s) f) == wmean w f / s.
Proof. exact wmean_homogeneous. Qed.

(* ... and all bound / linear / non-linear differences and violations: the constraint information computed
   in the optimizer domain and mapped back equals the one computed directly in the user domain *)
Theorem C11_constraint_info_invariant : forall n ss os nls cfg cfg' eqo x cons,
  length x = n -> length ss = n -> length os = n -> positive ss -> positive nls -> ccfg_sized n cfg cons nls ->
  ccfg_to_opt ss os nls cfg = Some (cfg', eqo) ->
  created_eq (created_from_opt (Some ss) eqo (Some nls)
                (create cfg' (to_opt ss os x) (option_map (fun_to_opt nls) cons)))
             (create cfg x cons).
Proof. exact constraint_info_invariant. Qed.

(* trackers: a "last" tracker without constraint tolerance retains a position that depends only on which delivered
   results carry function values -- so the run with transforms (whose deliveries carry function values exactly where
   those of the run without do) retains the result at the same position; Chk_C11 checks that this position is the one
   observed in both runs and that the retained object is the delivered user-domain one *)
Theorem C11_last_tracker_invariant : forall plain scaled,
  map ti_fun plain = map ti_fun scaled -> tracked_last None plain = tracked_last None scaled.
Proof. intros plain scaled H. unfold tracked_last. apply last_ok_no_tolerance. exact H. Qed.

(* non-vacuity: a concrete scaled problem meets every hypothesis; the perturbed vector crosses its bounds *)
Example C11_example :
  let u := {| u_x0 := [1 # 2; 0]; u_lb := [Fin 0; NInf]; u_ub := [Fin 1; Fin 2];
              u_mag := [1 # 4; 1]; u_pt := [PRel; PAbs]; u_bt := [BMirror; BTrunc] |} in
  let ss := [2; 3] in let os := [1; -1] in
  let lc := {| l_coef := [[1; -2]]; l_lower := [NInf]; l_upper := [Fin 1] |} in
  ucfg_sized 2 u /\ positive ss /\
  (exists m0 m, validate_vars (ones 2) (zeros 2) u = Some m0 /\ validate_vars ss os u = Some m /\
     forallb2 (forallb2 Qeqb) (requests 3 1 RBoth ss os m (to_opt ss os (u_x0 u)) [[[3; 4]]])
              [[1 # 2; 0]; [3 # 4; 2]] = true /\
     forallb2 (forallb2 Qeqb) (requests 3 1 RBoth (ones 2) (zeros 2) m0 (to_opt (ones 2) (zeros 2) (u_x0 u)) [[[3; 4]]])
              [[1 # 2; 0]; [3 # 4; 2]] = true) /\
  (exists lc' eq, linear_to_opt ss os lc = Some (lc', eq) /\ forallb2 Qeqb eq [6] = true).
Proof.
  cbv zeta. split; [repeat split|]. split; [repeat constructor; reflexivity|]. split.
  - eexists; eexists. split; [vm_compute; reflexivity|]. split; [vm_compute; reflexivity|].
    split; vm_compute; reflexivity.
  - eexists; eexists. split; vm_compute; reflexivity.
Qed.

Print Assumptions C11_roundtrip.
Print Assumptions C11_bounds_iff.
Print Assumptions C11_linear_defined.
Print Assumptions C11_linear_iff.
Print Assumptions C11_feasible_iff.
Print Assumptions C11_apply_bounds_equivariant.
Print Assumptions C11_requests_invariant.
Print Assumptions C11_requests_equal_untransformed.
Print Assumptions C11_magnitude_user_units.
Print Assumptions C11_request_component.
Print Assumptions C11_batch_requests_user.
Print Assumptions C11_batch_requests_invariant.
Print Assumptions C11_values_invariant.
Print Assumptions C11_function_values_invariant.
Print Assumptions C11_weighted_mean_homogeneous.
Print Assumptions C11_constraint_info_invariant.
Print Assumptions C11_last_tracker_invariant.
