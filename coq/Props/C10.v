(* Props/C10.v -- property C10: perturbed variables honour magnitudes and boundary-type semantics.
   Only statements; each is closed by a lemma of Proofs/Bounds.v.  [apply_bounds_1] is the model of one
   component of ropt's _apply_bounds with the MIRROR_REPEAT constant regenerated from the source;
   [perturb] is _perturb_variables on the (realizations x perturbations x variables) array.
   The last section (C10 x C11, lemmas in Proofs/BoundsScaling.v) identifies this boundary function with the copy
   C11 keeps in Model/Transforms.v ([T.apply_bounds_1], boundary types decoded to an inductive [T.btype]) and proves
   it equivariant under the variable scaler. *)
From Coq Require Import QArith Qminmax ZArith List Bool Arith Lia.
From Ropt Require Import Base.Num Base.ListX Gen.Generated Model.Bounds Proofs.Bounds Proofs.BoundsScaling.
Import ListNotations.
Open Scope Q_scope.

(* entry (r, p, v) of the perturbed array is the boundary-processed value of x_v + magnitude_v * sample_{r,p,v},
   for every shape ... *)
Theorem C10_formula : forall ts lbs ubs x mags samples r p v t l u xv m sv,
  nth_error ts v = Some t -> nth_error lbs v = Some l -> nth_error ubs v = Some u ->
  nth_error x v = Some xv -> nth_error mags v = Some m -> nth3 samples r p v = Some sv ->
  nth3 (perturb ts lbs ubs x mags samples) r p v = Some (apply_bounds_1 t l u (xv + m * sv)).
Proof. exact perturb_formula. Qed.

(* ... where the sample is the sum of the samples of all samplers that ran *)
Theorem C10_samples_added : forall ss r p v qs,
  ss <> [] -> Forall2 (fun a q => nth3 a r p v = Some q) ss qs ->
  exists q, nth3 (sum_samples ss) r p v = Some q /\ q == qsum qs.
Proof. exact sum_samples_nth. Qed.

(* the perturbed array has the shape of the sample array, V entries per vector *)
Theorem C10_shape : forall ts lbs ubs x mags samples n,
  length ts = n -> length lbs = n -> length ubs = n -> length x = n -> length mags = n ->
  Forall (Forall (fun row => length row = n)) samples ->
  length (perturb ts lbs ubs x mags samples) = length samples /\
  Forall (Forall (fun row => length row = n)) (perturb ts lbs ubs x mags samples) /\
  Forall2 (fun a b => length a = length b) (perturb ts lbs ubs x mags samples) samples.
Proof. exact perturb_shape. Qed.

(* a value already inside the bounds is never altered, whatever the boundary type (any code) *)
Theorem C10_inside_unaltered : forall t lb ub y,
  inside lb ub y -> apply_bounds_1 t lb ub y = y.
Proof. intros t lb ub y. apply inside_unaltered. Qed.

(* NONE: left untouched, for every value and all bounds *)
Theorem C10_none_identity : forall lb ub y, apply_bounds_1 bt_none lb ub y = y.
Proof. intros lb ub y. apply none_identity. Qed.

(* TRUNCATE_BOTH: clipped to the bounds: max lower (min y upper) for finite bounds; the bound that is
   violated for one-sided bounds; always within the bounds *)
Theorem C10_truncate : forall lb ub y,
  apply_bounds_1 bt_truncate lb ub y = clip lb ub y /\
  (forall l u, lb = Fin l -> ub = Fin u -> l <= u -> clip lb ub y == Qmax l (Qmin y u)) /\
  (forall l, lb = Fin l -> okb lb ub = true -> y < l -> clip lb ub y = l) /\
  (forall u, ub = Fin u -> okb lb ub = true -> u < y -> clip lb ub y = u) /\
  (okb lb ub = true -> inside lb ub (clip lb ub y)).
Proof.
  intros lb ub y. split; [apply truncate_clip|].
  split; [intros l u -> -> H; apply clip_maxmin, H|].
  split; [intros l ->; apply clip_below|].
  split; [intros u ->; apply clip_above | apply clip_within].
Qed.

(* MIRROR_BOTH: reflected at the violated bound when one reflection lands inside the bounds *)
Theorem C10_mirror_single_lower : forall l ub y,
  y < l -> le_upper ub (2 * l - y) -> apply_bounds_1 bt_mirror (Fin l) ub y = 2 * l - y.
Proof. intros l ub y. apply mirror_single_lower, mirror_repeat_pos. Qed.
Theorem C10_mirror_single_upper : forall lb u y,
  u < y -> ge_lower lb (2 * u - y) -> apply_bounds_1 bt_mirror lb (Fin u) y = 2 * u - y.
Proof. intros lb u y. apply mirror_single_upper, mirror_repeat_pos. Qed.

(* MIRROR_BOTH and TRUNCATE_BOTH (every type code other than NONE): for every value, however far outside,
   and all proper bounds (finite, one-sided or infinite) the result lies within the bounds *)
Theorem C10_mirror_within : forall t lb ub y,
  Z.eqb t bt_none = false -> okb lb ub = true -> inside lb ub (apply_bounds_1 t lb ub y).
Proof. intros t lb ub y. apply within. Qed.

(* MIRROR_BOTH between two finite bounds, completely: a value that starts 2nw + e outside (w = upper - lower,
   0 < e <= 2w) with n below the repeat count of the source (regenerated constant) is moved back by n whole
   periods 2w and reflected at the violated bound -- once if that lands inside (e <= w), and once more at the
   opposite bound otherwise; a value further out than 2 * MIRROR_REPEAT widths ends on the violated bound *)
Theorem C10_mirror_repeated_lower : forall l u y n, l <= u -> (n < mirror_repeat)%nat ->
  2 * nQ n * (u - l) < l - y -> l - y <= 2 * (nQ n + 1) * (u - l) ->
  (l - y - 2 * nQ n * (u - l) <= u - l ->
     apply_bounds_1 bt_mirror (Fin l) (Fin u) y == 2 * l - y - 2 * nQ n * (u - l)) /\
  (u - l < l - y - 2 * nQ n * (u - l) ->
     apply_bounds_1 bt_mirror (Fin l) (Fin u) y == y + 2 * (nQ n + 1) * (u - l)).
Proof. intros l u y n. apply mirror_repeated_lower. Qed.
Theorem C10_mirror_repeated_upper : forall l u y n, l <= u -> (n < mirror_repeat)%nat ->
  2 * nQ n * (u - l) < y - u -> y - u <= 2 * (nQ n + 1) * (u - l) ->
  (y - u - 2 * nQ n * (u - l) <= u - l ->
     apply_bounds_1 bt_mirror (Fin l) (Fin u) y == 2 * u - y + 2 * nQ n * (u - l)) /\
  (u - l < y - u - 2 * nQ n * (u - l) ->
     apply_bounds_1 bt_mirror (Fin l) (Fin u) y == y - 2 * (nQ n + 1) * (u - l)).
Proof. intros l u y n. apply mirror_repeated_upper. Qed.
Theorem C10_mirror_far : forall l u y, l <= u ->
  (2 * nQ mirror_repeat * (u - l) < l - y -> apply_bounds_1 bt_mirror (Fin l) (Fin u) y = l) /\
  (2 * nQ mirror_repeat * (u - l) < y - u -> apply_bounds_1 bt_mirror (Fin l) (Fin u) y = u).
Proof. intros l u y Hlu. split; [apply mirror_far_lower | apply mirror_far_upper]; exact Hlu. Qed.

(* under a VariableScaler (user = optimizer * s + o, s > 0) the stored magnitude is, in the user's units, still the
   configured absolute value or the configured fraction of the user's bound range, and the value before boundary
   handling maps back to x + magnitude * sample *)
Theorem C10_magnitude_scaled : forall p l u s o m, 0 < s ->
  (Z.eqb p pt_relative = true -> efinite l && efinite u = true) ->
  magnitude_1s p (eb_to_opt s o l) (eb_to_opt s o u) s m * s == magnitude_1 p l u m.
Proof. exact magnitude_scaled_user. Qed.
Theorem C10_scaled_pre_value : forall p l u s o m x sv, 0 < s ->
  (Z.eqb p pt_relative = true -> efinite l && efinite u = true) ->
  from_opt1 s o (to_opt1 s o x + magnitude_1s p (eb_to_opt s o l) (eb_to_opt s o u) s m * sv)
  == x + magnitude_1 p l u m * sv.
Proof. exact scaled_pre_value. Qed.

(* the whole of GradientConfig.fix_perturbations as the checker evaluates it ([magnitudes_scaled]; scales 1 and
   offsets 0 when no scaler is configured): an accepted configuration stores for variable i the magnitude that
   C10_magnitude_scaled relates to the user's units, RELATIVE variables then have finite bounds, and the configuration
   is rejected exactly when a RELATIVE variable has an infinite bound *)
Theorem C10_magnitudes_accepted : forall pts lbs ubs ss os ms mags i l u s o,
  magnitudes_scaled pts lbs ubs ss os ms = MagOk mags ->
  length ubs = length lbs -> length ss = length lbs -> length os = length lbs ->
  nth_error lbs i = Some l -> nth_error ubs i = Some u -> nth_error ss i = Some s -> nth_error os i = Some o ->
  exists p m, bnth pts i = Some p /\ bnth ms i = Some m /\
    nth_error mags i = Some (magnitude_1s p (eb_to_opt s o l) (eb_to_opt s o u) s m) /\
    (Z.eqb p pt_relative = true -> efinite l && efinite u = true).
Proof. exact magnitudes_scaled_ok. Qed.
Theorem C10_magnitudes_rejected : forall pts lbs ubs ss os ms, let n := length lbs in
  length pts = n -> length ms = n -> length ubs = n -> length ss = n -> length os = n -> n <> 1%nat ->
  (magnitudes_scaled pts lbs ubs ss os ms = MagInfinite <->
   exists i l u, nth_error pts i = Some pt_relative /\ nth_error lbs i = Some l /\ nth_error ubs i = Some u /\
                 (efinite l && efinite u = false)).
Proof. exact magnitudes_scaled_infinite_iff. Qed.

(* magnitudes: (upper - lower) * fraction for RELATIVE variables, which need finite bounds; the configured
   value otherwise; a RELATIVE variable with an infinite bound rejects the configuration *)
Theorem C10_relative : forall pts lbs ubs ms mags i l u,
  magnitudes_of pts lbs ubs ms = MagOk mags -> length ubs = length lbs ->
  nth_error lbs i = Some l -> nth_error ubs i = Some u ->
  exists p m, bnth pts i = Some p /\ bnth ms i = Some m /\
    nth_error mags i = Some (magnitude_1 p l u m) /\
    (p = pt_relative -> exists lq uq, l = Fin lq /\ u = Fin uq /\ magnitude_1 p l u m = (uq - lq) * m) /\
    (Z.eqb p pt_relative = false -> magnitude_1 p l u m = m).
Proof. exact magnitudes_ok. Qed.
Theorem C10_relative_rejected : forall pts lbs ubs ms,
  length pts = length lbs -> length ms = length lbs -> length ubs = length lbs -> length lbs <> 1%nat ->
  (magnitudes_of pts lbs ubs ms = MagInfinite <->
   exists i l u, nth_error pts i = Some pt_relative /\ nth_error lbs i = Some l /\ nth_error ubs i = Some u /\
                 (efinite l && efinite u = false)).
Proof. exact magnitudes_infinite_iff. Qed.

(* all clauses of the property on the whole array at once *)
Theorem C10_array_laws : forall ts lbs ubs x mags samples r p v t l u xv m sv,
  nth_error ts v = Some t -> nth_error lbs v = Some l -> nth_error ubs v = Some u ->
  nth_error x v = Some xv -> nth_error mags v = Some m -> nth3 samples r p v = Some sv ->
  exists q, nth3 (perturb ts lbs ubs x mags samples) r p v = Some q /\
    (t = bt_none -> q = xv + m * sv) /\
    (inside l u (xv + m * sv) -> q = xv + m * sv) /\
    (Z.eqb t bt_none = false -> okb l u = true -> inside l u q) /\
    (t = bt_truncate -> q = clip l u (xv + m * sv)).
Proof. exact perturb_laws. Qed.

(* non-vacuity: bounds [0,1] and [-inf,1], the three types, a relative magnitude; a small step, a single
   reflection, an overshoot of many widths (repeated mirroring, then the clip fall-back) *)
Example C10_example :
  let ts := [bt_mirror; bt_truncate; bt_none] in
  let lbs := [Fin 0; NInf; Fin 0] in let ubs := [Fin 1; Fin 1; Fin 1] in
  magnitudes_of [pt_relative; pt_absolute; pt_absolute] lbs ubs [Q_ 1 2; 2; 2] = MagOk [(1 - 0) * Q_ 1 2; 2; 2] /\
  okb (Fin 0) (Fin 1) = true /\ okb NInf (Fin 1) = true /\
  forallb2 (forallb2 (list_eqb Qeqb))
    (perturb ts lbs ubs [Q_ 1 4; Q_ 1 2; Q_ 1 2] [Q_ 1 2; 2; 2]
       [[[Q_ 1 2; 1; 1]; [(-1); (-3); (-3)]; [40; 0; 0]; [Q_ 13 2; 0; 0]]])
    [[[Q_ 1 2; 1; Q_ 5 2]; [Q_ 1 4; Q_ (-11) 2; Q_ (-11) 2]; [1; Q_ 1 2; Q_ 1 2]; [Q_ 1 2; Q_ 1 2; Q_ 1 2]]] = true /\
  (* the hypotheses of C10_mirror_repeated_upper at 7/2 on [0,1] (n = 1: one whole period back, one reflection) and
     of C10_mirror_far at 41/4; a scaled relative magnitude *)
  ((1 < mirror_repeat)%nat /\ Qltb (2 * nQ 1 * (1 - 0)) (Q_ 7 2 - 1) = true /\
   Qleb (Q_ 7 2 - 1) (2 * (nQ 1 + 1) * (1 - 0)) = true /\
   Qeqb (apply_bounds_1 bt_mirror (Fin 0) (Fin 1) (Q_ 7 2)) (2 * 1 - Q_ 7 2 + 2 * nQ 1 * (1 - 0)) = true) /\
  (Qltb (2 * nQ mirror_repeat * (1 - 0)) (Q_ 41 4 - 1) = true /\ apply_bounds_1 bt_mirror (Fin 0) (Fin 1) (Q_ 41 4) = 1) /\
  magnitudes_scaled [pt_relative; pt_absolute] [Fin 1; NInf] [Fin 5; Fin 0] [2; 4] [1; 0] [Q_ 1 2; 2]
    = MagOk [((5 - 1) / 2 - (1 - 1) / 2) * Q_ 1 2; 2 / 4].
Proof. vm_compute. repeat split; try reflexivity; lia. Qed.

(* ---- C10 x C11: one boundary-handling model, equivariant under the variable scaler ------------------------------ *)
(* the boundary function of this file and the copy C11 reasons about (T = Model/Transforms.v) return the same
   rational: for every repeat count, every type code ([bt_of]: MIRROR_BOTH -> BMirror, NONE -> BNone, anything else
   -> BTrunc), ALL extended-real bounds -- also improper ones, where the two files evaluate y < +inf / y > -inf
   differently (true here, as numpy; false there, by assumption) -- and every value *)
Theorem C10_one_boundary_model : forall rep t lb ub y,
  apply_bounds_gen rep t lb ub y = T.apply_bounds_1 rep (bt_of t) lb ub y.
Proof. exact apply_bounds_models_agree. Qed.

(* the type encodings: on every code C11 decodes the two readings coincide; a code outside the enumeration has no
   value in C11's model and is clipped (TRUNCATE_BOTH semantics, numpy's np.where(types == NONE, v, clip v)) here;
   and the pointwise comparisons differ exactly at an improper bound *)
Theorem C10_boundary_encodings : forall t,
  (forall bt, T.btype_of_code t = Some bt ->
     bt_of t = bt /\ forall lb ub y, apply_bounds_1 t lb ub y = T.apply_bounds_1 mirror_repeat bt lb ub y) /\
  (T.btype_of_code t = None -> forall rep lb ub y, apply_bounds_gen rep t lb ub y = clip lb ub y) /\
  (forall y lb, lb <> PInf -> below y lb = T.below y lb) /\ (forall y ub, ub <> NInf -> above y ub = T.above y ub) /\
  (forall y, below y PInf = true /\ T.below y PInf = false /\ above y NInf = true /\ T.above y NInf = false).
Proof.
  intros t. split; [intros bt H; split; [apply bt_of_decoded, H | intros; apply apply_bounds_1_models_agree, H]|].
  split; [intros H rep lb ub y; apply apply_bounds_undecoded, H|].
  split; [exact below_agree|]. split; [exact above_agree | exact below_above_differ].
Qed.

(* equivariance: the positive affine change of variable x |-> (x - o) / s applied to the value and to both bounds
   (infinite bounds stay infinite) commutes with the boundary handling -- NONE, TRUNCATE_BOTH, MIRROR_BOTH with
   all its repeated reflections and the clip fall-back, any other code -- one component and whole vectors *)
Theorem C10_bounds_equivariant : forall s o t lb ub y, 0 < s ->
  apply_bounds_1 t (eb_to_opt s o lb) (eb_to_opt s o ub) (to_opt1 s o y) == to_opt1 s o (apply_bounds_1 t lb ub y).
Proof. exact apply_bounds_1_equivariant. Qed.
Theorem C10_bounds_equivariant_vector : forall ts lbs ubs ss os ys, Forall (fun s => 0 < s) ss ->
  Forall2 Qeq (apply_bounds ts (bounds_to_opt ss os lbs) (bounds_to_opt ss os ubs) (vec_to_opt ss os ys))
              (vec_to_opt ss os (apply_bounds ts lbs ubs ys)).
Proof. exact apply_bounds_vec_equivariant. Qed.

(* the perturbed component computed in optimizer units -- point (x - o) / s, the stored magnitude of
   C10_magnitude_scaled (m / s for ABSOLUTE, fraction of the transformed range for RELATIVE), transformed bounds --
   mapped back with from_optimizer is the component perturbed in the user's units with the user's magnitude:
   C10_scaled_pre_value carried through the boundary handling *)
Theorem C10_perturbed_component_user_units : forall p t l u s o m x sv, 0 < s ->
  (Z.eqb p pt_relative = true -> efinite l && efinite u = true) ->
  from_opt1 s o (apply_bounds_1 t (eb_to_opt s o l) (eb_to_opt s o u)
                   (to_opt1 s o x + magnitude_1s p (eb_to_opt s o l) (eb_to_opt s o u) s m * sv))
  == apply_bounds_1 t l u (x + magnitude_1 p l u m * sv).
Proof. exact perturbed_component_user_units. Qed.
(* ... and on the whole (R, P, V) array: entry by entry the array perturbed in the optimizer domain maps back to
   the array perturbed in the user domain *)
Theorem C10_perturbed_array_user_units : forall ts lbs ubs ss os x pts ms samples r p v t l u s o xv pt m sv,
  nth_error ts v = Some t -> nth_error lbs v = Some l -> nth_error ubs v = Some u ->
  nth_error ss v = Some s -> nth_error os v = Some o -> nth_error x v = Some xv ->
  nth_error pts v = Some pt -> nth_error ms v = Some m -> nth3 samples r p v = Some sv ->
  0 < s -> (Z.eqb pt pt_relative = true -> efinite l && efinite u = true) ->
  exists q q',
    nth3 (perturb ts (bounds_to_opt ss os lbs) (bounds_to_opt ss os ubs) (vec_to_opt ss os x)
            (magnitudes_vec_s pts (bounds_to_opt ss os lbs) (bounds_to_opt ss os ubs) ss ms) samples) r p v = Some q /\
    nth3 (perturb ts lbs ubs x (magnitudes_vec pts lbs ubs ms) samples) r p v = Some q' /\
    from_opt1 s o q == q'.
Proof. exact perturb_scaled_user. Qed.

(* non-vacuity of the scaling section: scale 2, offset 1, user bounds [1, 5] and (-inf, 5], MIRROR_BOTH: the relative
   magnitude 1/2 (2 in user units) with sample 15/4 takes 3 to 21/2, more than one width above the upper bound, which
   is reflected at 5 (-> -1/2) and again at 1 (-> 5/2); the optimizer-domain computation (point 1, bounds [0, 2],
   stored magnitude 1) gives 3/4, which maps back to 5/2; on the half-open interval the same overshoot (absolute
   magnitude 4, stored 4 / s) is reflected once; the undecodable code 7 is clipped; at the improper lower bound +inf
   the two models still return the same value *)
Example C10_scaling_example :
  let s := 2 in let o := 1 in
  (0 < s) /\
  Qeqb (magnitude_1s pt_relative (eb_to_opt s o (Fin 1)) (eb_to_opt s o (Fin 5)) s (Q_ 1 2) * s)
       (magnitude_1 pt_relative (Fin 1) (Fin 5) (Q_ 1 2)) = true /\
  Qeqb (apply_bounds_1 bt_mirror (Fin 1) (Fin 5) (3 + magnitude_1 pt_relative (Fin 1) (Fin 5) (Q_ 1 2) * Q_ 15 4)) (Q_ 5 2) = true /\
  Qeqb (from_opt1 s o (apply_bounds_1 bt_mirror (eb_to_opt s o (Fin 1)) (eb_to_opt s o (Fin 5))
          (to_opt1 s o 3 + magnitude_1s pt_relative (eb_to_opt s o (Fin 1)) (eb_to_opt s o (Fin 5)) s (Q_ 1 2) * Q_ 15 4)))
       (Q_ 5 2) = true /\
  Qeqb (from_opt1 s o (apply_bounds_1 bt_mirror (eb_to_opt s o NInf) (eb_to_opt s o (Fin 5)) (to_opt1 s o 3 + (4 / s) * Q_ 15 4)))
       (apply_bounds_1 bt_mirror NInf (Fin 5) (3 + 4 * Q_ 15 4)) = true /\
  T.btype_of_code bt_mirror = Some T.BMirror /\ T.btype_of_code 7%Z = None /\
  apply_bounds_1 7%Z (Fin 1) (Fin 5) 9 = 5 /\
  apply_bounds_1 bt_mirror PInf (Fin 5) 9 = T.apply_bounds_1 mirror_repeat T.BMirror PInf (Fin 5) 9.
Proof. vm_compute. repeat split; reflexivity. Qed.

Print Assumptions C10_formula.
Print Assumptions C10_samples_added.
Print Assumptions C10_shape.
Print Assumptions C10_inside_unaltered.
Print Assumptions C10_none_identity.
Print Assumptions C10_truncate.
Print Assumptions C10_mirror_single_lower.
Print Assumptions C10_mirror_single_upper.
Print Assumptions C10_mirror_within.
Print Assumptions C10_mirror_repeated_lower.
Print Assumptions C10_mirror_repeated_upper.
Print Assumptions C10_mirror_far.
Print Assumptions C10_magnitude_scaled.
Print Assumptions C10_scaled_pre_value.
Print Assumptions C10_magnitudes_accepted.
Print Assumptions C10_magnitudes_rejected.
Print Assumptions C10_relative.
Print Assumptions C10_relative_rejected.
Print Assumptions C10_array_laws.
Print Assumptions C10_one_boundary_model.
Print Assumptions C10_boundary_encodings.
Print Assumptions C10_bounds_equivariant.
Print Assumptions C10_bounds_equivariant_vector.
Print Assumptions C10_perturbed_component_user_units.
Print Assumptions C10_perturbed_array_user_units.
