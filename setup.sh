#!/bin/sh
# Build the Coq project from the files on disk (offline).  Run once after a fresh restore.
set -e
cd "$(dirname "$0")"
/venv/bin/python - <<'PY'
import sys
sys.path.insert(0, "harness")
import translator, build
print(translator.run())
build.ensure_project()
rc, log = build.make(None)
print(log[-3000:])
sys.exit(rc)
PY
