#!/bin/sh
# Build the Coq project from the files on disk (offline).  Run once after a fresh restore.
# Every check rebuilds its own targets on demand, so a file that fails to build here only
# affects the checks that depend on it (they then report the broken obligation themselves).
cd "$(dirname "$0")"
/venv/bin/python - <<'PY'
import sys
sys.path.insert(0, "harness")
import translator, build, importlib, pathlib
extra = []
for f in sorted(pathlib.Path("harness/props").glob("C*.py")):
    try:
        m = importlib.import_module("props." + f.stem)
        if hasattr(m, "translate"):
            extra.append(m.translate)
    except Exception as e:
        print("warning: cannot import", f, e)
try:
    print(translator.run())
    for tr in extra:
        print(translator.run(tr))
except Exception as e:
    print("translator failed:", e)
build.ensure_project()
rc, log = build.make(["-k"])
print(log[-3000:])
print("setup: make exit code", rc)
PY
exit 0
