"""C03 -- failed realizations and perturbations are excluded exactly as if absent.

One case = one ensemble of R realizations x (unperturbed + P perturbations) whose evaluator output is a table
chosen by the generator, with NaN injected per (realization, slot) and per column.  Perturbations come from
an injected deterministic sampler plug-in (registered through PluginManager.add_plugin).  The real code runs
  * on the full ensemble (EnsembleEvaluator.calculate, functions + gradients jointly, or a function request followed by
    a gradient-only request on the same object; per-realization or merged estimation),
  * on the ensemble with the failed realizations physically removed (functions),
  * on the ensemble with the gradient-failed realizations and failed perturbations physically removed
    (when the survivors keep equally many perturbations; otherwise one run per surviving realization),
  * on the 'twin' ensemble (everything that belongs to a failed realization / perturbation replaced by other numbers),
  * through an optimizer step (scripted optimizer plug-in: exactly one evaluation) and an evaluator step (exit codes and
    the results delivered with FINISHED_EVALUATION).
Coq (Chk_C03.check_case) compares flags, thresholds, gates and exit codes exactly with Model/Ensemble.v, and
the values of the full run with those of the reduced runs with tolerance.
"""
from __future__ import annotations

import itertools
import math
import random

import coqio as cq
from props import C01 as F

ID = "C03"
THEOREM_FILE = "Props/C03.v"
CHK_MODULE = "Check.Chk_C03"
CASE_TYPE = "Chk_C03.case"
CHECK_FN = "Chk_C03.check_case"
HEADER = "From Ropt Require Import Model.Ensemble Gen.Generated Check.Chk_C01."
SHARD_SIZE = 400
PARALLEL = True
EXHAUSTIVE = {"quick": True, "thorough": True}
RULE = ("exhaustive: every subset of failing (realization, unperturbed | perturbation k) evaluations for R x P in {1,2}x{1,2} "
        "(quick) and up to 3x3 (thorough; 4096 masks for 3x3), times every realization_min_success in 0..R and "
        "perturbation_min_success in 1..P; for R,P <= 2 additionally times {no filter, sort-objective, cvar-objective} x "
        "{mean, stddev} x {NaN in the first objective, NaN in another objective/constraint column} (for the larger shapes "
        "these three choices rotate with the case index); plus sampled ensembles with R <= 8, P <= 6, 1..3 variables, "
        "unset / too large thresholds, mixed estimator maps, random NaN columns and weights with zeros, and a stream in which "
        "every realization with positive configured weight fails (only a cvar filter then leaves weight in force).  Merged "
        "estimation (gradient.merge_realizations, mean estimators): exhaustive over every failure subset x both thresholds for 2x1 and "
        "2x2 (thorough: also 3x2, 2x3) plus a sampled stream with mostly balanced failure patterns (whole realizations fail, every "
        "survivor loses equally many perturbations) for which the physically reduced ensemble exists.  The evaluation is issued "
        "jointly or as a function request followed by a gradient-only request on the same EnsembleEvaluator (cached function "
        "results; in between the harness tries to overwrite the NaN markers, flags and weights of the returned function results in "
        "place, which the read-only arrays must refuse).  Merged and sampled cases with a failure are also run as a 'twin' in which every value and perturbation sample "
        "belonging to a failed realization or failed perturbation is replaced by another number.  Every case also "
        "runs an optimizer step (scripted optimizer, allow_nan on/off, joint or split function/gradient request) and an "
        "evaluator step, whose exit codes and delivered results (FINISHED_EVALUATION) are observed.  "
        "Non-trivial = at least one failed evaluation; distinct = distinct canonical case.")
ASSUMPTIONS = [
    "the evaluator output is a table indexed by the (realization, perturbation) labels of the request (label correctness is C06)",
    "perturbations are injected through a sampler plug-in with magnitude 1 and no bounds, so perturbed = x + sample exactly",
    "the least-squares solver is a black box that is run on bit-identical systems in the full and in the reduced runs",
    "with a realization filter either every function of the case is mapped to it (the reduced gradient run then uses the reported weight row restricted to the survivors as configured weights, DESIGN C03 Reading) or the maps are mixed (-1 next to 0: unfiltered functions keep the configured weights); for mixed maps the gradient reference is the per-realization run of every realization combined by the model with the row in force of each function, the function reference is the physically reduced run with the same maps",
    "merged estimation is judged differentially only (full vs. physically reduced ensemble, full vs. twin), which is independent of known finding C02:merged-gradient-scaled (both runs weight the rows alike); in the 0/0 region (no realization that succeeds for the gradient carries weight in force, outside the quantifier) gradient values are not compared, but flags, gates, exit codes and the absence of an escaping exception are (the empty stacked system of the merged estimate raised ValueError before fix 294d53c, F14f)",
    "when all survivors have configured weight zero but a cvar filter gives them weight in force, the physically reduced function run is configured with uniform weights (an all-zero weight vector is rejected by the configuration; CVaR weights do not depend on the configured weights)",
]
TRUSTED = [
    "NumPy/LAPACK float arithmetic is deterministic for identical inputs; values are compared with the tolerance of DESIGN 2.2 with S = largest input/gradient magnitude",
]

TOO_FEW, OPT_DONE, EVAL_DONE = 1, 5, 6


# ---------------------------------------------------------------------------------------------------
# generators
POOL = {1: [[1.0], [-0.5], [2.0], [-1.0], [0.5], [1.5]],
        2: [[1.0, 0.0], [0.0, 1.0], [1.0, 1.0], [-1.0, 0.5], [0.5, -1.0], [2.0, 1.0]],
        3: [[1.0, 0.0, 0.0], [0.0, 1.0, 0.0], [0.0, 0.0, 1.0], [1.0, 1.0, 1.0], [-1.0, 0.5, 0.0], [0.5, 0.0, -1.0]]}
WEIGHTS = {1: [[1.0]], 2: [[1.0, 1.0], [0.75, 0.25], [1.0, 0.0]],
           3: [[1.0, 1.0, 1.0], [0.5, 0.25, 0.25], [0.5, 0.0, 0.5], [0.25, 0.5, 0.25]]}


def _base_table(rng, R, P, no, nc):
    """distinct dyadic values; objective 0 distinct over realizations (no ties for the filters)"""
    used = set()

    def val():
        while True:
            v = rng.randint(-512, 512) / 64
            if v not in used:
                used.add(v)
                return v
    return [{"u": [[val() for _ in range(no)], [val() for _ in range(nc)]],
             "p": [[[val() for _ in range(no)], [val() for _ in range(nc)]] for _ in range(P)]} for _ in range(R)]


def _inject(table, mask, P, cols):
    """mask: per realization (1+P) booleans; cols: function (slot index) -> list of column indices to set NaN"""
    out = []
    for r, ent in enumerate(table):
        rows = [ent["u"]] + ent["p"]
        new = []
        for s, (o, c) in enumerate(rows):
            o, c = list(o), list(c)
            if mask[r * (1 + P) + s]:
                for j in cols(r, s):
                    if j < len(o):
                        o[j] = math.nan
                    else:
                        c[j - len(o)] = math.nan
            new.append([o, c])
        out.append({"u": new[0], "p": new[1:]})
    return out


def _filter(kind, R, idx):
    if kind == "sort":
        first = idx % R
        return {"method": "sort-objective", "options": {"sort": [0], "first": first, "last": max(first, (idx // 2) % R)}}
    if kind == "cvar":
        return {"method": "cvar-objective", "options": {"sort": [0], "percentile": [0.5, 0.75, 1.0, 0.25][idx % 4]}}
    return None


def _exhaustive(tier):
    shapes = [(1, 1), (1, 2), (2, 1), (2, 2)]
    if tier == "thorough":
        shapes += [(3, 1), (1, 3), (2, 3), (3, 2), (3, 3)]
    idx = 0
    for R, P in shapes:
        small = R <= 2 and P <= 2
        rng = random.Random(1000 * R + P)
        tables = {(no, nc): _base_table(rng, R, P, no, nc) for no, nc in ((1, 1), (2, 0))}
        for mask in itertools.product([False, True], repeat=R * (1 + P)):
            for rmin in range(R + 1):
                for pmin in range(1, P + 1):
                    combos = (list(itertools.product(("none", "sort", "cvar"), ("mean", "stddev"), ("first", "other")))
                              if small else [(("none", "sort", "cvar")[idx % 3], ("mean", "stddev")[(idx // 3) % 2],
                                              ("first", "other")[(idx // 6) % 2])])
                    for filt, est, col in combos:
                        idx += 1
                        no, nc = ((1, 1), (2, 0))[idx % 2]
                        V = 1 + (idx // 2) % 2
                        col_idx = 0 if col == "first" else 1
                        table = _inject(tables[(no, nc)], mask, P, lambda r, s, ci=col_idx: [ci])
                        pool = POOL[V]
                        yield {
                            "stream": "exhaustive", "R": R, "P": P, "V": V, "no": no, "nc": nc,
                            "w": WEIGHTS[R][idx % len(WEIGHTS[R])], "ow": [1.0] if no == 1 else [0.25, 0.75],
                            "lb": [-math.inf] * nc, "ub": [1.0] * nc,
                            "ests": [est], "oem": None, "cem": None,
                            "filter": _filter(filt, R, idx), "rmin": rmin, "pmin": pmin,
                            "x": [0.5, -0.25, 1.0][:V],
                            "samples": [[pool[(p + 2 * r + idx) % len(pool)] for p in range(P)] for r in range(R)],
                            "table": table, "allow_nan": bool((idx // 5) % 2), "split": bool((idx // 7) % 2),
                            "nan_col": col, "merge": False,
                            # every third case with a filter: mixed maps (an unfiltered function next to a filtered one)
                            "fmap": _mixed_map(idx, no, nc) if filt != "none" and idx % 3 == 1 else None,
                        }


def _exhaustive_merged(tier):
    """merge_realizations = True (mean estimator only: the stddev estimator rejects merging): every failure subset
    x both thresholds for 2x1 and 2x2 (thorough: also 3x2 and 2x3); filter, NaN column, weights and request mode
    rotate with the case index."""
    shapes = [(2, 1), (2, 2)]
    if tier == "thorough":
        shapes += [(3, 2), (2, 3)]
    idx = 0
    for R, P in shapes:
        rng = random.Random(7000 + 1000 * R + P)
        tables = {(no, nc): _base_table(rng, R, P, no, nc) for no, nc in ((1, 1), (2, 0))}
        for mask in itertools.product([False, True], repeat=R * (1 + P)):
            for rmin in range(R + 1):
                for pmin in range(1, P + 1):
                    idx += 1
                    no, nc = ((1, 1), (2, 0))[idx % 2]
                    V = 1 + (idx // 2) % 3
                    col_idx = (idx // 3) % 2
                    pool = POOL[V]
                    yield {
                        "stream": "exhaustive-merged", "R": R, "P": P, "V": V, "no": no, "nc": nc,
                        "w": WEIGHTS[R][idx % len(WEIGHTS[R])], "ow": [1.0] if no == 1 else [0.25, 0.75],
                        "lb": [-math.inf] * nc, "ub": [1.0] * nc,
                        "ests": [["mean"], ["mean", "mean"]][(idx // 5) % 2],
                        "oem": None if (idx // 5) % 2 == 0 else [1] * no, "cem": None,
                        "filter": _filter(("none", "sort", "cvar")[(idx // 2) % 3], R, idx), "rmin": rmin, "pmin": pmin,
                        "x": [0.5, -0.25, 1.0][:V],
                        "samples": [[pool[(p + 2 * r + idx) % len(pool)] for p in range(P)] for r in range(R)],
                        "table": _inject(tables[(no, nc)], mask, P, lambda r, s, ci=col_idx: [ci]),
                        "allow_nan": bool((idx // 5) % 2), "split": bool((idx // 3) % 2),
                        "nan_col": ("first", "other")[col_idx], "merge": True,
                    }


def _dy(rng, lo, hi, den=16):
    return rng.randint(lo * den, hi * den) / den


def gen_sampled(rng):
    R = rng.choice([1, 2, 3, 3, 4, 4, 5, 6, 8])
    P = rng.randint(1, 6)
    V = rng.randint(1, 3)
    no, nc = rng.randint(1, 2), rng.randint(0, 2)
    table = _base_table(rng, R, P, no, nc)
    dens = rng.choice([0.0, 0.1, 0.2, 0.4])
    mask = [rng.random() < dens for _ in range(R * (1 + P))]
    ncols = no + nc
    table = _inject(table, mask, P, lambda r, s: rng.sample(range(ncols), rng.choice([1, 1, min(2, ncols)])))
    ests = rng.choice(F.EST_SETS)
    filt = rng.choice(["none", "none", "sort", "cvar"])
    w = F._weights(rng, R)
    pool = POOL[V]
    samples = []
    for r in range(R):
        if rng.random() < 0.5:
            rows = [list(pool[(p + r) % len(pool)]) for p in range(P)]
        else:
            rows = [[rng.choice([-2.0, -1.0, -0.5, 0.5, 1.0, 2.0, 0.0]) for _ in range(V)] for _ in range(P)]
            rows = [row if any(row) else list(pool[0]) for row in rows]
        samples.append(rows)
    return {
        "stream": "sampled", "R": R, "P": P, "V": V, "no": no, "nc": nc,
        "w": w, "ow": F._weights(rng, no),
        "lb": [-math.inf] * nc, "ub": [1.0] * nc,
        "ests": ests,
        "oem": F._emap(rng, no, len(ests)),
        "cem": F._emap(rng, nc, len(ests)) if nc else None,
        "filter": _filter(filt, R, rng.randrange(64)),
        "rmin": rng.choice([None, 0, 1, R + 2] + list(range(R + 1))),
        "pmin": rng.choice([None, 1, P + 3] + list(range(1, P + 1))),
        "x": [_dy(rng, -1, 1, 4) for _ in range(V)],
        "samples": samples, "table": table,
        "allow_nan": rng.random() < 0.5, "split": rng.random() < 0.4, "nan_col": "random", "merge": False,
        "fmap": _mixed_map(rng.randrange(64), no, nc) if filt != "none" and rng.random() < 0.5 else None,
    }


def gen_merged(rng):
    """merge_realizations = True: one stacked least-squares system over all (realization, perturbation) rows.  Mostly
    'balanced' failure patterns (whole realizations fail -- NaN unperturbed value or too few perturbations --, and every
    survivor loses the same number of perturbations at positions of its own), for which the physically reduced ensemble
    exists; otherwise random masks, judged against the twin run (see run_impl)."""
    case = gen_sampled(rng)
    R, P, no, nc = case["R"], case["P"], case["no"], case["nc"]
    case["ests"] = rng.choice([["mean"], ["mean"], ["mean", "mean"], ["default"]])
    case["oem"] = F._emap(rng, no, len(case["ests"]))
    case["cem"] = F._emap(rng, nc, len(case["ests"])) if nc else None
    case["merge"] = True
    case["fmap"] = None
    case["stream"] = "merged"
    if R > 1 and rng.random() < 0.7:
        ncols = no + nc
        table = _base_table(rng, R, P, no, nc)
        k = rng.randint(0, max(0, P - 1)) if rng.random() < 0.6 else 0       # perturbations lost by every survivor
        pmin = rng.randint(1, P - k)
        fail = set(rng.sample(range(R), rng.randint(1, R - 1)))
        mask = [False] * (R * (1 + P))
        for r in range(R):
            if r in fail and (P - k < pmin or rng.random() < 0.5):
                mask[r * (1 + P)] = True                                          # the unperturbed evaluation fails
                lost = rng.sample(range(P), rng.randint(0, P))
            elif r in fail:
                lost = rng.sample(range(P), rng.randint(P - pmin + 1, P))         # too few perturbations succeed
            else:
                lost = rng.sample(range(P), k)
            for p in lost:
                mask[r * (1 + P) + 1 + p] = True
        case["table"] = _inject(table, mask, P, lambda r, s: rng.sample(range(ncols), rng.choice([1, 1, min(2, ncols)])))
        case["pmin"] = pmin
        case["rmin"] = rng.choice([0, 1, 1, R - len(fail)])
        if rng.random() < 0.3:
            w = list(case["w"])
            for r in fail:                 # also: the failed realizations are the ones with the large weights
                w[r] = max(w) + 1.0
            case["w"] = w
    return case


def gen_zero_weight_survivors(rng):
    """every realization with positive configured weight fails: without a filter (and with a sort filter, whose
    weights are the configured ones) nothing carries weight; a cvar filter still gives the survivors weight in force"""
    case = gen_sampled(rng)
    R, no = case["R"], case["no"]
    if R == 1:
        return case
    pos = rng.sample(range(R), rng.randint(1, max(1, R // 2)))
    case["w"] = [rng.randint(1, 16) / 16 if r in pos else 0.0 for r in range(R)]
    case["filter"] = _filter(rng.choice(["cvar", "cvar", "sort", "none"]), R, rng.randrange(64))
    if case["filter"] is None or rng.random() < 0.6:
        case["fmap"] = None
    elif case["fmap"] is None:
        case["fmap"] = _mixed_map(rng.randrange(64), no, case["nc"])
    table = [{"u": [list(e["u"][0]), list(e["u"][1])], "p": e["p"]} for e in case["table"]]
    for r in pos:
        table[r]["u"][0][rng.randrange(no)] = math.nan
    case["table"] = table
    case["stream"] = "zero-weight-survivors"
    case["rmin"] = rng.choice([None, 0, 0, 1, 1, R - len(pos)])
    return case


def gen_cases(tier, rng):
    yield from _exhaustive(tier)
    yield from _exhaustive_merged(tier)
    for _ in range(500 if tier == "quick" else 12000):
        yield gen_sampled(rng)
    for _ in range(60 if tier == "quick" else 1500):
        yield gen_zero_weight_survivors(rng)
    for _ in range(250 if tier == "quick" else 6000):
        yield gen_merged(rng)


# ---------------------------------------------------------------------------------------------------
# driver
_PLUGINS = {}


def _plugin_manager():
    """Fresh PluginManager with the injected sampler and the scripted optimizer registered."""
    from ropt.plugins import PluginManager
    if not _PLUGINS:
        import numpy as np
        from ropt.plugins.optimizer.base import Optimizer, OptimizerPlugin
        from ropt.plugins.sampler.base import Sampler, SamplerPlugin

        class InjectSampler(Sampler):
            def __init__(self, config, index, mask, rng):
                self._samples = np.array(config.samplers[index].options["samples"], dtype=np.float64)

            def generate_samples(self):
                return self._samples.copy()

        class InjectSamplerPlugin(SamplerPlugin):
            def create(self, config, index, mask, rng):
                return InjectSampler(config, index, mask, rng)

            def is_supported(self, method):
                return method.lower() == "inject"

        class ScriptOptimizer(Optimizer):
            def __init__(self, config, callback):
                self._cb = callback
                opts = config.optimizer.options or {}
                self._allow = bool(opts.get("allow_nan"))
                self._split = bool(opts.get("split"))

            def start(self, initial_values):
                if self._split:
                    self._cb(initial_values, return_functions=True, return_gradients=False)
                    self._cb(initial_values, return_functions=False, return_gradients=True)
                else:
                    self._cb(initial_values, return_functions=True, return_gradients=True)

            @property
            def allow_nan(self):
                return self._allow

            @property
            def is_parallel(self):
                return False

        class ScriptOptimizerPlugin(OptimizerPlugin):
            def create(self, config, callback):
                return ScriptOptimizer(config, callback)

            def is_supported(self, method):
                return method.lower() == "script"

        _PLUGINS["sampler"] = InjectSamplerPlugin
        _PLUGINS["optimizer"] = ScriptOptimizerPlugin
    pm = PluginManager()
    pm.add_plugin("sampler", "verif", _PLUGINS["sampler"]())
    pm.add_plugin("optimizer", "verif", _PLUGINS["optimizer"]())
    return pm


def _maps(case):
    """(objectives.realization_filters, nonlinear_constraints.realization_filters) of a case with a filter: every function
    mapped to filter 0 unless the case carries mixed maps ('fmap': entries -1 = no filter, next to 0)"""
    fm = case.get("fmap")
    ofm = [0] * case["no"] if not fm else list(fm[0])
    cfm = ([0] * case["nc"] if not fm else list(fm[1])) if case["nc"] else None
    return ofm, cfm


def _mixed(case):
    return case["filter"] is not None and bool(case.get("fmap"))


def _mixed_map(idx, no, nc):
    """a map with at least one unfiltered (-1) function next to a filtered one, rotating with idx"""
    n = no + nc
    if n < 2:
        return None
    flat = [0 if (j + idx) % 2 == 0 else -1 for j in range(n)]
    if idx % 3 == 0 and n > 2:
        flat[(idx // 3) % n] = -1 if flat[(idx // 3) % n] == 0 else 0
    if 0 not in flat:
        flat[0] = 0
    if -1 not in flat:
        flat[-1] = -1
    return [flat[:no], flat[no:]]


def _config(case, *, w, samples, rmin, pmin, filt, x=None):
    P = len(samples[0])
    cfg = {
        "variables": {"initial_values": case["x"] if x is None else x},
        "realizations": {"weights": w},
        "objectives": {"weights": case["ow"]},
        "function_estimators": [{"method": m} for m in case["ests"]],
        "gradient": {"number_of_perturbations": P, "perturbation_magnitudes": 1.0,
                     "merge_realizations": bool(case.get("merge", False))},
        "samplers": [{"method": "verif/inject", "options": {"samples": samples}}],
        "optimizer": {"method": "verif/script", "options": {"allow_nan": case["allow_nan"], "split": case["split"]}},
    }
    if rmin is not None:
        cfg["realizations"]["realization_min_success"] = rmin
    if pmin is not None:
        cfg["gradient"]["perturbation_min_success"] = pmin
    if case["oem"] is not None:
        cfg["objectives"]["function_estimators"] = case["oem"]
    if filt is not None:
        cfg["realization_filters"] = [filt]
        cfg["objectives"]["realization_filters"] = _maps(case)[0]
    if case["nc"]:
        nl = {"lower_bounds": case["lb"], "upper_bounds": case["ub"]}
        if case["cem"] is not None:
            nl["function_estimators"] = case["cem"]
        if filt is not None:
            nl["realization_filters"] = _maps(case)[1]
        cfg["nonlinear_constraints"] = nl
    return cfg


def _evaluator(case, rmap, pmaps, table=None):
    """table-driven evaluator; rmap: run realization -> table realization, pmaps[i]: run perturbation -> table one"""
    import numpy as np
    from ropt.evaluator import EvaluatorResult
    no, nc = case["no"], case["nc"]
    table = case["table"] if table is None else table

    def evaluator(variables, ctx):
        n = variables.shape[0]
        objs = np.empty((n, no))
        cons = np.empty((n, nc)) if nc else None
        for i in range(n):
            ri = int(ctx.realizations[i])
            p = -1 if ctx.perturbations is None else int(ctx.perturbations[i])
            ent = table[rmap[ri]]
            row = ent["u"] if p < 0 else ent["p"][pmaps[ri][p]]
            objs[i] = row[0]
            if nc:
                cons[i] = row[1]
        return EvaluatorResult(objectives=objs, constraints=cons)
    return evaluator


def _grads_obs(g):
    return {"objs": g.objectives.tolist(),
            "cons": [] if g.constraints is None else g.constraints.tolist(),
            "w": g.weighted_objective.tolist()}


def _has_nan(row):
    return any(math.isnan(v) for v in row[0] + row[1])


def _g_obs(g):
    gr = g.realizations
    return {"failed": [bool(v) for v in gr.failed_realizations],
            "ow": None if gr.objective_weights is None else gr.objective_weights.tolist(),
            "cw": None if gr.constraint_weights is None else gr.constraint_weights.tolist(),
            "grads": None if g.gradients is None else _grads_obs(g.gradients)}


def _scribble(f):
    """what a careless caller (a reporting observer, say) might do with the function results it was handed: replace the
    NaN markers by numbers and clear the flags, in place.  The arrays of the results are read-only, so on the unchanged
    tree every write is refused and nothing changes."""
    import numpy as np
    for a in (f.evaluations.objectives, f.evaluations.constraints, f.realizations.objective_weights,
              f.realizations.constraint_weights, f.realizations.failed_realizations):
        if a is None:
            continue
        try:
            if a.dtype == np.bool_:
                a[...] = False
            else:
                np.nan_to_num(a, copy=False, nan=0.5)
                a *= 2.0
        except (ValueError, TypeError):
            pass


def _calculate(ee, x, split, scribble=False):
    """one evaluation of functions and gradients: jointly, or as a function request followed by a gradient-only
    request at the same point on the same object (the path that re-uses the cached function results)"""
    if split:
        (f,) = ee.calculate(x, compute_functions=True, compute_gradients=False)
        if scribble:
            _scribble(f)
        (g,) = ee.calculate(x, compute_functions=False, compute_gradients=True)
        return f, g
    return ee.calculate(x, compute_functions=True, compute_gradients=True)


def _twin(case, failed_fn, failed_g):
    """The same ensemble with everything that must be inert replaced by other finite numbers: all non-NaN values and all
    perturbation samples of realizations that fail for the functions, the perturbation values and samples of
    realizations that fail only for the gradient, and the non-NaN values and the samples of failed perturbations of the
    survivors.  The NaN pattern is unchanged."""
    def other(row):
        return [[v if math.isnan(v) else 2.5 - 0.5 * v for v in row[0]], [v if math.isnan(v) else 2.5 - 0.5 * v for v in row[1]]]

    table, samples = [], []
    for r, ent in enumerate(case["table"]):
        u = other(ent["u"]) if failed_fn[r] else ent["u"]
        ps, ss = [], []
        for p, row in enumerate(ent["p"]):
            smp = case["samples"][r][p]
            if failed_g[r] or _has_nan(row):
                ps.append(other(row))
                ss.append([1.0 - 0.5 * a for a in smp])
            else:
                ps.append(row)
                ss.append(smp)
        table.append({"u": u, "p": ps})
        samples.append(ss)
    return table, samples


def _same(a, b):
    """structural equality with NaN == NaN"""
    if isinstance(a, float) and isinstance(b, float):
        return (math.isnan(a) and math.isnan(b)) or a == b
    if isinstance(a, dict) and isinstance(b, dict):
        return a.keys() == b.keys() and all(_same(a[k], b[k]) for k in a)
    if isinstance(a, list) and isinstance(b, list):
        return len(a) == len(b) and all(_same(u, v) for u, v in zip(a, b))
    return a == b


def run_impl(case):
    import warnings

    import numpy as np
    from ropt.config.enopt import EnOptConfig
    from ropt.ensemble_evaluator import EnsembleEvaluator
    from ropt.exceptions import OptimizationAborted
    from ropt.plan import OptimizerContext, Plan

    warnings.simplefilter("ignore")
    R, P, nc, no = case["R"], case["P"], case["nc"], case["no"]
    table = case["table"]
    pm = _plugin_manager()
    ident = list(range(R))
    pident = [list(range(P)) for _ in range(R)]
    full_cfg = _config(case, w=case["w"], samples=case["samples"], rmin=case["rmin"], pmin=case["pmin"], filt=case["filter"])
    config = EnOptConfig.model_validate(full_cfg)
    rmin_cfg = int(config.realizations.realization_min_success)
    pmin_cfg = int(config.gradient.perturbation_min_success)
    obs = {"cfg": {"w": config.realizations.weights.tolist(), "ow": config.objectives.weights.tolist(),
                   "rmin": rmin_cfg, "pmin": pmin_cfg}}
    x = np.array(case["x"], dtype=np.float64)

    # ---- full run
    ee = EnsembleEvaluator(config, None, _evaluator(case, ident, pident), pm)
    full_ow = None
    split, merge = bool(case.get("split")), bool(case.get("merge"))
    try:
        f, g = _calculate(ee, x, split, scribble=True)
        obs["outcome"] = "results"
        obs["f"] = F._result_obs(f, nc)
        obs["g"] = _g_obs(g)
        full_ow = obs["f"]["ow"]
    except OptimizationAborted as e:
        obs["outcome"] = "abort"
        obs["code"] = int(e.exit_code.value)
    except Exception as e:  # noqa: BLE001
        obs["outcome"] = "raise"
        obs["exc"] = type(e).__name__

    # ---- weight vector of the filter (real plug-in on the NaN-propagated unperturbed rows)
    prop = F._propagate([ent["u"] for ent in table])
    fouts = []
    if case["filter"] is not None:
        o = np.array([row[0] for row in prop], dtype=np.float64).reshape(R, no)
        c = np.array([row[1] for row in prop], dtype=np.float64).reshape(R, nc) if nc else None
        flt = pm.get_plugin("realization_filter", method=case["filter"]["method"]).create(config, 0)
        try:
            fouts.append(["w", flt.get_realization_weights(o, c).tolist()])
        except OptimizationAborted:
            fouts.append(["abort"])
    obs["fouts"] = fouts

    # ---- functions on the ensemble with the failed realizations removed
    failed_fn = [_has_nan(ent["u"]) for ent in table]
    keep = [r for r in range(R) if not failed_fn[r]]
    obs["red_f"] = None
    wkeep = [case["w"][r] for r in keep]
    if keep and sum(wkeep) == 0 and case["filter"] is not None and case["filter"]["method"].startswith("cvar") and not _mixed(case):
        # The weights in force are the CVaR filter's, which do not depend on the configured realization weights
        # (every function of the case is mapped to the filter).  A configuration cannot hold the all-zero weight
        # vector of the survivors, so the reduced ensemble is configured with uniform weights instead.
        wkeep = [1.0] * len(keep)
    if keep and sum(wkeep) > 0:
        filt = case["filter"]
        ok = True
        if filt is not None and "first" in filt["options"]:
            o = dict(filt["options"])
            if o["first"] > len(keep) - 1:
                ok = False
            o["last"] = min(o["last"], len(keep) - 1)
            filt = {"method": filt["method"], "options": o}
        if ok:
            try:
                cfg = _config(case, w=wkeep, samples=[case["samples"][r] for r in keep],
                              rmin=0, pmin=1, filt=filt)
                ee2 = EnsembleEvaluator(EnOptConfig.model_validate(cfg), None,
                                        _evaluator(case, keep, [pident[r] for r in keep]), pm)
                (rf,) = ee2.calculate(x, compute_functions=True, compute_gradients=False)
                if rf.functions is not None:
                    ro = F._result_obs(rf, nc)
                    obs["red_f"] = {"ow": ro["ow"], "cw": ro["cw"], "functions": ro["functions"]}
            except OptimizationAborted:
                pass

    # ---- gradients on the ensemble with the gradient-failed realizations / failed perturbations removed
    okp = [[p for p in range(P) if not _has_nan(table[r]["p"][p])] for r in range(R)]
    failed_g = [failed_fn[r] or len(okp[r]) < pmin_cfg for r in range(R)]
    gkeep = [r for r in range(R) if not failed_g[r]]
    obs["red_g"] = None
    obs["per_real"] = [None] * R
    in_force = case["w"]
    mixed = _mixed(case)
    if mixed:
        # mixed maps: the weight rows in force differ per function, so there is no single reduced ensemble; the reference
        # is the per-realization run of every realization that carries weight in some row (combined by the model in Coq)
        in_force = None
        if obs["outcome"] == "results":
            rows = [obs["cfg"]["w"]] + (obs["f"]["ow"] or []) + (obs["f"]["cw"] or [])
            in_force = [sum(abs(row[r]) for row in rows) for r in range(R)]
    elif case["filter"] is not None:
        in_force = full_ow[0] if full_ow is not None else None
    have_g = obs["outcome"] == "results" and obs["g"]["grads"] is not None
    if have_g and gkeep and in_force is not None and sum(in_force[r] for r in gkeep) > 0:
        counts = {len(okp[r]) for r in gkeep}
        if len(counts) == 1 and not mixed:
            try:
                cfg = _config(case, w=[in_force[r] for r in gkeep],
                              samples=[[case["samples"][r][p] for p in okp[r]] for r in gkeep],
                              rmin=0, pmin=1, filt=None)
                ee3 = EnsembleEvaluator(EnOptConfig.model_validate(cfg), None,
                                        _evaluator(case, gkeep, [okp[r] for r in gkeep]), pm)
                _, rg = _calculate(ee3, x, split)
                if rg.gradients is not None:
                    obs["red_g"] = _grads_obs(rg.gradients)
            except OptimizationAborted:
                pass
        elif not merge:
            single = dict(case, ests=["mean"], oem=None, cem=None)
            for r in gkeep:
                if in_force[r] == 0:
                    continue
                cfg = _config(single, w=[1.0], samples=[[case["samples"][r][p] for p in okp[r]]], rmin=0, pmin=1, filt=None)
                ee4 = EnsembleEvaluator(EnOptConfig.model_validate(cfg), None, _evaluator(case, [r], [okp[r]]), pm)
                _, sg = ee4.calculate(x, compute_functions=True, compute_gradients=True)
                go = _grads_obs(sg.gradients)
                obs["per_real"][r] = [go["objs"], go["cons"]]

    # ---- the twin ensemble: everything that belongs to a failed realization or a failed perturbation (values in the
    #      other columns, perturbation samples) replaced by other numbers; nothing reported may change
    obs["twin"] = None
    if obs["outcome"] == "results" and (merge or case["stream"] != "exhaustive") and any(failed_g + [len(o) < P for o in okp]):
        ttable, tsamples = _twin(case, failed_fn, failed_g)
        tcfg = _config(case, w=case["w"], samples=tsamples, rmin=case["rmin"], pmin=case["pmin"], filt=case["filter"])
        try:
            ee5 = EnsembleEvaluator(EnOptConfig.model_validate(tcfg), None, _evaluator(case, ident, pident, ttable), pm)
            tf, tg = _calculate(ee5, x, split)
            obs["twin"] = {"functions": F._result_obs(tf, nc)["functions"], "failed": [bool(v) for v in tg.realizations.failed_realizations],
                           "grads": None if tg.gradients is None else _grads_obs(tg.gradients)}
        except OptimizationAborted:
            obs["twin"] = {"abort": True}

    # ---- end to end: optimizer step (scripted optimizer) and evaluator step; what the steps deliver to an observer
    #      of FINISHED_EVALUATION must be the results of the evaluation
    from ropt.enums import EventType
    from ropt.results import FunctionResults

    def run_step(name):
        delivered = []

        def on_results(event):
            for r in event.data["results"]:
                delivered.append(["f", F._result_obs(r, nc)] if isinstance(r, FunctionResults) else ["g", _g_obs(r)])

        ctx = OptimizerContext(evaluator=_evaluator(case, ident, pident), plugin_manager=pm)
        ctx.add_observer(EventType.FINISHED_EVALUATION, on_results)
        plan = Plan(ctx)
        step = plan.add_step(name)
        try:
            return int(plan.run_step(step, config=full_cfg, variables=case["x"]).value), delivered
        except Exception:  # noqa: BLE001 - any escaping exception is reported as exit code -1
            return -1, delivered

    def delivery(delivered):
        differs = [[k, o] for k, o in delivered if obs["outcome"] == "results" and not _same(o, obs[k])]
        return {"kinds": "".join(k for k, _ in delivered), "differs": differs[:1]}

    obs["opt_exit"], delivered = run_step("optimizer")
    obs["opt_delivery"] = delivery(delivered)
    obs["eval_exit"], delivered = run_step("evaluator")
    obs["eval_delivery"] = delivery(delivered)
    return obs


# ---------------------------------------------------------------------------------------------------
# Gallina printer
def _grads_term(g):
    return f"({cq.lst(cq.oqs(r) for r in g['objs'])}, {cq.lst(cq.oqs(r) for r in g['cons'])}, {cq.oqs(g['w'])})"


def _fvals_term(f):
    return f"({cq.oqs(f['objs'])}, {cq.oqs(f['cons'])}, {cq.oq(f['w'])})"


def _cfg_case(case):
    """case in the shape C01's printers expect"""
    filt = case["filter"]
    return {"nc": case["nc"], "ests": case["ests"], "oem": case["oem"], "cem": case["cem"],
            "ofm": None if filt is None else _maps(case)[0],
            "cfm": None if filt is None or not case["nc"] else _maps(case)[1]}


def magnitude(case, obs):
    m = 1.0
    for ent in case["table"]:
        for o, c in [ent["u"]] + ent["p"]:
            for v in o + c:
                if not math.isnan(v):
                    m = max(m, abs(v))
    gs = []
    if obs["outcome"] == "results" and obs["g"]["grads"]:
        gs.append(obs["g"]["grads"])
    if obs["red_g"]:
        gs.append(obs["red_g"])
    for g in gs:
        for row in g["objs"] + g["cons"] + [g["w"]]:
            for v in row:
                if not math.isnan(v) and not math.isinf(v):
                    m = max(m, abs(v))
    if obs.get("twin") and obs["twin"].get("grads"):
        for row in obs["twin"]["grads"]["objs"] + obs["twin"]["grads"]["cons"] + [obs["twin"]["grads"]["w"]]:
            for v in row:
                if not math.isnan(v) and not math.isinf(v):
                    m = max(m, abs(v))
    for pr in obs["per_real"]:
        if pr:
            for row in pr[0] + pr[1]:
                for v in row:
                    if not math.isnan(v) and not math.isinf(v):
                        m = max(m, abs(v))
    return m


def coq_case(case, obs):
    S = magnitude(case, obs)
    rows = F._rows([e["u"][0] for e in case["table"]], [e["u"][1] for e in case["table"]])
    prows = cq.lst(F._rows([p[0] for p in e["p"]], [p[1] for p in e["p"]]) for e in case["table"])
    if obs["outcome"] == "results":
        g = obs["g"]
        gt = "None" if g["grads"] is None else f"(Some {_grads_term(g['grads'])})"
        full = (f"(FullResults {F._result_term(obs['f'])} (mkgobs {cq.bs(g['failed'])} {cq.opt(g['ow'], cq.qmat)} "
                f"{cq.opt(g['cw'], cq.qmat)} {gt}))")
    elif obs["outcome"] == "abort":
        full = f"(FullAbort {cq.z(obs['code'])})"
    else:
        full = "FullRaise"
    rf = obs["red_f"]
    red_f = "None" if rf is None else (f"(Some ({cq.opt(rf['ow'], cq.qmat)}, {cq.opt(rf['cw'], cq.qmat)}, "
                                       f"{_fvals_term(rf['functions'])}))")
    red_g = "None" if obs["red_g"] is None else f"(Some {_grads_term(obs['red_g'])})"
    per = cq.lst("None" if p is None else f"(Some ({cq.qmat(p[0])}, {cq.qmat(p[1])}))" for p in obs["per_real"])
    tw = obs.get("twin")
    if tw is None:
        twin = "TwinNone"
    elif tw.get("abort"):
        twin = "TwinAbort"
    else:
        twin = (f"(Twin {'None' if tw['functions'] is None else '(Some ' + _fvals_term(tw['functions']) + ')'} {cq.bs(tw['failed'])} "
                f"{'None' if tw['grads'] is None else '(Some ' + _grads_term(tw['grads']) + ')'})")
    return ("(Chk_C03.Build_case {S} {cfg} {rr} {rp} {P} {V} {mg} {rows} {prows} {fouts} {full} {red_f} {red_g} {per} {twin} {an} {oe} {ee})".format(
        mg=cq.b(bool(case.get("merge"))), twin=twin,
        S=cq.q(S), cfg=F.cfg_term(_cfg_case(case), obs), rr=cq.opt(case["rmin"], cq.nat), rp=cq.opt(case["pmin"], cq.nat),
        P=cq.nat(case["P"]), V=cq.nat(case["V"]), rows=rows, prows=prows,
        fouts=cq.lst(F._fout(f) for f in obs["fouts"]), full=full, red_f=red_f, red_g=red_g, per=per,
        an=cq.b(case["allow_nan"]), oe=cq.z(obs["opt_exit"]), ee=cq.z(obs["eval_exit"])))


# ---------------------------------------------------------------------------------------------------
# oracle: the property's clauses on the implementation's output (plain Python, no model)
def _close(a, b, S):
    if math.isnan(a) or math.isnan(b):
        return math.isnan(a) and math.isnan(b)
    return abs(a - b) <= 1e-9 * S + 1e-7 * abs(b)


def _flat_g(g):
    return [v for row in g["objs"] + g["cons"] + [g["w"]] for v in row]


def oracle(case, obs):
    R, P = case["R"], case["P"]
    table = case["table"]
    rmin = R if case["rmin"] is None or case["rmin"] > R else case["rmin"]
    pmin = P if case["pmin"] is None or case["pmin"] > P else case["pmin"]
    if (obs["cfg"]["rmin"], obs["cfg"]["pmin"]) != (rmin, pmin):
        return {"clause": "thresholds", "detail": [obs["cfg"], rmin, pmin]}
    failed_fn = [_has_nan(e["u"]) for e in table]
    okp = [sum(1 for p in e["p"] if not _has_nan(p)) for e in table]
    failed_g = [failed_fn[r] or okp[r] < pmin for r in range(R)]
    gate_f = failed_fn.count(False) >= rmin
    gate_g = failed_g.count(False) >= rmin
    if obs["outcome"] == "raise":
        # also outside the quantifier (0/0: no realization that succeeds for the gradient carries weight in force) an
        # exception must not escape; with merge_realizations the stacked system is then empty (F14f, fixed by 294d53c)
        return {"clause": "unexpected-exception", "detail": obs.get("exc")}
    S = magnitude(case, obs)
    stddev_used = any(F._ekind(m) == "Stddev" for m in case["ests"])
    filter_abort = any(f[0] == "abort" for f in obs["fouts"])
    if obs["outcome"] == "abort":
        # legitimate only: a filter without positive weight, or a stddev estimator with fewer than two contributors
        if obs["code"] != TOO_FEW or not (filter_abort or stddev_used):
            return {"clause": "unexpected-abort", "detail": obs.get("code")}
        if obs["opt_exit"] != TOO_FEW or obs["eval_exit"] not in (TOO_FEW, EVAL_DONE):
            return {"clause": "exit-code", "detail": [obs["opt_exit"], obs["eval_exit"]]}
        return None
    f, g = obs["f"], obs["g"]
    if f["failed"] != failed_fn:
        return {"clause": "function-failed-iff-any-nan", "detail": {"got": f["failed"], "expected": failed_fn}}
    if g["failed"] != failed_g:
        return {"clause": "gradient-failed-iff-nan-or-too-few-perturbations",
                "detail": {"got": g["failed"], "expected": failed_g, "pmin": pmin, "ok_perturbations": okp}}
    if (f["functions"] is not None) != gate_f:
        return {"clause": "functions-reported-iff-enough-realizations", "detail": {"failed": failed_fn, "rmin": rmin}}
    if (g["grads"] is not None) != gate_g:
        return {"clause": "gradients-reported-iff-enough-realizations", "detail": {"failed": failed_g, "rmin": rmin}}
    # exit codes
    all_f, all_g = all(failed_fn), all(failed_g)
    too_few = (not gate_f) or (not gate_g) or (rmin < 1 and not case["allow_nan"] and (all_f or all_g))
    if obs["opt_exit"] != (TOO_FEW if too_few else OPT_DONE):
        return {"clause": "optimizer-exit-code", "detail": {"got": obs["opt_exit"], "too_few": too_few}}
    if obs["eval_exit"] != (TOO_FEW if not gate_f else EVAL_DONE):
        return {"clause": "evaluator-exit-code", "detail": {"got": obs["eval_exit"], "gate": gate_f}}
    # as if absent: functions
    if obs["red_f"] is not None and f["functions"] is not None:
        a, b = f["functions"], obs["red_f"]["functions"]
        for x, y in zip(a["objs"] + a["cons"] + [a["w"]], b["objs"] + b["cons"] + [b["w"]]):
            if not (math.isnan(x) or math.isnan(y)) and not _close(x, y, S):
                return {"clause": "functions-as-if-failed-realizations-absent", "detail": {"full": a, "reduced": b}}
    # as if absent: gradients
    if g["grads"] is not None and obs["red_g"] is not None:
        for x, y in zip(_flat_g(g["grads"]), _flat_g(obs["red_g"])):
            if not _close(x, y, S):
                return {"clause": "gradients-as-if-failed-absent", "detail": {"full": g["grads"], "reduced": obs["red_g"]}}
    if g["grads"] is not None and any(p is not None for p in obs["per_real"]) and case["filter"] is None:
        w = [0.0 if failed_g[r] else obs["cfg"]["w"][r] for r in range(R)]
        s = sum(w)
        if s > 0:
            w = [v / s for v in w]
            for grp, em, n in (("objs", case["oem"], case["no"]), ("cons", case["cem"], case["nc"])):
                for j in range(n):
                    if F._method(case, em, j) != "Mean":
                        continue
                    for v in range(case["V"]):
                        want = sum(w[r] * obs["per_real"][r][0 if grp == "objs" else 1][j][v]
                                   for r in range(R) if w[r] != 0 and obs["per_real"][r] is not None)
                        if any(w[r] != 0 and obs["per_real"][r] is None for r in range(R)):
                            continue
                        if not _close(g["grads"][grp][j][v], want, S):
                            return {"clause": "gradient-is-renormalised-mean-of-surviving-realizations",
                                    "detail": {"group": grp, "function": j, "variable": v,
                                               "got": g["grads"][grp][j][v], "expected": want}}
    # as if absent: nothing that belongs to a failed realization or a failed perturbation (its values in the other
    # columns, its perturbation samples) influences what is reported
    tw = obs.get("twin")
    if tw is not None:
        if tw.get("abort") or tw["failed"] != g["failed"] or (tw["functions"] is None) != (f["functions"] is None) \
                or (tw["grads"] is None) != (g["grads"] is None):
            return {"clause": "failed-entries-influence-the-outcome", "detail": {"twin": tw, "failed": g["failed"]}}
        if f["functions"] is not None:
            a, b = f["functions"], tw["functions"]
            if not all(_close(x, y, S) for x, y in zip(a["objs"] + a["cons"] + [a["w"]], b["objs"] + b["cons"] + [b["w"]])):
                return {"clause": "failed-entries-influence-the-functions", "detail": {"full": a, "twin": b}}
        if g["grads"] is not None:
            if not all(_close(x, y, S) for x, y in zip(_flat_g(g["grads"]), _flat_g(tw["grads"]))):
                return {"clause": "failed-entries-influence-the-gradients", "detail": {"full": g["grads"], "twin": tw["grads"]}}
    # the steps deliver the results of the evaluation to the observers of FINISHED_EVALUATION
    od, ed = obs.get("opt_delivery"), obs.get("eval_delivery")
    if od is not None:
        if od["differs"] or ed["differs"]:
            return {"clause": "step-delivers-the-results-of-the-evaluation",
                    "detail": {"optimizer": od["differs"], "evaluator": ed["differs"]}}
        want = "fg" if obs["opt_exit"] == OPT_DONE or not case.get("split") else od["kinds"]
        if ed["kinds"] != "f" or not od["kinds"].startswith("f") or od["kinds"] != want:
            return {"clause": "step-delivers-one-result-per-request", "detail": {"optimizer": od["kinds"], "evaluator": ed["kinds"]}}
    return None


# ---------------------------------------------------------------------------------------------------
def _nfail(case):
    return sum(1 for e in case["table"] for row in [e["u"]] + e["p"] if _has_nan(row))


def nontrivial(case, obs):
    return _nfail(case) > 0 and obs["outcome"] != "raise"


def features(case, obs):
    n = _nfail(case)
    how = "none"
    if obs["red_g"] is not None:
        how = "reduced-run"
    elif any(p is not None for p in obs["per_real"]):
        how = "per-realization"
    elif obs.get("twin") and obs["twin"].get("grads"):
        how = "twin-only"
    return {"stream": case["stream"], "RxP": f"{case['R']}x{case['P']}", "failed_slots": n if n < 4 else "4+",
            "filter": "none" if case["filter"] is None else case["filter"]["method"],
            "estimators": "+".join(case["ests"]), "outcome": obs["outcome"],
            "functions_reported": obs["outcome"] == "results" and obs["f"]["functions"] is not None,
            "gradients_reported": obs["outcome"] == "results" and obs["g"]["grads"] is not None,
            "gradient_reference": how, "opt_exit": obs["opt_exit"], "nan_col": case["nan_col"],
            "merge": bool(case.get("merge")), "filter_maps": "mixed" if _mixed(case) else "all-or-none", "request": "function-then-gradient" if case.get("split") else "joint",
            "twin_run": obs.get("twin") is not None}


def known_signature(case, obs, violation):
    return None


def _clean_row(row):
    return [[1.0 if math.isnan(v) else v for v in row[0]], [1.0 if math.isnan(v) else v for v in row[1]]]


def shrink(case):
    # remove one failure at a time
    for r, e in enumerate(case["table"]):
        for s, row in enumerate([e["u"]] + e["p"]):
            if _has_nan(row):
                tab = [{"u": x["u"], "p": list(x["p"])} for x in case["table"]]
                if s == 0:
                    tab[r]["u"] = _clean_row(row)
                else:
                    tab[r]["p"][s - 1] = _clean_row(row)
                yield {**case, "table": tab}
    if case["filter"] is not None:
        yield {**case, "filter": None}
    if case["rmin"] not in (0,):
        yield {**case, "rmin": 0}


def search(rng, case):
    if case is None:
        yield from itertools.islice(_exhaustive("quick"), 0, 1500)
        return
    yield from shrink(case)
    for _ in range(600):
        yield gen_sampled(rng)


MANIFEST = {
    "level_text": ("Machine-checked Coq proofs (Props/C03.v, all for arbitrary ensemble sizes and failure masks, by induction) about the "
                   "executable definitions of Model/Ensemble.v that Chk_C03.check_case evaluates against the real code on every run.  "
                   "C03_failed_iff_any_nan: after NaN propagation a realization is flagged for functions iff some objective or constraint "
                   "entry of its row is NaN.  C03_perturbation_ok_iff / C03_grad_failed_iff: a perturbation succeeds iff its row is "
                   "NaN-free, and a realization is flagged for gradients iff its unperturbed row has a NaN or fewer than "
                   "perturbation_min_success perturbations are NaN-free.  C03_thresholds_clamped: both thresholds are clamped to the "
                   "ensemble size.  C03_gate / C03_functions_reported_iff: values are reported iff the number of non-failed realizations "
                   "reaches realization_min_success, otherwise nothing is reported.  C03_too_few_exit: the optimizer / evaluator step "
                   "ends with TOO_FEW_REALIZATIONS exactly when the calculation aborted or a result lacks its values (or, with "
                   "realization_min_success = 0 and no allow_nan, everything failed); the code differs from the *_STEP_FINISHED codes "
                   "regenerated from the source.  C03_as_if_absent_estimate / C03_as_if_absent_functions: every estimated function "
                   "(mean, variance, too-few abort and 0/0 alike) of the full ensemble equals that of the ensemble with the failed "
                   "realizations deleted (weights in force restricted and renormalised; the reduced ensemble's own flags, recomputed "
                   "by the model, are all false).  C03_perturbations_as_if_absent / C03_as_if_absent_gradients: the least-squares "
                   "system of a realization is the system without its failed perturbations, and the combined mean / stddev gradient "
                   "equals that of the ensemble with failed realizations and failed perturbations deleted, for every solver returning "
                   "one entry per variable.  C03_merged_rows_only / C03_as_if_absent_merged: with merge_realizations the rows of the one "
                   "stacked solve belong to realizations with non-zero normalised weight and to perturbations with a defined difference, and "
                   "for every weighting+solver of the stacked rows (the current one-sided weighting and a weighted-least-squares repair "
                   "alike) the merged gradient equals that of the reduced ensemble.  C03_filters_commute_with_removal: the CVaR and sort-window weights (models of C04/C05) of "
                   "the survivors are the weights computed on the reduced ensemble, failed entries exact zeros.  C03_example: "
                   "non-vacuity.  The correspondence is exhaustive over all failure subsets of small ensembles and also runs the real "
                   "code on the physically reduced ensemble."),
    "level_note": ("All 14 theorems print 'Closed under the global context'; none is partial.  Trusted / modelled-not-verified: the "
                   "least-squares solver is a parameter of the gradient theorems (the SVD solve is C02) and the correspondence compares "
                   "the real solver's outputs on bit-identical systems; in Model/Ensemble.v the realization filters are inputs (observed "
                   "from the real plug-in) and C03_filters_commute_with_removal is about the filter models of Model/Filters.v, which "
                   "C04/C05 tie to the code; when every realization with positive configured weight fails but a CVaR filter gives the "
                   "survivors weight in force, the physically reduced ensemble is configured with uniform weights (a configuration "
                   "cannot hold all-zero weights; CVaR weights do not depend on them); realization_system / realization_gradients / gradient_of (which rows enter "
                   "the solve) are modelled but not evaluated by the checker, which evaluates normalize, zero_failed and "
                   "combine_gradients on observed per-realization gradients and otherwise compares the real full run with the real "
                   "reduced run; merged_rows / merged_gradient_of are likewise modelled but not evaluated by the checker: for merged estimation Coq checks flags, gates, weights and exit codes against the model and compares the real full run with the real reduced run and the real twin run (the stacked solve itself is C02, incl. its known finding); the gradient-only path after a function request and the results delivered by the steps are covered by the correspondence, not by a theorem; 0/0 cases (no surviving weight in force) compare flags, gates and exit codes only; that the model is the "
                   "code is checked by the correspondence, not proved; float rounding is bridged by the tolerance of DESIGN 2.2."),
    "technique": "Coq proof (list induction over Q with setoid rewriting under ==, solver as a universally quantified function) + exhaustive in-Coq differential correspondence with the real EnsembleEvaluator, full vs. physically reduced ensembles",
    "design_ref": "DESIGN.md section 4, C03",
}
