"""C19 -- plug-in lookup is deterministic, case-insensitive and side-effect free.

Correspondence: operation sequences (add_plugin normal/prioritised in varying case, get_plugin,
is_supported with bare / qualified / mis-cased / unknown names) on one or two real PluginManager
instances; answers (plug-in identity or exception class) and the final plugins() order of every
manager are compared exactly with Model/Registry.v inside Coq.
"""
from __future__ import annotations

import itertools

import coqio as cq

ID = "C19"
THEOREM_FILE = "Props/C19.v"
CHK_MODULE = "Check.Chk_C19"
CASE_TYPE = "Chk_C19.case"
CHECK_FN = "Chk_C19.check_case"
HEADER = "From Ropt Require Import Model.Registry Gen.Generated."
SHARD_SIZE = 800
PARALLEL = True
EXHAUSTIVE = {"quick": True, "thorough": True}
RULE = ("exhaustive: every operation sequence of length <= 3 (quick) / <= 4 (thorough) over a 22-letter alphabet "
        "(8 add_plugin variants: names A/a/B/N x normal/prioritised; 10 get_plugin and 4 is_supported requests with bare, "
        "qualified, mis-cased, unknown and external/ names) on one manager of type 'optimizer', with a second untouched "
        "manager observed for isolation; plus sampled sequences of length <= 8 addressed to two managers and to every "
        "other plug-in type. Non-trivial = the sequence contains a successful add_plugin and a later lookup; distinct = "
        "distinct (type, managers, sequence).")
ASSUMPTIONS = [
    "a stub plug-in's is_supported is a lower-cased table lookup and its allows_discovery a constant (the stubs are written that way)",
    "the entry-point set of a fresh PluginManager (names, order) is an input of each case; the built-in plug-ins' method tables are the generated ones",
]
TRUSTED = ["importlib.metadata entry points of the installed ropt distribution (order of the initial registry is observed, not modelled)"]

STUBS = {"A": ({"a"}, True), "B": ({"a", "b"}, True), "N": ({"b", "slsqp", "mean", "uniform"}, False)}
STUB_ID = {"A": 10, "B": 11, "N": 12}

BUILTIN = {
    "ExternalOptimizerPlugin": "ext 0",
    "SciPyOptimizerPlugin": "tbl 1 scipy_optimizer_plugin_methods true",
    "SciPySamplerPlugin": "tbl 2 scipy_sampler_plugin_methods true",
    "DefaultRealizationFilterPlugin": "tbl 3 realization_filter_methods true",
    "DefaultFunctionEstimatorPlugin": "tbl 4 function_estimator_methods true",
    "DefaultPlanHandlerPlugin": "tbl 5 plan_handler_methods true",
    "DefaultPlanStepPlugin": "tbl 6 plan_step_methods true",
}
BUILTIN_ID = {k: int(v.split()[1]) for k, v in BUILTIN.items()}

ADD_OPS = [("add", n, pr) for n in ("A", "a", "B", "N") for pr in (False, True)]
OPT_LOOKUPS = [("get", m) for m in ("a", "b", "A/a", "b/B", "n/b", "slsqp", "scipy/SLSQP", "zzz", "A/zzz",
                                    "external/slsqp")] + [("sup", m) for m in ("a", "B", "n/B", "zzz")]
TYPE_LOOKUPS = {
    "optimizer": ["SLSQP", "External/scipy/slsqp", "external/a", "external/A/a", "default", "scipy/default", "external/external/slsqp", "a/", "/a", ""],
    "sampler": ["uniform", "SCIPY/Sobol", "n/uniform", "scipy/zzz", "default"],
    "realization_filter": ["sort-objective", "Default/CVAR-constraint", "mean"],
    "function_estimator": ["mean", "default/StdDev", "n/mean", "default"],
    "plan_handler": ["tracker", "default/Store", "a"],
    "plan_step": ["optimizer", "Default/evaluator", "b"],
}


def _seqs(alphabet, n):
    for L in range(1, n + 1):
        yield from itertools.product(alphabet, repeat=L)


def gen_cases(tier, rng):
    maxlen = 3 if tier == "quick" else 4
    alpha = ADD_OPS + OPT_LOOKUPS
    for seq in _seqs(alpha, maxlen):
        yield {"type": "optimizer", "managers": 2, "ops": [[0, list(op)] for op in seq]}
    n_rand = 600 if tier == "quick" else 12000
    types = list(TYPE_LOOKUPS)
    for _ in range(n_rand):
        t = rng.choice(types)
        look = [("get", m) for m in TYPE_LOOKUPS[t]] + [("sup", m) for m in TYPE_LOOKUPS[t]] + \
               [("get", m) for m in ("a", "B", "A/a", "n/b")]
        nm = rng.choice([1, 2, 2, 3])
        ops = []
        for _ in range(rng.randint(2, 8)):
            op = rng.choice(ADD_OPS) if rng.random() < 0.4 else rng.choice(look)
            ops.append([rng.randrange(nm), list(op)])
        yield {"type": t, "managers": nm, "ops": ops}


def _make_stub(ptype, tag):
    from ropt.plugins._manager import _PLUGIN_TYPES
    base = _PLUGIN_TYPES[ptype]
    methods, disc = STUBS[tag]

    class Stub(base):  # type: ignore[misc, valid-type]
        def __init__(self):
            self.tag = tag

        def create(self, *a, **k):
            return None

        def is_supported(self, method):
            return method.lower() in methods

        @property
        def allows_discovery(self):
            return disc

    return Stub()


def _ident(p):
    tag = getattr(p, "tag", None)
    if tag is not None:
        return STUB_ID[tag]
    return BUILTIN_ID.get(type(p).__name__, 99)


def run_impl(case):
    from ropt.exceptions import ConfigError
    from ropt.plugins import PluginManager
    t = case["type"]
    fresh = PluginManager()
    init = [[n, type(p).__name__] for n, p in fresh.plugins(t)]
    mans = [PluginManager() for _ in range(case["managers"])]
    answers = []
    for i, op in case["ops"]:
        pm = mans[i]
        try:
            if op[0] == "add":
                pm.add_plugin(t, op[1], _make_stub(t, op[1].upper()), prioritize=bool(op[2]))
                answers.append(["ok"])
            elif op[0] == "get":
                answers.append(["plug", _ident(pm.get_plugin(t, op[1]))])
            else:
                r = pm.is_supported(t, op[1])
                answers.append(["bool", bool(r)] if isinstance(r, bool) else ["other", repr(r)])
        except ConfigError:
            answers.append(["err"])
    final = [[n for n, _ in pm.plugins(t)] for pm in mans]
    after = [[n, type(p).__name__] for n, p in PluginManager().plugins(t)]
    return {"init": init, "answers": answers, "final": final, "fresh_after": after}


def _plugin_term(tag):
    methods, disc = STUBS[tag]
    return f"(tbl {STUB_ID[tag]} {cq.lst(cq.s(m) for m in sorted(methods))} {cq.b(disc)})"


def _op_term(op):
    if op[0] == "add":
        return f"(Add {cq.s(op[1])} {_plugin_term(op[1].upper())} {cq.b(op[2])})"
    if op[0] == "get":
        return f"(Get {cq.s(op[1])})"
    return f"(Sup {cq.s(op[1])})"


def _ans_term(a):
    if a[0] == "ok":
        return "AOk"
    if a[0] == "err":
        return "AErr"
    if a[0] == "plug":
        return f"(APlug {cq.nat(a[1])})"
    if a[0] == "bool":
        return f"(ABool {cq.b(a[1])})"
    return "(APlug 98%nat)"


def coq_case(case, obs):
    init = cq.lst(f"({cq.s(n)}, {BUILTIN.get(cls, 'tbl 99 [] true')})" for n, cls in obs["init"])
    ops = cq.lst(f"({cq.nat(i)}, {_op_term(op)})" for i, op in case["ops"])
    ans = cq.lst(_ans_term(a) for a in obs["answers"])
    final = cq.lst(cq.lst(cq.s(n) for n in names) for names in obs["final"])
    return f"(Build_case {init} {cq.nat(case['managers'])} {ops} {ans} {final})"


def oracle(case, obs):
    """The property's own clauses evaluated on the implementation's answers (no model)."""
    if obs["fresh_after"] != obs["init"]:
        return {"clause": "isolation", "detail": "a fresh manager created after the run differs from one created before"}
    nm = case["managers"]
    names = [[n for n, _ in obs["init"]] for _ in range(nm)]
    ids = [{n: BUILTIN_ID.get(cls, 99) for n, cls in obs["init"]} for _ in range(nm)]
    supported_now = [dict() for _ in range(nm)]
    for (i, op), a in zip(case["ops"], obs["answers"]):
        if op[0] == "add":
            low = op[1].lower()
            if low in names[i]:
                if a != ["err"]:
                    return {"clause": "duplicate-rejected", "detail": [i, op, a]}
            else:
                if a != ["ok"]:
                    return {"clause": "registration-accepted", "detail": [i, op, a]}
                names[i] = [low] + names[i] if op[2] else names[i] + [low]
                ids[i][low] = STUB_ID[op[1].upper()]
            supported_now[i] = {}
        elif op[0] == "get":
            if a[0] == "plug" and "/" not in op[1] and a[1] in (0, 12):
                return {"clause": "undiscoverable-returned-for-bare-name", "detail": [i, op, a]}
            if a[0] == "plug" and a[1] not in ids[i].values():
                return {"clause": "isolation: lookup returned a plug-in that is not registered in this manager", "detail": [i, op, a]}
            if a[0] == "plug" and "/" in op[1]:
                head = op[1].split("/", 1)[0].lower()
                if ids[i].get(head) != a[1]:
                    return {"clause": "qualified-consults-other-plugin", "detail": [i, op, a]}
            prev = supported_now[i].get(op[1])
            if prev is not None and prev != (a[0] == "plug"):
                return {"clause": "is_supported-iff-get", "detail": [i, op, a]}
            supported_now[i][op[1]] = a[0] == "plug"
        else:
            if a[0] != "bool":
                return {"clause": "is_supported-not-bool", "detail": [i, op, a]}
            if a[1] and "/" in op[1] and op[1].split("/", 1)[0].lower() not in ids[i]:
                return {"clause": "isolation: is_supported true for a plug-in name not registered in this manager", "detail": [i, op, a]}
            prev = supported_now[i].get(op[1])
            if prev is not None and prev != a[1]:
                return {"clause": "is_supported-iff-get", "detail": [i, op, a]}
            supported_now[i][op[1]] = a[1]
    if obs["final"] != names:
        return {"clause": "lookup-order-or-isolation", "detail": {"expected": names, "got": obs["final"]}}
    return None


def nontrivial(case, obs):
    added = False
    for (i, op), a in zip(case["ops"], obs["answers"]):
        if op[0] == "add" and a == ["ok"]:
            added = True
        elif op[0] != "add" and added:
            return True
    return False


def features(case, obs):
    kinds = [a[0] for a in obs["answers"]]
    return {"type": case["type"], "len": len(case["ops"]), "managers": case["managers"],
            "errors": min(3, kinds.count("err"))}


def known_signature(case, obs, violation):
    return None


def shrink(case):
    ops = case["ops"]
    for k in range(len(ops)):
        yield {**case, "ops": ops[:k] + ops[k + 1:]}


def search(rng, case):
    if case is None:
        yield from itertools.islice(gen_cases("quick", rng), 0, 1500)
        return
    ops = case["ops"]
    for k in range(len(ops)):
        yield {**case, "ops": ops[:k] + ops[k + 1:]}
    for _ in range(300):
        extra = [[rng.randrange(case["managers"]), list(rng.choice(ADD_OPS + OPT_LOOKUPS))] for _ in range(2)]
        yield {**case, "ops": ops + extra}

MANIFEST = {
    "level_text": ("Machine-checked Coq proof, for every operation sequence and registry, that the executable model of PluginManager "
                   "(Model/Registry.v) keeps names distinct up to case, rejects duplicates (also prioritised), orders lookups "
                   "prioritised-first, resolves 'plugin/method' only through the named plug-in for every casing, returns for a bare "
                   "name the first discoverable supporting plug-in (never a non-discoverable one), has is_supported <=> get succeeds, and "
                   "isolates managers; the model is tied to the code on every run by an in-Coq correspondence over all operation "
                   "sequences up to length 3 (quick) / 4 (thorough) on real PluginManager objects, with method tables regenerated from source."),
    "level_note": ("Trusted: Coq kernel + VM; the translator copying the built-in method tables; the Python driver that runs the real "
                   "PluginManager and prints answers as Gallina literals; stub plug-ins are table-driven; entry-point order is observed. "
                   "All theorems print 'Closed under the global context'."),
    "technique": "Coq proof (induction over operation sequences on an executable Gallina model) + in-Coq differential correspondence with the real PluginManager",
    "design_ref": "DESIGN.md section 4, C19",
}
