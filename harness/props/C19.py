"""C19 -- plug-in lookup is deterministic, case-insensitive and side-effect free.

Correspondence: operation sequences (add_plugin normal/prioritised in varying case with stub plug-ins, fresh
instances of the real built-in plug-ins and re-used objects; get_plugin / is_supported with bare, qualified,
mis-cased, multi-slash, empty-part, 'default', external/ and unknown requests; plugins(); the external
optimizer's constructor) on one to three real PluginManager instances and on every plug-in type; answers
(plug-in identity or exception class), the is_supported calls the stubs received, the plugins() listing of
every manager and type at the end and of a manager created afterwards are compared exactly with
Model/Registry.v inside Coq; an independent Python reading of the property text judges the same observations.
"""
from __future__ import annotations

import itertools

import coqio as cq

ID = "C19"
THEOREM_FILE = "Props/C19.v"
CHK_MODULE = "Check.Chk_C19"
CASE_TYPE = "Chk_C19.case"
CHECK_FN = "Chk_C19.check_case"
SHARD_SIZE = 700
PARALLEL = True
EXHAUSTIVE = {"quick": True, "thorough": True}
RULE = ("streams: E1 exhaustive -- every operation sequence of length <= 3 (quick) / <= 4 (thorough) over a 20-letter "
        "alphabet (8 add_plugin variants: names A/a/B/N x normal/prioritised; 8 get_plugin and 4 is_supported requests: "
        "bare, qualified, mis-cased, unknown, external/) on manager 0 of two managers, type 'optimizer' (lookup-only "
        "sequences only up to length 2); E6 exhaustive -- every sequence of length <= 3 over 6 operations x 2 managers "
        "(same name bound to different plug-ins in the two managers); E2 -- every add_plugin sequence of length <= 2 "
        "(<= 3 thorough) over 13 registrations (stubs incl. a case-sensitive one and one shadowing the built-in methods, "
        "fresh instances of the real scipy/external plug-ins, the shared entry-point object under a second name, "
        "duplicates of built-in names, empty name) followed by a probe block (plugins(), get_plugin and is_supported of 12 "
        "requests), plus sampled longer ones; E3/E5 -- sampled sequences of length 3..12 over all six plug-in types and "
        "one to three managers with names and plug-ins decoupled and objects re-used; E4 -- for every type every built-in "
        "method name (and unknown ones) in three casings, bare, qualified and through external/, incl. the external "
        "optimizer's constructor; E9 -- a falsy plug-in object (len() == 0) requested bare and by name (F19a); E7 -- a rejected registration in the middle of a sequence followed by the probe block; "
        "E8 -- the same request (or listing) before and after each of 8 registrations, on the same and on a second "
        "manager, for every type; E10 -- the same bare/qualified method string asked of two different plug-in types of one "
        "manager, repeatedly, with no registration in between (11 shared names x 12 type pairs x 4 prefixes); E11 -- managers "
        "obtained through OptimizerContext() / BasicOptimizer (default path) and OptimizerContext(plugin_manager=...) next to "
        "plain ones (every sequence <= 2 over 6 ops x 2 managers for 5 source combinations, plus sampled); corpus -- the inputs of 5 seeded and 8 own regressions and of finding F19a.  The cases are shuffled (seeded) "
        "over the shards.  Non-trivial = the sequence contains a successful add_plugin and a later lookup, or probes the "
        "built-in tables; distinct = distinct case.")
ASSUMPTIONS = [
    "a stub plug-in's is_supported is a table lookup (lower-cased, or verbatim for the case-sensitive stub) and its allows_discovery a constant (the stubs are written that way)",
    "the entry-point set of a fresh PluginManager (names, order, per type) is an input of each case; the built-in plug-ins' method tables are the generated ones",
    "names and requests are printable ASCII (str.lower is modelled on ASCII only)",
]
TRUSTED = ["importlib.metadata entry points of the installed ropt distribution (order of the initial registry is observed, not modelled)"]

TYPES = ["optimizer", "sampler", "realization_filter", "function_estimator", "plan_handler", "plan_step"]
SHADOW = ["default", "slsqp", "mean", "uniform", "tracker", "optimizer", "sort-objective"]
# tag -> (methods, discoverable, case-sensitive)
STUBS = {
    "A": (["a"], True, False),
    "B": (["a", "b"], True, False),
    "N": (["b"] + SHADOW[1:], False, False),
    "C": (["B", "a", "x/Y"], True, True),
    "D": (["a"] + SHADOW, True, False),
    "Z": (["a"], True, False),           # like A, but the object is falsy (len() == 0)
}
BUILTIN_K = {
    "ExternalOptimizerPlugin": 0, "SciPyOptimizerPlugin": 1, "SciPySamplerPlugin": 2,
    "DefaultRealizationFilterPlugin": 3, "DefaultFunctionEstimatorPlugin": 4,
    "DefaultPlanHandlerPlugin": 5, "DefaultPlanStepPlugin": 6,
}
UNKNOWN_K = 9
STD_INIT = [[["external", "ExternalOptimizerPlugin"], ["scipy", "SciPyOptimizerPlugin"]],
            [["scipy", "SciPySamplerPlugin"]], [["default", "DefaultRealizationFilterPlugin"]],
            [["default", "DefaultFunctionEstimatorPlugin"]], [["default", "DefaultPlanHandlerPlugin"]],
            [["default", "DefaultPlanStepPlugin"]]]
TYPE_K = [1, 2, 3, 4, 5, 6]           # class index of the type's default built-in plug-in
MAX_OPS = 45                            # ids: built-in instances 50+op index, stubs 100+op index

# ---- request pools ------------------------------------------------------------------------------------------
COMMON = ["a", "A", "b", "B", "zzz", "", "A/a", "a/A", "b/B", "B/b", "n/b", "N/B", "A/zzz", "zz/a", "a/", "/a", "/",
          "a//a", "c/x/Y", "C/x/y", "c/B", "c/b", "c/a", "x/Y", "d/default", "D/a", "default", "s2/slsqp", "x/slsqp",
          "x/a", "X/scipy/SLSQP", "sp/slsqp", "SP/default"]
TYPE_POOL = [
    ["slsqp", "SLSQP", "scipy/SLSQP", "SciPy/default", "scipy/a", "n/slsqp", "external/slsqp", "External/scipy/slsqp",
     "external/a", "external/A/a", "external/external/slsqp", "external/n/b", "external/", "external//slsqp",
     "external/default", "external/scipy/default", "external/zzz", "EXTERNAL/Nelder-Mead", "scipy/scipy/slsqp",
     "external/s2/slsqp", "external/d/default"],
    ["uniform", "SCIPY/Sobol", "n/uniform", "scipy/zzz", "scipy/default", "sobol", "external/sobol", "s2/Halton"],
    ["sort-objective", "Default/CVAR-constraint", "mean", "default/default", "n/sort-objective", "Sort-Constraint"],
    ["mean", "default/StdDev", "n/mean", "default/default", "STDDEV", "s2/mean"],
    ["tracker", "default/Store", "default/zzz", "n/tracker", "Store"],
    ["optimizer", "Default/evaluator", "n/optimizer", "EVALUATOR", "default/default"],
]
METHODS = [
    ["bfgs", "cg", "cobyla", "default", "differential_evolution", "l-bfgs-b", "nelder-mead", "newton-cg", "powell",
     "slsqp", "tnc", "trust-constr", "basinhopping", "sobol", "mean"],
    ["default", "halton", "lhs", "norm", "sobol", "truncnorm", "uniform", "random", "slsqp"],
    ["sort-objective", "sort-constraint", "cvar-objective", "cvar-constraint", "default", "sort", "mean"],
    ["default", "mean", "stddev", "median", "tracker"],
    ["store", "tracker", "default", "optimizer"],
    ["evaluator", "optimizer", "default", "store"],
]
FWD_SAFE = ["external/slsqp", "external/scipy/slsqp", "EXTERNAL/SciPy/SLSQP", "external/zzz", "external/scipy/zzz",
            "external/default", "external/scipy/default", "external/Nelder-Mead", "external/a", "external/A/a",
            "external/d/default", "external/s2/slsqp", "external/n/b", "external/BFGS", "external/sobol"]

ADD_COUPLED = [["add", n, ["stub", n.upper()], pr] for n in ("A", "a", "B", "N") for pr in (False, True)]
E1_LOOKUPS = [["get", m] for m in ("a", "b", "A/a", "b/B", "n/b", "slsqp", "zzz", "external/a")] + \
             [["sup", m] for m in ("a", "B", "n/B", "zzz")]
E6_OPS = [["add", "A", ["stub", "A"], False], ["add", "a", ["stub", "B"], True], ["add", "B", ["stub", "B"], False],
          ["get", "a"], ["get", "A/a"], ["sup", "a/b"]]
E2_ADDS = [["add", "A", ["stub", "A"], False], ["add", "a", ["stub", "B"], True], ["add", "B", ["stub", "B"], False],
           ["add", "N", ["stub", "N"], True], ["add", "c", ["stub", "C"], False], ["add", "d", ["stub", "D"], True],
           ["add", "D", ["stub", "D"], False], ["add", "SciPy", ["stub", "A"], True], ["add", "EXTERNAL", ["stub", "D"], False],
           ["add", "s2", ["builtin", 1], True], ["add", "X", ["builtin", 0], False], ["add", "", ["stub", "B"], False],
           ["add", "sp", ["alias", 1], True]]
ADD_NAMES = ["A", "a", "B", "N", "c", "C", "d", "D", "scipy", "SciPy", "default", "Default", "EXTERNAL", "", "x/y", "s2", "X", "sp"]


def _seqs(alphabet, n):
    for L in range(1, n + 1):
        yield from itertools.product(alphabet, repeat=L)


# how the driver obtains a manager: "pm" PluginManager(); "ctx" OptimizerContext(evaluator).plugin_manager (default
# path); "basic" the manager of a BasicOptimizer's context; "ctx-explicit" OptimizerContext(evaluator, PluginManager())
SOURCES = ["pm", "ctx", "basic", "ctx-explicit"]


def _mk(stream, managers, ops, sources=None):
    c = {"stream": stream, "managers": managers, "ops": [[i, t, list(op)] for i, t, op in ops][:MAX_OPS]}
    if sources is not None and any(x != "pm" for x in sources):
        c["sources"] = list(sources)
    return c


def _probe(rng, t, k):
    pool = COMMON + TYPE_POOL[t]
    ms = rng.sample(pool, min(k, len(pool)))
    out = [["list"]]
    for m in ms:
        out += [["get", m], ["sup", m]]
    return out


def _rand_add(rng, t, n_prev_adds):
    name = rng.choice(ADD_NAMES)
    r = rng.random()
    if r < 0.62:
        plug = ["stub", rng.choice("ABNCDABNCDZ")]
    elif r < 0.76:
        plug = ["builtin", rng.choice([TYPE_K[t], TYPE_K[t], 0 if t == 0 else TYPE_K[t]])]
    elif r < 0.80:
        plug = ["alias", TYPE_K[t]]     # the shared entry-point object itself, under a second name
    elif n_prev_adds:
        plug = ["reuse", rng.choice(n_prev_adds)]
    else:
        plug = ["stub", "B"]
    return ["add", name, plug, rng.random() < 0.45]


def _gen_random(rng, stream, n, types_per_case, maxlen):
    for _ in range(n):
        nm = rng.choice([1, 2, 2, 3])
        ts = rng.sample(range(6), rng.randint(1, types_per_case))
        if rng.random() < 0.5 and 0 not in ts:
            ts[0] = 0
        ops, adds = [], []
        for k in range(rng.randint(3, maxlen)):
            t = rng.choice(ts)
            r = rng.random()
            if r < 0.38:
                op = _rand_add(rng, t, adds)
                if op[2][0] != "reuse":
                    adds.append(k)
            elif r < 0.45:
                op = ["list"]
            elif r < 0.47 and t == 0:
                op = ["fwd", rng.choice(FWD_SAFE)]
            else:
                m = rng.choice(COMMON + TYPE_POOL[t] + TYPE_POOL[t])
                op = [rng.choice(["get", "get", "sup"]), m]
            ops.append([rng.randrange(nm), t, op])
        src = [rng.choice(SOURCES) for _ in range(nm)] if rng.random() < 0.4 else None
        yield _mk(stream, nm, ops, src)


def _cased(m, how):
    return m if how == 0 else m.upper() if how == 1 else m.title()


def _gen_tables():
    for t in range(6):
        plug = "scipy" if t < 2 else "default"
        for how in range(3):
            ops = [[0, t, ["list"]]]
            for m in METHODS[t]:
                mm = _cased(m, how)
                ops += [[0, t, ["get", mm]], [0, t, ["sup", mm]], [0, t, ["get", _cased(plug, (how + 1) % 3) + "/" + mm]],
                        [0, t, ["sup", plug + "/" + mm]]]
                if t == 0:
                    ops += [[0, t, ["sup", "external/" + mm]], [0, t, ["get", "External/" + plug + "/" + mm]]]
            for k in range(0, len(ops), 40):
                yield _mk("E4-tables", 1, ops[k:k + 40])
    # the external optimizer's constructor, before and after registrations that must not matter to it
    pre = [[0, 0, ["add", "A", ["stub", "A"], True]], [1, 0, ["add", "d", ["stub", "D"], True]],
           [0, 0, ["add", "s2", ["builtin", 1], False]]]
    for with_pre in (False, True):
        ops = list(pre) if with_pre else []
        for m in FWD_SAFE:
            ops += [[0, 0, ["fwd", m]], [0, 0, ["sup", m]]]
        yield _mk("E4-forward", 2, ops)


def _gen_rejected(rng, n):
    """a rejected registration (plain / prioritised duplicate, in another casing, of a built-in or an added name) in
    the middle of a sequence; everything observable must be as if it had not happened."""
    for _ in range(n):
        t = rng.choice([0, 0, 0, 1, 2, 3, 4, 5])
        nm = rng.choice([1, 2])
        first = [_rand_add(rng, t, []) for _ in range(rng.randint(1, 3))]
        for a in first:
            if a[2][0] == "reuse":
                a[2] = ["stub", "A"]
        names = [a[1] for a in first] + [n_ for n_, _ in STD_INIT[t]]
        dup = rng.choice(names)
        dup = rng.choice([dup, dup.upper(), dup.lower(), dup.title()])
        rej = ["add", dup, ["stub", rng.choice("ABD")], rng.random() < 0.7]
        ops = [[0, t, a] for a in first] + [[0, t, rej]] + [[0, t, o] for o in _probe(rng, t, 9)]
        if nm == 2:
            ops += [[1, t, o] for o in _probe(rng, t, 3)]
        yield _mk("E7-rejected", nm, ops)


E8_REQ = ["slsqp", "SLSQP", "default", "a", "b", "B", "A/a", "a/b", "d/default", "scipy/slsqp", "external/slsqp",
          "external/a", "c/B", "x/Y", "/a", "zzz"]
E8_PRE = [[], [["add", "A", ["stub", "A"], False]], [["add", "d", ["stub", "D"], False]]]
E8_ADD = [["add", "a", ["stub", "B"], True], ["add", "A", ["stub", "A"], False], ["add", "D", ["stub", "D"], True],
          ["add", "N", ["stub", "N"], True], ["add", "SciPy", ["stub", "D"], True], ["add", "s2", ["builtin", 1], True],
          ["add", "c", ["stub", "C"], False], ["add", "", ["stub", "B"], True]]


def _gen_stale(quick, rng):
    """the same request (or listing) before and after a registration on the same manager, and on a second manager:
    anything remembered from the first answer shows in the second"""
    kinds = [("get", "get"), ("sup", "get"), ("sup", "sup"), ("list", "list")] + ([] if quick else [("get", "sup")])
    for m in E8_REQ:
        for pre in E8_PRE:
            for add in E8_ADD:
                for k1, k2 in kinds:
                    if k1 == "list" and m not in ("a", "slsqp"):
                        continue
                    o1 = ["list"] if k1 == "list" else [k1, m]
                    o2 = ["list"] if k2 == "list" else [k2, m]
                    other = rng.choice([0, 1])
                    ops = [[0, 0, o] for o in pre] + [[0, 0, o1], [other, 0, add], [0, 0, o2], [1, 0, o2]]
                    yield _mk("E8-stale", 2, ops)


def _gen_stale_types():
    """the same pattern for the other five plug-in types"""
    for t in range(1, 6):
        meth = TYPE_POOL[t][0]
        plug = "scipy" if t < 2 else "default"
        for m in (meth, "default", "D/" + meth, plug + "/" + meth.upper()):
            for pre in ([], [["add", "d", ["stub", "D"], False]]):
                for add in E8_ADD:
                    if add[2] == ["builtin", 1]:
                        add = ["add", "s2", ["builtin", TYPE_K[t]], True]
                    for k in ("get", "sup"):
                        ops = [[0, t, o] for o in pre] + [[0, t, [k, m]], [(t + len(m)) % 2, t, add], [0, t, [k, m]], [1, t, [k, m]]]
                        yield _mk("E8-stale", 2, ops)


# A plug-in object that is falsy (defines __len__/__bool__) was skipped by `if plugin and ...` in get_plugin: it could be
# discovered by a bare name but never addressed as 'name/method' (finding F19a, repaired in /repo by 1ccc340).
FALSY_STREAM = True


def _gen_falsy():
    for t in (0, 3):
        for prio in (False, True):
            for name in ("z", "Z"):
                ops = [[0, t, ["add", name, ["stub", "Z"], prio]], [0, t, ["list"]]]
                for m in ("z/a", "Z/A", "a", "z/zzz", "z/"):
                    ops += [[0, t, ["get", m]], [0, t, ["sup", m]]]
                ops += [[0, t, ["add", "Z", ["stub", "A"], True]], [1, t, ["sup", "z/a"]]]
                yield _mk("E9-falsy", 2, ops)


SHARED = ["default", "a", "b", "B", "slsqp", "mean", "uniform", "tracker", "optimizer", "sort-objective", "zzz"]


def _gen_shared_methods():
    """E10: the same bare (and qualified) method string asked of two DIFFERENT plug-in types of one manager, repeatedly
    and with no registration in between (a method name is shared by 'default' of three built-in types and by the stubs)"""
    pres = [lambda a, b: [],
            lambda a, b: [[0, a, ["add", "d", ["stub", "D"], False]]],
            lambda a, b: [[0, a, ["add", "A", ["stub", "A"], False]], [0, b, ["add", "B", ["stub", "B"], True]]],
            lambda a, b: [[0, b, ["add", "d", ["stub", "D"], True]], [0, a, ["add", "N", ["stub", "N"], True]]]]
    for m in SHARED:
        for t1 in range(6):
            for k in (1, 2):
                t2 = (t1 + k) % 6
                for pi, pre in enumerate(pres):
                    for kinds in (("get", "get", "get"), ("sup", "get", "sup")):
                        ops = pre(t1, t2) + [[0, t1, [kinds[0], m]], [0, t2, [kinds[1], m]], [0, t1, [kinds[2], m]]]
                        if pi == 1:
                            ops += [[0, t2, ["get", "d/" + m]], [0, t1, ["get", "D/" + m]]]
                        yield _mk("E10-shared-method", 1, ops)


def _gen_default_managers(rng, n):
    """E11: managers obtained through OptimizerContext / BasicOptimizer (default path) next to plain ones"""
    combos = [["ctx", "ctx"], ["basic", "basic"], ["ctx", "basic"], ["ctx", "pm"], ["basic", "ctx-explicit"],
              ["ctx", "ctx", "ctx"], ["basic", "ctx", "pm"]]
    alpha6 = [[i, 0, op] for i in (0, 1) for op in E6_OPS]
    for src in combos[:5]:
        for seq in _seqs(alpha6, 2):
            yield _mk("E11-default-managers", 2, seq, src)
    for _ in range(n):
        src = rng.choice(combos)
        nm = len(src)
        ops = []
        for _ in range(rng.randint(3, 8)):
            t = rng.choice([0, 0, 0, 1, 3, 5])
            r = rng.random()
            op = _rand_add(rng, t, []) if r < 0.4 else ["list"] if r < 0.5 else [rng.choice(["get", "sup"]), rng.choice(COMMON + TYPE_POOL[t])]
            ops.append([rng.randrange(nm), t, op])
        yield _mk("E11-default-managers", nm, ops, src)


def gen_cases(tier, rng):
    """all streams, then shuffled (seeded) so that the expensive long cases are spread evenly over the Coq shards"""
    cases = list(_gen_streams(tier, rng))
    rng.shuffle(cases)
    return cases


def _gen_streams(tier, rng):
    quick = tier == "quick"
    # E1
    maxlen = 3 if quick else 4
    alpha = ADD_COUPLED + E1_LOOKUPS
    for seq in _seqs(alpha, maxlen):
        if len(seq) > 2 and all(op[0] != "add" for op in seq):
            continue
        yield _mk("E1-exhaustive", 2, [[0, 0, op] for op in seq])
    # E6
    alpha6 = [[i, 0, op] for i in (0, 1) for op in E6_OPS]
    for seq in _seqs(alpha6, 3):
        yield _mk("E6-two-managers", 2, seq)
    # E2
    for seq in _seqs(E2_ADDS, 2 if quick else 3):
        yield _mk("E2-adds-probe", 1, [[0, 0, op] for op in seq] + [[0, 0, o] for o in _probe(rng, 0, 12)])
    for _ in range(300 if quick else 4000):
        seq = [rng.choice(E2_ADDS) for _ in range(rng.randint(3, 6))]
        yield _mk("E2-adds-probe", 1, [[0, 0, op] for op in seq] + [[0, 0, o] for o in _probe(rng, 0, 12)])
    # E4
    yield from _gen_tables()
    # E3 / E5
    yield from _gen_random(rng, "E3-cross-type", 450 if quick else 8000, 3, 12)
    yield from _gen_random(rng, "E5-one-type", 450 if quick else 8000, 1, 10)
    # E7
    yield from _gen_rejected(rng, 300 if quick else 5000)
    # E8
    yield from _gen_stale(quick, rng)
    yield from _gen_stale_types()
    if FALSY_STREAM:
        yield from _gen_falsy()
    # E10 / E11
    yield from _gen_shared_methods()
    yield from _gen_default_managers(rng, 150 if quick else 2500)


def _norm(case):
    """cases written before the finisher pass ({"type": t, "ops": [[manager, op]]}, name-coupled stubs) in today's format"""
    if "type" not in case:
        return case
    t = TYPES.index(case["type"])
    ops = []
    for i, op in case["ops"]:
        if op[0] == "add":
            ops.append([i, t, ["add", op[1], ["stub", op[1].upper()], bool(op[2])]])
        else:
            ops.append([i, t, list(op)])
    return {**{k: v for k, v in case.items() if k != "type"}, "stream": case.get("stream", "legacy"), "ops": ops}


# ---- driver ---------------------------------------------------------------------------------------------------
_LOG: list = []


def _make_stub(ptype, tag, pid):
    from ropt.plugins._manager import _PLUGIN_TYPES
    base = _PLUGIN_TYPES[ptype]
    methods, disc, exact = STUBS[tag]
    methods = frozenset(methods)

    class Stub(base):  # type: ignore[misc, valid-type]
        def __init__(self):
            self.pid = pid

        def create(self, *a, **k):
            return None

        if tag == "Z":
            def __len__(self):
                return 0

        def is_supported(self, method):
            _LOG.append([pid, method])
            return (method if exact else method.lower()) in methods

        @property
        def allows_discovery(self):
            return disc

    return Stub()


def _tails(m):
    out = [m]
    while "/" in m:
        m = m.split("/", 1)[1]
        out.append(m)
    return out


def _fwd(method):
    from ropt.config.enopt import EnOptConfig
    from ropt.exceptions import ConfigError
    from ropt.plugins.optimizer.external import ExternalOptimizerPlugin
    cfg = EnOptConfig.model_validate({"variables": {"initial_values": [0.0, 1.0]}, "optimizer": {"method": method}})
    try:
        ExternalOptimizerPlugin().create(cfg, lambda *a, **k: None)
    except ConfigError:
        return ["err"]
    except Exception as e:  # noqa: BLE001 - e.g. a stub leaked into the fresh manager: an answer the model never gives
        return ["other", type(e).__name__]
    return ["ok"]


def _no_evaluator(variables, context):  # never called
    raise NotImplementedError


def _make_manager(source):
    from ropt.plugins import PluginManager
    if source == "pm":
        return PluginManager()
    from ropt.plan import BasicOptimizer, OptimizerContext
    if source == "ctx":
        return OptimizerContext(evaluator=_no_evaluator).plugin_manager
    if source == "ctx-explicit":
        pm = PluginManager()
        if OptimizerContext(evaluator=_no_evaluator, plugin_manager=pm).plugin_manager is not pm:
            raise AssertionError("OptimizerContext does not use the manager it was given")
        return pm
    if source == "basic":
        bo = BasicOptimizer({"variables": {"initial_values": [0.0, 1.0]}}, _no_evaluator)
        return bo._optimizer_context.plugin_manager  # noqa: SLF001 - the only way to reach the default-path manager
    raise ValueError(source)


def _run(case):
    case = _norm(case)
    from ropt.exceptions import ConfigError
    from ropt.plugins import PluginManager
    if len(case["ops"]) > MAX_OPS:
        raise ValueError("sequence too long for the id scheme")
    fresh = PluginManager()
    init = [[[n, type(p).__name__] for n, p in fresh.plugins(t)] for t in TYPES]
    classes = {BUILTIN_K.get(type(p).__name__, UNKNOWN_K): p for t in TYPES for _, p in fresh.plugins(t)}
    mans = [_make_manager(x) for x in (case.get("sources") or ["pm"] * case["managers"])]
    if len(mans) != case["managers"]:
        raise ValueError("sources do not match the number of managers")
    made: dict = {}          # op index -> (object, id)
    ids: dict = {}           # id(object) -> id given by the driver
    keep = []

    def ident(p):
        if id(p) in ids:
            return ids[id(p)]
        return BUILTIN_K.get(type(p).__name__, UNKNOWN_K)

    answers, consult, strings = [], [], set()
    for idx, (i, ti, op) in enumerate(case["ops"]):
        pm, t = mans[i], TYPES[ti]
        del _LOG[:]
        try:
            if op[0] == "add":
                spec = op[2]
                if spec[0] == "reuse":
                    obj, pid = made[spec[1]]
                elif spec[0] == "stub":
                    pid = 100 + idx
                    obj = _make_stub(t, spec[1], pid)
                elif spec[0] == "alias":
                    pid = spec[1]
                    obj = classes[spec[1]]
                else:
                    pid = 50 + idx
                    obj = type(classes[spec[1]])()
                made[idx] = (obj, pid)
                if spec[0] != "alias":
                    ids[id(obj)] = pid
                keep.append(obj)
                del _LOG[:]
                pm.add_plugin(t, op[1], obj, prioritize=bool(op[3]))
                answers.append(["ok"])
            elif op[0] == "get":
                strings.update(_tails(op[1]))
                answers.append(["plug", ident(pm.get_plugin(t, op[1]))])
            elif op[0] == "sup":
                strings.update(_tails(op[1]))
                r = pm.is_supported(t, op[1])
                answers.append(["bool", bool(r)] if isinstance(r, bool) else ["other", repr(r)])
            elif op[0] == "list":
                answers.append(["list", [[n, ident(p)] for n, p in pm.plugins(t)]])
            elif op[0] == "fwd":
                strings.update(_tails(op[1]))
                answers.append(_fwd(op[1]))
            else:
                raise ValueError(op[0])
        except ConfigError:
            answers.append(["err"])
        consult.append([list(e) for e in _LOG])
    final = [[[[n, ident(p)] for n, p in pm.plugins(t)] for t in TYPES] for pm in mans]
    after = [[[n, ident(p)] for n, p in PluginManager().plugins(t)] for t in TYPES]
    # what the built-in plug-ins themselves say about every (sub)request of the case (external excluded: the oracle
    # reads it from the property text)
    says = {str(k): {s: bool(p.is_supported(s)) for s in sorted(strings)} for k, p in classes.items() if k != 0}
    return {"init": init, "answers": answers, "consult": consult, "final": final, "fresh_after": after, "says": says}


# Process-wide state (class attributes, module-level caches) makes an answer depend on what OTHER cases did earlier in
# the same worker process.  So that every reported input reproduces on its own: the first case of each clause that a
# worker sees failing is run again in a fresh interpreter; if it fails there too, that observation is used; if it does
# not, the failure needs the history, and the observation carries the cases the worker ran before (the runner's shrink
# step then builds a composite case `history + ops`, which is always run in a fresh interpreter).
_HISTORY: list = []
_RERUN_DONE: set = set()
_STATE = {"contaminated": False, "budget": 400}
_VERIFY_ALL = False       # set by shrink(): while shrinking (parent process) EVERY failing candidate is confirmed in a fresh interpreter
_HIST: dict = {}
HISTORY_KEEP = 40
PROCESS_CLAUSE = "isolation: process-wide state (the answers depend on what other managers did earlier in this process)"

_CHILD = """
import json, os, sys
sys.path.insert(0, %r)
from common import use_repo_sources
use_repo_sources()
import importlib
m = importlib.import_module("props.C19")
import ropt.plugins, ropt.plugins.optimizer.external, ropt.config.enopt      # imported, never run: this process stays fresh
import importlib.metadata as md
for ep in md.entry_points():           # warm the stdlib's metadata caches and import (not instantiate) the plug-in classes
    if ep.group.startswith("ropt.plugins."):
        ep.load()

def serve(case):
    for h in case.get("history") or []:
        try:
            m._run(h)
        except BaseException:
            pass
    return m._run(case)

while True:
    line = sys.stdin.readline()
    if not line:
        break
    case = json.loads(line)
    r, w = os.pipe()
    pid = os.fork()
    if pid == 0:                       # every request is answered by a fork of the fresh process
        os.close(r)
        try:
            out = json.dumps(serve(case))
        except BaseException as e:
            out = json.dumps({"pristine_error": type(e).__name__, "message": str(e)[:300]})
        with os.fdopen(w, "w") as f:
            f.write(out)
        os._exit(0)
    os.close(w)
    with os.fdopen(r) as f:
        data = f.read()
    os.waitpid(pid, 0)
    sys.stdout.write(data.replace("\\n", " ") + "\\n")
    sys.stdout.flush()
"""
_ZYGOTE: dict = {}


def _pristine(case):
    """the observation of `case` (after its `history`, if any) in a process in which no ropt code has run before"""
    import json
    import os
    import subprocess
    import sys
    z = _ZYGOTE.get(os.getpid())
    if z is None or z.poll() is not None:
        here = os.path.dirname(os.path.dirname(os.path.abspath(__file__)))
        z = subprocess.Popen([sys.executable, "-c", _CHILD % here], stdin=subprocess.PIPE, stdout=subprocess.PIPE,
                             text=True, bufsize=1)
        _ZYGOTE.clear()
        _ZYGOTE[os.getpid()] = z
    z.stdin.write(json.dumps(case) + "\n")
    z.stdin.flush()
    line = z.stdout.readline()
    if not line:
        raise RuntimeError("fresh-interpreter run failed (no answer)")
    obs = json.loads(line)
    if "pristine_error" in obs:
        raise RuntimeError(f"fresh-interpreter run failed: {obs['pristine_error']}: {obs.get('message')}")
    return obs


def _key(case):
    import json
    return json.dumps([case["managers"], case["ops"], case.get("sources")], sort_keys=True)


def run_impl(case):
    case = _norm(case)
    if case.get("history") is not None:
        return _pristine(case)
    obs = _run(case)
    hist = list(_HISTORY[-HISTORY_KEEP:])
    _HISTORY.append({k: case[k] for k in ("managers", "ops", "sources") if k in case})
    try:
        v = _oracle(case, obs)
    except Exception:  # noqa: BLE001
        v = None
    if v is None:
        return obs
    if _VERIFY_ALL or v["clause"] not in _RERUN_DONE or (_STATE["contaminated"] and _STATE["budget"] > 0):
        _RERUN_DONE.add(v["clause"])
        _STATE["budget"] -= 1
        obs2 = _pristine(case)
        v2 = _oracle(case, obs2)
        if v2 is None or v2["clause"] != v["clause"]:
            _STATE["contaminated"] = True       # this process no longer behaves like a fresh one
        if v2 is not None:
            return obs2
        obs["history_dependent"] = True
        obs["history"] = hist
    elif _STATE["contaminated"]:
        # not confirmed in a fresh interpreter (budget used up): never reported as a self-contained input
        obs["history_dependent"] = True
        obs["history"] = hist
    return obs


# ---- Gallina printing -----------------------------------------------------------------------------------------
# Elaborating string / number literals dominates the cost of a shard, so every string of the pools and every id is
# defined once in the shard header and the cases refer to them by name (anything else is printed as a literal).
def _all_strings():
    out = set(COMMON) | set(ADD_NAMES) | set(FWD_SAFE) | set(SHADOW)
    for pool in TYPE_POOL:
        out |= set(pool)
    for ms, _, _ in STUBS.values():
        out |= set(ms)
    for op in ADD_COUPLED + E1_LOOKUPS + E6_OPS + E2_ADDS:
        out.add(op[1])
    for c in itertools.chain(_gen_tables(), _gen_stale_types(), _gen_falsy(), _gen_shared_methods()):
        out |= {op[1] for _, _, op in c["ops"] if len(op) > 1}
    names = set(ADD_NAMES) | {n for reg in STD_INIT for n, _ in reg}
    for n in names:
        out |= {n, n.upper(), n.lower(), n.title()}
    for s_ in list(out):
        out |= set(_tails(s_))
    return sorted(out)


_SID = {s_: f"s_{k}" for k, s_ in enumerate(_all_strings())}
_NMAX = 160


def _S(text):
    return _SID.get(text) or cq.s(text)


def _N(n):
    return f"k_{int(n)}" if 0 <= int(n) <= _NMAX else cq.nat(n)


def _header():
    lines = ["From Ropt Require Import Model.Registry Gen.Generated."]
    lines += [f"Definition {name} : string := {cq.s(text)}." for text, name in _SID.items()]
    lines += [f"Definition k_{n} : nat := {n}%nat." for n in range(_NMAX + 1)]
    for tag, (methods, disc, exact) in STUBS.items():
        lines.append(f"Definition st_{tag} (id : nat) : plugin := {'exa' if exact else 'tbl'} id "
                     f"{cq.lst(_S(m) for m in methods)} {cq.b(disc)}.")
    return "\n".join(lines)


HEADER = _header()


def _resolve(ops, idx):
    """(spec, id) of the plug-in object registered by add operation idx."""
    spec = ops[idx][2][2]
    if spec[0] == "reuse":
        return _resolve(ops, spec[1])
    if spec[0] == "alias":
        return ["builtin", spec[1]], spec[1]
    return spec, (100 if spec[0] == "stub" else 50) + idx


def _plugin_term(spec, pid):
    if spec[0] == "stub":
        return f"(st_{spec[1]} {_N(pid)})"
    return f"(B {_N(spec[1])} {_N(pid)})"


def _op_term(ops, idx):
    i, t, op = ops[idx]
    if op[0] == "add":
        spec, pid = _resolve(ops, idx)
        return f"oA {_N(i)} {_N(t)} {_S(op[1])} {_plugin_term(spec, pid)} {cq.b(op[3])}"
    if op[0] == "get":
        return f"oG {_N(i)} {_N(t)} {_S(op[1])}"
    if op[0] == "sup":
        return f"oS {_N(i)} {_N(t)} {_S(op[1])}"
    if op[0] == "list":
        return f"oL {_N(i)} {_N(t)}"
    return f"oF {_N(i)} {_N(t)} {_S(op[1])}"


def _listing_term(l):
    return "LP " + cq.lst(f"P {_S(n)} {_N(i)}" for n, i in l)


def _ans_term(a):
    if a[0] == "ok":
        return "AOk"
    if a[0] == "err":
        return "AErr"
    if a[0] == "plug":
        return f"APlug {_N(a[1])}"
    if a[0] == "bool":
        return f"ABool {cq.b(a[1])}"
    if a[0] == "list":
        return f"AList ({_listing_term(a[1])})"
    return "APlug k_98"


def _std_listing():
    return [[[n, BUILTIN_K[c]] for n, c in reg] for reg in STD_INIT]


def coq_case(case, obs):
    case = _norm(case)
    if obs["init"] == STD_INIT:
        init = "std_init"
    else:
        init = cq.lst(cq.lst(f"({_S(n)}, B {_N(BUILTIN_K.get(c, UNKNOWN_K))} {_N(BUILTIN_K.get(c, UNKNOWN_K))})"
                             for n, c in reg) for reg in obs["init"])
    after = "std_listing" if obs["fresh_after"] == _std_listing() else cq.lst(_listing_term(l) for l in obs["fresh_after"])
    ops = case["ops"]
    ops_t = cq.lst(_op_term(ops, k) for k in range(len(ops)))
    ans = cq.lst(_ans_term(a) for a in obs["answers"])
    cons = cq.lst("LK " + cq.lst(f"K {_N(i)} {_S(m)}" for i, m in c) for c in obs["consult"])
    final = cq.lst("std_listing" if man == _std_listing() else cq.lst(_listing_term(l) for l in man) for man in obs["final"])
    return f"(Build_case {init} {after} {_N(case['managers'])} {ops_t} {ans} {cons} {final})"


# ---- the property text, read independently of the model ------------------------------------------------------
class _Ref:
    """Plain reading of the property: ordered name -> plug-in lists per manager and type; what a plug-in supports is
    what the plug-in itself says (stubs: their table; built-ins: `says`, observed by asking the plug-in directly;
    external: whatever a fresh manager resolves)."""

    def __init__(self, case, obs):
        self.says = obs["says"]
        self.desc = {}
        self.init = []
        for reg in obs["init"]:
            row = []
            for n, c in reg:
                k = BUILTIN_K.get(c, UNKNOWN_K)
                self.desc[k] = ("builtin", k)
                row.append((n, k))
            self.init.append(row)
        self.state = [[list(r) for r in self.init] for _ in range(case["managers"])]

    def disc(self, pid):
        kind, x = self.desc[pid]
        return STUBS[x][1] if kind == "stub" else x != 0

    def supp(self, pid, m):
        kind, x = self.desc[pid]
        if kind == "stub":
            methods, _, exact = STUBS[x]
            return (m if exact else m.lower()) in methods
        if x == 0:
            return self.lookup(self.init[0], m) is not None
        return bool(self.says.get(str(x), {}).get(m, False))

    def lookup(self, reg, m):
        if "/" in m:
            head, tail = m.split("/", 1)
            for n, pid in reg:
                if n == head.lower():
                    return pid if self.supp(pid, tail) else None
            return None
        for _, pid in reg:
            if self.disc(pid) and self.supp(pid, m):
                return pid
        return None


def oracle(case, obs):
    """The property's own clauses evaluated on the implementation's answers (no model)."""
    case = _norm(case)
    v = _oracle(case, obs)
    if v is not None and obs.get("history_dependent"):
        _HIST[_key(case)] = obs.get("history") or []
    if v is not None and (obs.get("history_dependent") or case.get("history")):
        return {"clause": PROCESS_CLAUSE, "detail": {"underlying": v, "history_cases": len(case.get("history") or obs.get("history") or [])}}
    return v


def _oracle(case, obs):
    ref = _Ref(case, obs)
    std = [[[n, k] for n, k in reg] for reg in ref.init]
    if obs["fresh_after"] != std:
        return {"clause": "isolation", "detail": "a fresh manager created after the run differs from one created before"}
    ops = case["ops"]
    for idx, ((i, t, op), a, seen) in enumerate(zip(ops, obs["answers"], obs["consult"])):
        reg = ref.state[i][t]
        here = {pid for _, pid in reg}
        if op[0] == "add":
            spec, pid = _resolve(ops, idx)
            ref.desc[pid] = (spec[0], spec[1])
            low = op[1].lower()
            if any(n == low for n, _ in reg):
                if a != ["err"]:
                    return {"clause": "duplicate-rejected", "detail": [idx, i, t, op, a]}
            else:
                if a != ["ok"]:
                    return {"clause": "registration-accepted", "detail": [idx, i, t, op, a]}
                if op[3]:
                    reg.insert(0, (low, pid))
                else:
                    reg.append((low, pid))
            continue
        if op[0] == "list":
            if a != ["list", [[n, p] for n, p in reg]]:
                return {"clause": "lookup-order-or-isolation", "detail": {"op": idx, "expected": reg, "got": a}}
            continue
        if op[0] == "fwd":
            want = ["ok"] if ref.lookup(ref.init[0], op[1].split("/", 1)[1]) is not None else ["err"]
            if a != want:
                return {"clause": "external-forwarding (fresh manager must not see registrations)", "detail": [idx, op, a, want]}
            if seen:
                return {"clause": "isolation: the external optimizer consulted a registered stub", "detail": [idx, op, seen]}
            continue
        m = op[1]
        qualified = "/" in m
        want = ref.lookup(reg, m)
        # which plug-ins were asked
        if qualified:
            head, tail = m.split("/", 1)
            named = next((pid for n, pid in reg if n == head.lower()), None)
            for pid, arg in seen:
                if pid != named or arg != tail:
                    return {"clause": "qualified-consults-other-plugin", "detail": [idx, i, t, op, seen]}
        else:
            named = None
            for pid, arg in seen:
                if pid not in here:
                    return {"clause": "isolation: a plug-in that is not registered in this manager and type was consulted",
                            "detail": [idx, i, t, op, seen]}
                if arg != m:
                    return {"clause": "method-not-passed-verbatim", "detail": [idx, i, t, op, seen]}
        if op[0] == "get":
            if a[0] == "plug":
                if a[1] not in here:
                    return {"clause": "isolation: lookup returned a plug-in that is not registered in this manager and type",
                            "detail": [idx, i, t, op, a]}
                if not qualified and not ref.disc(a[1]):
                    return {"clause": "undiscoverable-returned-for-bare-name", "detail": [idx, i, t, op, a]}
                if qualified and a[1] != named:
                    return {"clause": "qualified-consults-other-plugin", "detail": [idx, i, t, op, a]}
                if want is None:
                    return {"clause": "unsupported-request-did-not-raise-ConfigError", "detail": [idx, i, t, op, a]}
                if want != a[1]:
                    return {"clause": "bare-name-not-first-discoverable-in-lookup-order", "detail": [idx, i, t, op, a, want]}
            elif a == ["err"]:
                if want is not None:
                    return {"clause": "supported-request-raised-ConfigError", "detail": [idx, i, t, op, a, want]}
            else:
                return {"clause": "get_plugin-unexpected-answer", "detail": [idx, op, a]}
        else:
            if a[0] != "bool":
                return {"clause": "is_supported-not-bool", "detail": [idx, i, t, op, a]}
            if a[1] != (want is not None):
                return {"clause": "is_supported-iff-get", "detail": [idx, i, t, op, a, want]}
    got = [[[(n, p) for n, p in l] for l in man] for man in obs["final"]]
    if got != ref.state:
        return {"clause": "lookup-order-or-isolation", "detail": {"expected": ref.state, "got": obs["final"]}}
    return None


# ---- evidence --------------------------------------------------------------------------------------------------
def nontrivial(case, obs):
    case = _norm(case)
    if case.get("stream", "").startswith("E4"):
        return True
    added = False
    for (i, t, op), a in zip(case["ops"], obs["answers"]):
        if op[0] == "add" and a == ["ok"]:
            added = True
        elif op[0] != "add" and added:
            return True
    return False


def features(case, obs):
    case = _norm(case)
    ops = case["ops"]
    kinds = [a[0] for a in obs["answers"]]
    n = len(ops)
    f = {"stream": case.get("stream", "corpus"), "managers": case["managers"],
         "manager_sources": "+".join(sorted(set(case.get("sources") or ["pm"]))),
         "len": n if n <= 4 else "5-8" if n <= 8 else "9-16" if n <= 16 else "17+",
         "errors": min(3, kinds.count("err")),
         "types_in_case": len({t for _, t, _ in ops}),
         "managers_addressed": len({i for i, _, _ in ops})}
    for t in sorted({t for _, t, _ in ops}):
        f[f"type_{TYPES[t]}"] = True
    lookups = [op[1] for _, _, op in ops if op[0] in ("get", "sup")]
    f["has_multi_slash"] = any(m.count("/") > 1 for m in lookups)
    f["has_empty_part"] = any(m == "" or m.startswith("/") or m.endswith("/") or "//" in m for m in lookups)
    f["has_external_request"] = any(m.lower().startswith("external/") for m in lookups)
    f["has_bare_default"] = "default" in lookups
    f["has_fwd"] = any(op[0] == "fwd" for _, _, op in ops)
    f["has_list"] = any(op[0] == "list" for _, _, op in ops)
    f["has_case_sensitive_stub"] = any(op[0] == "add" and op[2] == ["stub", "C"] for _, _, op in ops)
    f["has_builtin_instance"] = any(op[0] == "add" and op[2][0] == "builtin" for _, _, op in ops)
    f["has_reused_object"] = any(op[0] == "add" and op[2][0] in ("reuse", "alias") for _, _, op in ops)
    rej = [(op, a) for (_, _, op), a in zip(ops, obs["answers"]) if op[0] == "add" and a == ["err"]]
    f["rejected_adds"] = min(3, len(rej))
    f["rejected_prioritised"] = any(op[3] for op, _ in rej)
    return f


def known_signature(case, obs, violation):
    return None


def _drop(case, k):
    """the case without operation k (re-used objects re-pointed)"""
    ops = [[i, t, [x if not isinstance(x, list) else list(x) for x in op]] for i, t, op in case["ops"]]
    gone = ops[k][2]
    out = []
    for j, (i, t, op) in enumerate(ops):
        if j == k:
            continue
        if op[0] == "add" and op[2][0] == "reuse":
            if op[2][1] == k:
                if gone[0] != "add":
                    return None
                op[2] = list(gone[2])
            elif op[2][1] > k:
                op[2] = ["reuse", op[2][1] - 1]
        out.append([i, t, op])
    for j, (i, t, op) in enumerate(out):
        if op[0] == "add" and op[2][0] == "reuse" and (op[2][1] >= j or out[op[2][1]][2][0] != "add"):
            return None
    return {**case, "ops": out}


def shrink(case):
    global _VERIFY_ALL
    _VERIFY_ALL = True
    case = _norm(case)
    hist = case.get("history")
    if hist is None and _key(case) in _HIST:
        # fails only after what this worker process ran before: make that history part of the input
        yield {**case, "history": _HIST[_key(case)]}
        return
    if hist is not None:
        n, k = len(hist), 1
        while k < n:
            yield {**case, "history": hist[-k:]}
            k *= 2
        if 1 < n <= 6:
            for j in range(n):
                yield {**case, "history": hist[:j] + hist[j + 1:]}
        return
    n = len(case["ops"])
    if n > 6 and not any(op[0] == "add" and op[2][0] == "reuse" for _, _, op in case["ops"]):
        yield {**case, "ops": case["ops"][: n // 2]}
        yield {**case, "ops": case["ops"][n // 2:]}
    for k in range(n):
        c = _drop(case, k)
        if c is not None:
            yield c
    if case["managers"] > 1 and all(i < case["managers"] - 1 for i, _, _ in case["ops"]):
        c = {**case, "managers": case["managers"] - 1}
        if case.get("sources"):
            c["sources"] = case["sources"][:-1]
        yield c
    if case.get("sources") and any(x != "pm" for x in case["sources"]):
        yield {k: v for k, v in case.items() if k != "sources"}


def search(rng, case):
    if case is None:
        yield from itertools.islice(gen_cases("quick", rng), 0, 1500)
        return
    case = _norm(case)
    yield from shrink(case)
    ops = case["ops"]
    ts = sorted({t for _, t, _ in ops}) or [0]
    for _ in range(300):
        extra = []
        for _ in range(2):
            t = rng.choice(ts)
            m = rng.choice(COMMON + TYPE_POOL[t])
            op = rng.choice([["get", m], ["sup", m], ["list"], _rand_add(rng, t, [])])
            extra.append([rng.randrange(case["managers"]), t, op])
        if len(ops) + 2 <= MAX_OPS:
            yield {**case, "ops": ops + extra}


MANIFEST = {
    "level_text": ("Machine-checked Coq proof, for every operation sequence, registry, manager and universe of managers, that the "
                   "executable model of PluginManager (Model/Registry.v: Python-dict operations of add_plugin, lower-casing at "
                   "add and at lookup, split at the first slash, one registry per plug-in type, the external plug-in's recursion "
                   "into a fresh manager) keeps names distinct and lower-case, rejects duplicates up to case (also prioritised) "
                   "exactly then and without any change of content or order, orders lookups prioritised-first, resolves "
                   "'plugin/method' only through the named plug-in for every casing (frame + consultation trace), returns for a "
                   "bare name the first discoverable supporting plug-in (never a non-discoverable one), has is_supported <=> "
                   "get_plugin succeeds in every reachable state of every manager and type together with an order-independent "
                   "declarative characterisation, makes every rejected operation and every lookup an erasable no-op, and isolates "
                   "managers and plug-in types over whole interleaved sequences (each component answers as if run alone); the "
                   "model is tied to the code on every run by an in-Coq correspondence over all operation sequences up to length "
                   "3 (quick) / 4 (thorough) and structured/sampled longer ones on real PluginManager objects of every plug-in "
                   "type (stub plug-ins incl. a case-sensitive and a falsy one, real built-in instances, re-used objects), with the built-in method tables regenerated from source."),
    "level_note": ("Trusted: Coq kernel + VM; the translator copying the built-in method tables; the Python driver that runs the real "
                   "PluginManager and prints answers as Gallina literals; stub plug-ins are table-driven; entry-point order is observed; "
                   "str.lower is modelled on printable ASCII only (non-ASCII names are outside the model); KeyError for an unknown "
                   "plug-in type is modelled (ABad) but not driven.  The fuel of the external plug-in's recursion is proved irrelevant "
                   "(C19_fuel_irrelevant) under the checked hypothesis that external plug-ins are not discoverable.  "
                   "Finding F19a (a falsy plug-in object could not be requested by its name) is repaired in /repo (1ccc340) and is re-checked on every run "
                   "(stream E9, corpus); reverting the repair is detected.  "
                   "All theorems print 'Closed under the global context'."),
    "technique": "Coq proof (induction over operation sequences on an executable Gallina model, generic indexed-family lemmas for isolation) + in-Coq differential correspondence with the real PluginManager + independent Python reading of the property text",
    "design_ref": "DESIGN.md section 4, C19",
}
