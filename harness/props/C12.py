"""C12 -- the tracked best result is the feasible optimum over the whole history.

Correspondence: synthetic FunctionResults / GradientResults objects (user-domain object paired with its
optimizer-domain version) are pushed through a real Plan holding real DefaultTrackerHandler objects via
Plan.emit_event, interleaved with Plan.set resets; Plan.get(tracker, "results") is read after every
operation and the identity of the retained object is compared inside Coq with Model/Tracker.v (ties
accepted for 'best', exact for 'last').  Real optimizations (several optimizer steps in one plan, and
BasicOptimizer) are recorded through observers and fed to the same checker.
"""
from __future__ import annotations

import itertools
import math

import coqio as cq

ID = "C12"
THEOREM_FILE = "Props/C12.v"
CHK_MODULE = "Check.Chk_C12"
CASE_TYPE = "Chk_C12.case"
CHECK_FN = "Chk_C12.check_case"
HEADER = "From Ropt Require Import Model.Tracker."
SHARD_SIZE = 220
PARALLEL = True
CASE_TIMEOUT = 120
EXHAUSTIVE = {"quick": True, "thorough": True}

TOL = 1e-10
RULE = ("exhaustive: every history of <= 2 (quick) / <= 3 (thorough) single-result FINISHED_EVALUATION events over a 22-letter "
        "alphabet (function result with optimizer-domain objective NaN/1/2/3 or without functions x feasible/violating 2e-10 x "
        "tracked/other source; gradient result x tracked/other source), each with an identity and a sign-flipping objective "
        "transform, observed by four trackers (best/last x tolerance None/1e-10) after every event; quick adds a seeded sample of "
        "length-3 histories; plus sampled histories of <= 40 operations (1-3 results per event, ties, NaN, violations at/below/above "
        "the tolerance in bound/linear/non-linear arrays, three sources, other event types, events without results or without "
        "transformed_results, Plan.set resets/replacements, four objective transforms, user-domain violations scaled); plus real "
        "optimizations (slsqp, l-bfgs-b, nelder-mead, differential_evolution with NaN injections and realization_min_success=0, "
        "maximisation transform, non-linear constraint) run as several optimizer steps of one plan with trackers on subsets of "
        "the steps, and through BasicOptimizer.  Non-trivial = some tracker ends up holding a result and at least two results "
        "were delivered; distinct = distinct case dictionaries.")
ASSUMPTIONS = [
    "a Results object is seen by the tracker only through isinstance(FunctionResults), .functions is None, "
    ".functions.weighted_objective and .constraint_info.{bound,linear,nonlinear}_violation (read back from the real objects by the driver)",
    "object identity of delivered results is represented by their delivery index; every delivered object is distinct",
    "violations are never NaN (the driver stops with an error if one is); results placed with Plan.set are function results with a finite objective",
]
TRUSTED = ["the observers used to record the event stream of real optimizations (OptimizerContext.add_observer, "
           "BasicOptimizer.set_results_callback) deliver the same tuples the handlers received"]

# ---- alphabets ------------------------------------------------------------------------------------
EX_HANDLERS = [["best", None, [0]], ["best", TOL, [0]], ["last", None, [0]], ["last", TOL, [0]]]
_FEAS = [[0.0], None, None]
_INFEAS = [[2e-10], None, None]
LETTERS = []
for _src in (0, 1):
    for _v in (_FEAS, _INFEAS):
        for _o in (float("nan"), 1.0, 2.0, 3.0):
            LETTERS.append((_src, ["F", True, _o, _v]))
        LETTERS.append((_src, ["F", False, 0.0, _v]))
    LETTERS.append((_src, ["G"]))
assert len(LETTERS) == 22

TRANSFORMS = {"id": (1.0, 0.0), "neg": (-1.0, 0.0), "aff": (2.0, 1.0), "negaff": (-0.5, 3.0)}
OBJ_POOL = [-2.0, -1.0, -0.5, 0.0, 0.5, 1.0, 1.0, 2.0, 2.0, 3.0, float("nan"), float("nan")]
VIOL_POOL = [0.0, 0.0, 0.0, 5e-11, 1e-10, 2e-10, 0.25, 0.5, 1.0]
TOL_POOL = [None, TOL, TOL, 0.0, 0.5]
SRC_POOL = [[0], [0, 1], [1, 2], [0, 1, 2], []]
OTHER_TYPES = ["START_EVALUATION", "START_OPTIMIZER_STEP", "FINISHED_OPTIMIZER_STEP", "FINISHED_EVALUATOR_STEP"]
METHODS = ["slsqp", "l-bfgs-b", "nelder-mead", "differential_evolution"]


def _ex_case(seq, transform):
    ops = [["emit", "FINISHED_EVALUATION", LETTERS[a][0], True, True, [LETTERS[a][1]]] for a in seq]
    return {"kind": "syn", "transform": transform, "vscale": 1.0, "handlers": EX_HANDLERS, "ops": ops}


def _rand_viol(rng):
    if rng.random() < 0.2:
        return None
    out = []
    for _ in range(3):
        if rng.random() < 0.5:
            out.append(None)
        else:
            out.append([rng.choice(VIOL_POOL) for _ in range(rng.randint(1, 2))])
    return out


def _rand_item(rng, wide):
    r = rng.random()
    if r < 0.2:
        return ["G"]
    obj = rng.choice(OBJ_POOL)
    if wide and rng.random() < 0.3:
        obj = rng.uniform(-3, 3)
    return ["F", rng.random() >= 0.07, obj, _rand_viol(rng)]


def _rand_history(rng, maxlen):
    wide = rng.random() < 0.15
    handlers = [[rng.choice(["best", "best", "last"]), rng.choice(TOL_POOL), rng.choice(SRC_POOL)] for _ in range(4)]
    handlers[0][0] = "best"
    ops = []
    for _ in range(rng.randint(1, maxlen)):
        r = rng.random()
        if r < 0.04:
            if rng.random() < 0.5:
                ops.append(["put", None])
            else:
                obj = rng.choice([o for o in OBJ_POOL if not math.isnan(o)])
                ops.append(["put", ["F", True, obj, _rand_viol(rng)]])
            continue
        items = [_rand_item(rng, wide) for _ in range(rng.choice([1, 1, 2, 2, 3]))]
        src = rng.randrange(3)
        if r < 0.09:
            ops.append(["emit", rng.choice(OTHER_TYPES), src, True, True, items])
        elif r < 0.14:
            ops.append(["emit", "FINISHED_EVALUATION", src, False, False, []])
        elif r < 0.20:
            ops.append(["emit", "FINISHED_EVALUATION", src, True, False, items])
        else:
            ops.append(["emit", "FINISHED_EVALUATION", src, True, True, items])
    return {"kind": "syn", "transform": rng.choice(list(TRANSFORMS)), "vscale": rng.choice([1.0, 1.0, 4.0, 0.25]),
            "handlers": handlers, "ops": ops}


def _rand_plan(rng, basic):
    def one_step():
        method = rng.choice(METHODS)
        s = {"method": method, "maximize": rng.random() < 0.5,
             "constraint": method in ("slsqp", "differential_evolution") and rng.random() < 0.7,
             "con_upper": rng.choice([0.0, 0.125, 0.25]),
             "target": [rng.choice([0.25, 0.5, 0.75]), rng.choice([-0.5, -0.25, 0.25])],
             "start": [rng.choice([-0.5, 0.0, 0.5]), rng.choice([-0.5, 0.0, 0.5])],
             "seed": rng.randrange(1, 1000), "max_functions": rng.choice([6, 10, 16]),
             "nan_calls": [], "parallel": False}
        if method == "differential_evolution":
            s["max_functions"] = rng.choice([20, 40])
            s["parallel"] = rng.random() < 0.5
            s["nan_calls"] = sorted({1} | {rng.randrange(2, 12) for _ in range(rng.randint(0, 3))}) if rng.random() < 0.8 else []
        elif rng.random() < 0.4:
            s["nan_calls"] = [rng.randrange(2, 6)]
        return s
    if basic:
        return {"kind": "basic", "steps": [one_step()], "handlers": [["best", rng.choice([TOL, TOL, 1e-3, 0.25]), [0]]]}
    steps = [one_step() for _ in range(rng.choice([1, 2, 2, 3]))]
    n = len(steps)
    subsets = [list(c) for k in range(1, n + 1) for c in itertools.combinations(range(n), k)]
    handlers = [["best", TOL, list(range(n))], ["last", TOL, list(range(n))]]
    for _ in range(3):
        handlers.append([rng.choice(["best", "best", "last"]), rng.choice([None, TOL, 1e-3, 0.25]), rng.choice(subsets)])
    return {"kind": "plan", "steps": steps, "handlers": handlers}


def gen_cases(tier, rng):
    maxlen = 2 if tier == "quick" else 3
    light, heavy = [], []
    for L in range(1, maxlen + 1):
        for seq in itertools.product(range(len(LETTERS)), repeat=L):
            for tr in ("id", "neg"):
                light.append(_ex_case(seq, tr))
    if tier == "quick":
        for _ in range(1500):
            light.append(_ex_case([rng.randrange(len(LETTERS)) for _ in range(3)], rng.choice(["id", "neg"])))
    for _ in range(600 if tier == "quick" else 12000):
        heavy.append(_rand_history(rng, 12))
    for _ in range(200 if tier == "quick" else 3000):
        heavy.append(_rand_history(rng, 40))
    for _ in range(8 if tier == "quick" else 80):
        heavy.append(_rand_plan(rng, basic=False))
    for _ in range(8 if tier == "quick" else 80):
        heavy.append(_rand_plan(rng, basic=True))
    # spread the long histories evenly over the shards (the Coq side is bound by the size of the literal)
    rng.shuffle(heavy)
    every = max(1, len(light) // max(1, len(heavy)))
    k = 0
    for n, c in enumerate(light):
        yield c
        if n % every == every - 1 and k < len(heavy):
            yield heavy[k]
            k += 1
    yield from heavy[k:]


# ---- driver: the real code ------------------------------------------------------------------------
def _facet(r):
    import numpy as np
    from ropt.results import FunctionResults
    isfun = isinstance(r, FunctionResults)
    hasf = bool(isfun and r.functions is not None)
    obj = float(r.functions.weighted_objective) if hasf else None
    viol = None
    if isfun and r.constraint_info is not None:
        ci = r.constraint_info
        viol = []
        for v in (ci.bound_violation, ci.linear_violation, ci.nonlinear_violation):
            if v is None:
                viol.append(None)
            else:
                arr = [float(x) for x in np.atleast_1d(v).ravel()]
                if any(math.isnan(x) or math.isinf(x) for x in arr):
                    raise RuntimeError("non-finite violation reported: outside the modelled domain")
                viol.append(arr)
    return {"isfun": isfun, "hasf": hasf, "obj": obj, "viol": viol}


class _Ident:
    """Object identity -> delivery index (2000 + index for the transformed partner, 4999 unknown)."""

    def __init__(self):
        self.users, self.partners = [], []

    def add(self, user, partner):
        self.users.append(user)
        self.partners.append(partner)
        return len(self.users) - 1

    def of(self, held):
        if held is None:
            return None
        for k, o in enumerate(self.users):
            if o is held:
                return k
        for k, o in enumerate(self.partners):
            if o is held:
                return 2000 + k
        return 4999


def _mk_function(tag, hasf, obj, viol):
    import numpy as np
    from ropt.results import ConstraintInfo, FunctionEvaluations, FunctionResults, Functions, Realizations
    ci = None
    if viol is not None:
        kw = {}
        for name, v in zip(("bound", "linear", "nonlinear"), viol):
            if v is not None:
                kw[name + "_lower"] = -np.array(v, dtype=np.float64)
                kw[name + "_upper"] = np.full(len(v), -1.0)
        ci = ConstraintInfo(**kw)
    return FunctionResults(
        batch_id=tag, metadata={},
        evaluations=FunctionEvaluations.create(variables=np.array([float(tag)]), objectives=np.array([[0.0]])),
        realizations=Realizations(failed_realizations=np.array([False])),
        functions=Functions.create(weighted_objective=np.array(obj), objectives=np.array([obj])) if hasf else None,
        constraint_info=ci)


def _mk_gradient(tag):
    import numpy as np
    from ropt.results import GradientEvaluations, GradientResults, Realizations
    return GradientResults(
        batch_id=tag, metadata={},
        evaluations=GradientEvaluations.create(variables=np.array([0.0]), perturbed_variables=np.zeros((1, 1, 1)),
                                               perturbed_objectives=np.zeros((1, 1, 1))),
        realizations=Realizations(failed_realizations=np.array([False])), gradients=None)


def _mk_pair(spec, tag, transform, vscale):
    """(user object, optimizer-domain object) of one synthetic result."""
    if spec[0] == "G":
        return _mk_gradient(tag), _mk_gradient(tag)
    _, hasf, obj, viol = spec
    a, b = TRANSFORMS[transform]
    uobj = obj if math.isnan(obj) else a * obj + b
    uviol = None if viol is None else [None if v is None else [x * vscale for x in v] for v in viol]
    return _mk_function(tag, hasf, uobj, uviol), _mk_function(tag, hasf, obj, viol)


_CFG = None


def _dummy_config():
    global _CFG
    if _CFG is None:
        from ropt.config.enopt import EnOptConfig
        _CFG = EnOptConfig.model_validate({"variables": {"initial_values": [0.0]}})
    return _CFG


def _run_syn(case):
    import uuid
    from ropt.enums import EventType
    from ropt.plan import Event, OptimizerContext, Plan
    plan = Plan(OptimizerContext(evaluator=None))
    srcs = [uuid.uuid4() for _ in range(3)]
    trackers = [plan.add_handler("tracker", what=w, constraint_tolerance=tol, sources={srcs[i] for i in ss})
                for w, tol, ss in case["handlers"]]
    ident = _Ident()
    history, held = [], [[] for _ in trackers]
    for op in case["ops"]:
        if op[0] == "put":
            if op[1] is None:
                value, rec = None, None
            else:
                value, _ = _mk_pair(op[1], len(ident.users), "id", 1.0)
                rec = {"id": ident.add(value, None), "u": _facet(value)}
            for t in trackers:
                plan.set(t, "results", value)
            history.append(["put", rec])
        else:
            _, tname, src, has_r, has_t, specs = op
            users, partners, items = [], [], []
            for spec in specs:
                u, t = _mk_pair(spec, len(ident.users), case["transform"], case["vscale"])
                k = ident.add(u, t if has_t else None)
                users.append(u)
                partners.append(t)
                items.append({"id": k, "u": _facet(u), "t": _facet(t) if has_t else None})
            data = {}
            if has_r:
                data["results"] = tuple(users)
                if has_t:
                    data["transformed_results"] = tuple(partners)
            plan.emit_event(Event(event_type=EventType[tname], config=_dummy_config(), source=srcs[src], data=data))
            history.append(["emit", {"type": tname, "tval": EventType[tname].value, "src": src, "has_results": bool(has_r),
                                     "has_transformed": bool(has_r and has_t), "items": items if has_r else []}])
        for h, t in enumerate(trackers):
            held[h].append(ident.of(plan.get(t, "results")))
    return {"history": history, "held": held}


def _problem(step):
    """(config dict, transforms, evaluator factory) of one real optimization step."""
    import numpy as np
    from ropt.evaluator import EvaluatorResult
    from ropt.transforms import OptModelTransforms
    from ropt.transforms.base import ObjectiveTransform

    class Neg(ObjectiveTransform):
        def to_optimizer(self, objectives):
            return -objectives

        def from_optimizer(self, objectives):
            return -objectives

        def weighted_objective_from_optimizer(self, weighted_objective):
            return -weighted_objective

    config = {
        "variables": {"initial_values": step["start"], "lower_bounds": [-1.0, -1.0], "upper_bounds": [1.0, 1.0]},
        "optimizer": {"method": step["method"], "max_functions": step["max_functions"], "parallel": step["parallel"]},
        "realizations": {"weights": [1.0, 1.0], "realization_min_success": 0},
        "gradient": {"number_of_perturbations": 3, "seed": step["seed"]},
    }
    if step["constraint"]:
        config["nonlinear_constraints"] = {"lower_bounds": [-np.inf], "upper_bounds": [step["con_upper"]]}
    if step["method"] == "differential_evolution":
        config["optimizer"]["options"] = {"seed": step["seed"], "popsize": 3, "maxiter": 4}
    transforms = OptModelTransforms(objectives=Neg()) if step["maximize"] else None
    tx, ty = step["target"]
    nan_calls = set(step["nan_calls"])
    sign = -1.0 if step["maximize"] else 1.0

    def evaluate(variables, ctx, counter):
        counter[0] += 1
        n = variables.shape[0]
        obj = np.zeros((n, 1))
        con = np.zeros((n, 1))
        for i, r in enumerate(ctx.realizations):
            x = variables[i]
            obj[i, 0] = sign * ((x[0] - tx - 0.125 * r) ** 2 + (x[1] - ty) ** 2)
            con[i, 0] = x[0] + x[1]
        if counter[0] in nan_calls:
            obj[:] = np.nan
        return EvaluatorResult(objectives=obj, constraints=con if ctx.config.nonlinear_constraints is not None else None)

    return config, transforms, evaluate


def _run_plan(case):
    import warnings
    from ropt.config.enopt import EnOptConfig
    from ropt.enums import EventType
    from ropt.plan import OptimizerContext, Plan
    warnings.simplefilter("ignore")
    current = {"eval": None, "counter": [0]}

    def evaluator(variables, ctx):
        return current["eval"](variables, ctx, current["counter"])

    ctx = OptimizerContext(evaluator=evaluator)
    plan = Plan(ctx)
    steps = [plan.add_step("optimizer") for _ in case["steps"]]
    trackers = [plan.add_handler("tracker", what=w, constraint_tolerance=tol, sources={steps[i] for i in ss})
                for w, tol, ss in case["handlers"]]
    ident = _Ident()
    history, held = [], [[] for _ in trackers]

    def observe(event):
        has_r = "results" in event.data
        has_t = "transformed_results" in event.data
        items = []
        if has_r:
            results = event.data["results"]
            partners = event.data.get("transformed_results")
            for k, u in enumerate(results):
                t = partners[k] if partners is not None else None
                items.append({"id": ident.add(u, t), "u": _facet(u), "t": _facet(t) if t is not None else None})
        history.append(["emit", {"type": event.event_type.name, "tval": event.event_type.value,
                                 "src": steps.index(event.source), "has_results": has_r, "has_transformed": has_t,
                                 "items": items}])
        for h, t in enumerate(trackers):
            held[h].append(ident.of(plan.get(t, "results")))

    for et in EventType:
        ctx.add_observer(et, observe)
    exits = []
    for sid, step in zip(steps, case["steps"]):
        config, transforms, evaluate = _problem(step)
        current["eval"], current["counter"] = evaluate, [0]
        code = plan.run_step(sid, config=EnOptConfig.model_validate(config, context=transforms), transforms=transforms)
        exits.append(getattr(code, "name", str(code)))
    return {"history": history, "held": held, "exits": exits}


def _run_basic(case):
    import warnings
    from ropt.config.enopt import EnOptConfig
    from ropt.plan import BasicOptimizer
    warnings.simplefilter("ignore")
    step = case["steps"][0]
    config, transforms, evaluate = _problem(step)
    counter = [0]
    ident = _Ident()
    history = []

    def callback(results, transformed):
        items = []
        for k, u in enumerate(results):
            t = transformed[k] if transformed else None
            items.append({"id": ident.add(u, t), "u": _facet(u), "t": _facet(t) if t is not None else None})
        history.append(["emit", {"type": "FINISHED_EVALUATION", "tval": 2, "src": 0, "has_results": True,
                                 "has_transformed": bool(transformed), "items": items}])

    from ropt.enums import EventType
    tval = EventType.FINISHED_EVALUATION.value
    opt = BasicOptimizer(EnOptConfig.model_validate(config, context=transforms),
                         lambda v, c: evaluate(v, c, counter), transforms=transforms,
                         constraint_tolerance=case["handlers"][0][1])
    opt.set_results_callback(callback, transformed=True)
    opt.run()
    for h in history:
        h[1]["tval"] = tval
    res = opt.results
    var_ok = (opt.variables is None) if res is None else (opt.variables is res.evaluations.variables)
    held = [["unobserved"] * len(history)]
    if history:
        held[0][-1] = ident.of(res)
    return {"history": history, "held": held, "exits": [opt.exit_code.name], "variables_ok": bool(var_ok),
            "result_without_events": bool(not history and res is not None)}


def run_impl(case):
    if case["kind"] == "syn":
        return _run_syn(case)
    if case["kind"] == "plan":
        return _run_plan(case)
    return _run_basic(case)


# ---- Gallina printer ------------------------------------------------------------------------------
def _q(x):
    """Exact value of a finite float as n / 2^k (every float is dyadic): (qd n k)."""
    from fractions import Fraction
    x = float(x)
    if math.isnan(x) or math.isinf(x):
        raise ValueError(f"not finite: {x}")
    f = Fraction(x)
    k = f.denominator.bit_length() - 1
    if f.denominator != 1 << k:
        raise ValueError("not dyadic")
    n = f.numerator
    return f"(qd ({n}) {k})" if n < 0 else f"(qd {n} {k})"


def _viol_term(v):
    if v is None:
        return "v0"
    return "(vv " + " ".join("na" if a is None else f"(ar {cq.lst(_q(x) for x in a)})" for a in v) + ")"


def _facet_term(f):
    if not f["isfun"]:
        if f["hasf"] or f["viol"] is not None:
            raise ValueError("gradient result with function fields")
        return "gg"
    v = _viol_term(f["viol"])
    if not f["hasf"]:
        return f"(f0 {v})"
    if math.isnan(f["obj"]):
        return f"(fn {v})"
    return f"(ff {_q(f['obj'])} {v})"


def _op_term(op):
    if op[0] == "put":
        if op[1] is None:
            return "(Put None)"
        return f"(put {int(op[1]['id'])} {_facet_term(op[1]['u'])})"
    ev = op[1]
    items = cq.lst(f"(itm {int(it['id'])} {_facet_term(it['u'])} {_facet_term(it['t'] if it['t'] is not None else it['u'])})"
                   for it in ev["items"])
    return f"(evt {int(ev['tval'])} {int(ev['src'])} {cq.b(ev['has_results'])} {cq.b(ev['has_transformed'])} {items})"


def _held_term(h):
    if h == "unobserved":
        return "hu"
    if h is None:
        return "hn"
    return f"(hs {int(h)})"


def coq_case(case, obs):
    handlers = cq.lst(f"(cfgc {'Best' if w == 'best' else 'Last'} {cq.opt(tol, _q)} {cq.nats(ss)})"
                      for w, tol, ss in case["handlers"])
    ops = cq.lst(_op_term(op) for op in obs["history"])
    held = cq.lst(cq.lst(_held_term(h) for h in hs) for hs in obs["held"])
    return f"(Build_case {handlers} {ops} {held})"


# ---- oracle: the property text on the implementation's output (no model) --------------------------
def _feasible(f, tol):
    if tol is None or f["viol"] is None:
        return True
    return all(x <= tol for arr in f["viol"] if arr is not None for x in arr)


def oracle(case, obs):
    if case["kind"] == "basic":
        if not obs["variables_ok"]:
            return {"clause": "basic-optimizer-variables-not-of-reported-result", "detail": None}
        if obs["result_without_events"]:
            return {"clause": "basic-optimizer-reports-undelivered-result", "detail": None}
    for h, (what, tol, sources) in enumerate(case["handlers"]):
        cands = {}       # id -> optimizer-domain objective (best)
        seen = {}        # id -> why a delivered result is not a candidate
        last = None
        for k, op in enumerate(obs["history"]):
            if op[0] == "put":
                cands, last = {}, None
                if op[1] is not None:
                    cands[op[1]["id"]] = op[1]["u"]["obj"]
                    last = op[1]["id"]
            else:
                ev = op[1]
                tracked = ev["type"] == "FINISHED_EVALUATION" and ev["has_results"] and ev["src"] in sources
                for it in ev["items"]:
                    t = it["t"] if ev["has_transformed"] else it["u"]
                    if not tracked:
                        seen[it["id"]] = "untracked-source-or-event"
                    elif not (t["isfun"] and t["hasf"]):
                        seen[it["id"]] = "not-a-function-result"
                    elif not _feasible(t, tol):
                        seen[it["id"]] = "infeasible"
                    else:
                        last = it["id"]
                        if math.isnan(t["obj"]):
                            seen[it["id"]] = "nan-objective"
                        else:
                            cands[it["id"]] = t["obj"]
            got = obs["held"][h][k]
            if got == "unobserved":
                continue
            where = {"handler": [what, tol, sources], "after_op": k, "held": got}
            if what == "last":
                if got != last:
                    return {"clause": "last-is-not-most-recent-feasible-function-result", "detail": {**where, "expected": last}}
                continue
            if not cands:
                if got is not None:
                    return {"clause": "best-holds-" + seen.get(got, "unknown-object"), "detail": where}
            elif got is None:
                return {"clause": "best-blocked-valid-result-not-retained", "detail": {**where, "candidates": len(cands)}}
            elif got not in cands:
                return {"clause": "best-holds-" + seen.get(got, "unknown-object"), "detail": where}
            elif cands[got] > min(cands.values()):
                return {"clause": "best-is-not-lowest-in-optimizer-domain",
                        "detail": {**where, "held_objective": cands[got], "lowest": min(cands.values())}}
    return None


def nontrivial(case, obs):
    n = sum(len(op[1]["items"]) for op in obs["history"] if op[0] == "emit")
    holds = any(hs and hs[-1] not in (None, "unobserved") for hs in obs["held"])
    return n >= 2 and holds


def features(case, obs):
    items = [it for op in obs["history"] if op[0] == "emit" for it in op[1]["items"]]
    nan = sum(1 for it in items if it["u"]["hasf"] and math.isnan(it["u"]["obj"]))
    n = len(obs["history"])
    return {"kind": case["kind"], "ops": "1-3" if n <= 3 else "4-12" if n <= 12 else "13-40" if n <= 40 else ">40",
            "transform": case.get("transform", "real"), "nan_results": min(nan, 3),
            "puts": min(2, sum(1 for op in obs["history"] if op[0] == "put")),
            "gradients": min(2, sum(1 for it in items if not it["u"]["isfun"])),
            "maximize": any(s.get("maximize") for s in case.get("steps", []))}


def known_signature(case, obs, violation):
    return None


def shrink(case):
    if case["kind"] != "syn":
        return
    ops = case["ops"]
    for k in range(len(ops)):
        yield {**case, "ops": ops[:k] + ops[k + 1:]}
    for k, op in enumerate(ops):
        if op[0] == "emit" and len(op[5]) > 1:
            for j in range(len(op[5])):
                yield {**case, "ops": ops[:k] + [op[:5] + [op[5][:j] + op[5][j + 1:]]] + ops[k + 1:]}
    if len(case["handlers"]) > 1:
        for k in range(len(case["handlers"])):
            yield {**case, "handlers": [case["handlers"][k]]}


def search(rng, case):
    if case is not None and case["kind"] == "syn":
        yield from itertools.islice(shrink(case), 0, 200)
    for _ in range(600):
        yield _rand_history(rng, 8)
    for _ in range(20):
        yield _rand_plan(rng, basic=rng.random() < 0.5)


MANIFEST = {
    "level_text": ("Machine-checked Coq proof, by induction over arbitrary operation histories, that the executable model of "
                   "DefaultTrackerHandler / _update_optimal_result / _get_last_result (Model/Tracker.v) holds after any history nothing "
                   "iff no tracked-source feasible function result with a defined optimizer-domain objective was delivered, and otherwise the "
                   "first such result whose optimizer-domain weighted objective is minimal (so it is feasible and lowest); that gradient, "
                   "function-less, NaN, infeasible, other-source and other-event deliveries leave the state unchanged at any position; that "
                   "a 'last' tracker holds the most recent feasible function result; that under a sign-flipping transform the retained result "
                   "maximises the user objective; and that the BasicOptimizer plan reports exactly that state.  The model is tied to the code on "
                   "every run by an in-Coq correspondence over all event histories up to length 2 (quick) / 3 (thorough) over a 22-letter "
                   "alphabet pushed through real Plan/tracker objects, sampled long histories with resets, and real optimizations."),
    "level_note": ("Trusted: Coq kernel + VM; the Python driver that builds synthetic Results objects, reads back what the tracker can see of "
                   "them (isinstance, functions, weighted_objective, the three violation arrays) and records object identities; the observers "
                   "recording real runs.  Ties: the proof shows the model keeps the earliest minimiser, the correspondence accepts any tied "
                   "minimiser (the property text does not order ties).  Feasibility is judged on the optimizer-domain (transformed) result, as "
                   "the anchored mechanism does.  NaN violations and Plan.set of results without a finite objective are outside the modelled domain. "
                   "All theorems print 'Closed under the global context'."),
    "technique": "Coq proof (fold invariant over arbitrary histories on an executable Gallina model) + in-Coq differential correspondence with real Plan/DefaultTrackerHandler/BasicOptimizer objects",
    "design_ref": "DESIGN.md section 4, C12",
}
