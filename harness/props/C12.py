"""C12 -- the tracked best result is the feasible optimum over the whole history.

Correspondence: synthetic FunctionResults / GradientResults objects (user-domain object paired with its
optimizer-domain version) are pushed through a real Plan holding real DefaultTrackerHandler objects via
Plan.emit_event, interleaved with Plan.set resets; Plan.get(tracker, "results") is read after every
operation and the identity of the retained object is compared inside Coq with Model/Tracker.v (ties
accepted for 'best', exact for 'last').  Real optimizations (several optimizer steps in one plan, and
BasicOptimizer) are recorded through observers and fed to the same checker.
"""
from __future__ import annotations

import itertools
import math

import coqio as cq

ID = "C12"
THEOREM_FILE = "Props/C12.v"
CHK_MODULE = "Check.Chk_C12"
CASE_TYPE = "Chk_C12.case"
CHECK_FN = "Chk_C12.check_case"
SHARD_SIZE = 290
PARALLEL = True
CASE_TIMEOUT = 120
EXHAUSTIVE = {"quick": True, "thorough": True}

TOL = 1e-10
RULE = ("exhaustive: (A) every history of <= 2 (quick) / <= 3 (thorough) single-result FINISHED_EVALUATION events over a 22-letter "
        "alphabet (function result with optimizer-domain objective NaN/1/2/3 or without functions x feasible/violating 2e-10 x "
        "tracked/other source; gradient result x tracked/other source), with identity and sign-flipping transform; (B) every batch "
        "of 2 and of 3 results inside ONE event over {NaN, better, tied, worse, better-but-infeasible, gradient, no-functions} in "
        "every order, after {nothing, a held result, a NaN delivery}, followed by a probe result, results given as tuple or list; "
        "(C) held result -> one intermediate operation of every kind (each of the 22 letters, mixed batches, other event types, no "
        "results, no transformed_results, Plan.set of the held object / of another tracker's object / of a new object / None, nothing) "
        "-> {better, tie, worse, better-but-infeasible, NaN} -> better, under sign-flipping, positive-affine and negative-affine "
        "objective transforms; (D) held x -> (y, infeasible z) -> z over objectives one unit in the last place to 1e-9 apart; all observed after every operation by six trackers (best/last x tolerance None/1e-10/0.0).  Quick adds "
        "a seeded sample of length-3 histories of (A).  Sampled: histories of <= 40 operations (1-4 results per event, ties, NaN, "
        "violations at/below/above the tolerance in bound/linear/non-linear arrays, three sources, chains of 1-3 nested plans with "
        "trackers and emitting steps on any of them, other event types, events without results or without transformed_results, "
        "Plan.set resets / replacements / re-placing a tracker's own or another tracker's result, five objective transforms, "
        "user-domain violations scaled, tolerances None/0.0/1e-10/0.5, trackers created with defaulted arguments or sources=None).  "
        "Real runs: plans of 1-3 optimizer steps (slsqp, l-bfgs-b, nelder-mead, differential_evolution serial and parallel = several "
        "results per event) and evaluator steps (several vectors in one call), with NaN injections, realization_min_success=0, "
        "maximisation and/or positive scaling of the objective, scaling of the non-linear constraint, trackers on subsets of the "
        "steps; (E) exhaustive: an evaluator step with transforms on every batch of 3 vectors over {good, worse, completely failed = no "
        "functions, infeasible}; in every real run the delivered results must be, position by position, the back-transformed "
        "versions of the delivered transformed results (Chk_C12.paired_ok inside Coq: same class, functions in both or neither, user "
        "objective = a * optimizer objective + b for the step's transform; the Python oracle adds equal lengths and equal variables); nested optimizations (trackers on the outer and on the nested plan, the nested plan also run stand-alone first); "
        "BasicOptimizer objects run 1-4 times (tolerance None/0/positive/defaulted; runs in which every evaluation fails, every "
        "result is infeasible, or the abort callback fires before the first / after k evaluations, in any order with normal runs): "
        "results (identity or None), variables and exit code are read after EVERY run, results compared with the model (fresh "
        "tracker per run) and with the recomputation over the recorded events.  Non-trivial = some tracker ends up holding a result and at least "
        "two results were delivered; distinct = distinct case dictionaries.")
ASSUMPTIONS = [
    "a Results object is seen by the tracker only through isinstance(FunctionResults), .functions is None, "
    ".functions.weighted_objective and .constraint_info.{bound,linear,nonlinear}_violation (read back from the real objects by the driver)",
    "object identity of delivered results is represented by their delivery index; every delivered object is distinct",
    "violations are never NaN and weighted objectives never infinite (the driver stops with an error if one is); results placed with Plan.set are function results with a finite objective",
    "Plan.set is outside the property text: its effect is the model's (the placed object is compared through its own objective, or through its optimizer-domain partner when it is the object the tracker chose last); the Python oracle accepts either reading",
    "an event reaches the handlers of the emitting step's plan and of the chain of parent plans that exists at that moment (the driver knows the nesting it built; Plan.emit_event itself is run for real)",
]
TRUSTED = ["the observers used to record the event stream of real optimizations (OptimizerContext.add_observer, "
           "BasicOptimizer.set_results_callback) deliver the same tuples the handlers received",
           "the defaults of DefaultTrackerHandler / BasicOptimizer arguments left out by the driver are read from the real signatures (inspect)"]

# ---- alphabets ------------------------------------------------------------------------------------
EX_HANDLERS = [["best", None, [0]], ["best", TOL, [0]], ["best", 0.0, [0]],
               ["last", None, [0]], ["last", TOL, [0]], ["last", 0.0, [0]]]
_FEAS = [[0.0], None, None]
_INFEAS = [[2e-10], None, None]
LETTERS = []
for _src in (0, 1):
    for _v in (_FEAS, _INFEAS):
        for _o in (float("nan"), 1.0, 2.0, 3.0):
            LETTERS.append((_src, ["F", True, _o, _v]))
        LETTERS.append((_src, ["F", False, 0.0, _v]))
    LETTERS.append((_src, ["G"]))
assert len(LETTERS) == 22

# results inside ONE event (a batch): NaN, better, tied (with a held 2), worse, better-but-infeasible, gradient, no functions
BATCH = [["F", True, float("nan"), _FEAS], ["F", True, 1.0, _FEAS], ["F", True, 2.0, _FEAS], ["F", True, 3.0, _FEAS],
         ["F", True, 0.0, _INFEAS], ["G"], ["F", False, 0.0, _FEAS]]
BATCH_PREFIX = [[], [["F", True, 2.0, _FEAS]], [["F", True, float("nan"), _FEAS]]]

TRANSFORMS = {"id": (1.0, 0.0), "neg": (-1.0, 0.0), "aff": (2.0, 1.0), "negaff": (-0.5, 3.0), "pos": (4.0, 0.0)}
OBJ_POOL = [-2.0, -1.0, -0.5, 0.0, 0.5, 1.0, 1.0, 2.0, 2.0, 3.0, float("nan"), float("nan")]
VIOL_POOL = [0.0, 0.0, 0.0, 5e-11, 1e-10, 2e-10, 0.25, 0.5, 1.0]
TOL_POOL = [None, TOL, TOL, 0.0, 0.0, 0.5]
SRC_POOL = [[0], [0, 1], [1, 2], [0, 1, 2], []]
OTHER_TYPES = ["START_EVALUATION", "START_OPTIMIZER_STEP", "FINISHED_OPTIMIZER_STEP", "FINISHED_EVALUATOR_STEP"]
METHODS = ["slsqp", "l-bfgs-b", "nelder-mead", "differential_evolution"]
NAN_MARK = 0.4375          # a point whose second coordinate is exactly this value evaluates to NaN (evaluator steps)


def _emit(src, specs, has_r=True, has_t=True, etype="FINISHED_EVALUATION", **extra):
    op = ["emit", etype, src, has_r, has_t, specs]
    if extra:
        op.append(extra)
    return op


def _ex_case(seq, transform):
    ops = [_emit(LETTERS[a][0], [LETTERS[a][1]]) for a in seq]
    return {"kind": "syn", "transform": transform, "vscale": 1.0, "handlers": EX_HANDLERS, "ops": ops}


def _batch_cases(tier):
    """Every batch of 2 (and 3) results in one event, in every order, after nothing / a held 2 / a NaN delivery,
    followed by a single 1.5 (improving iff the batch left something worse than 1.5)."""
    probe = _emit(0, [["F", True, 1.5, _FEAS]])
    for n, transforms in ((2, ("id", "neg", "aff")), (3, ("neg",) if tier == "quick" else ("id", "neg", "negaff"))):
        for batch in itertools.product(range(len(BATCH)), repeat=n):
            for pre in BATCH_PREFIX:
                for tr in transforms:
                    ops = [_emit(0, [x]) for x in pre] + [_emit(0, [BATCH[b] for b in batch], list=(batch[0] % 2 == 0)), probe]
                    yield {"kind": "syn", "transform": tr, "vscale": 1.0, "handlers": EX_HANDLERS, "ops": ops}


def _resume_cases(tier):
    """held 2 -> one intermediate operation of every kind -> {better, tie, worse, better-but-infeasible, NaN} -> better,
    under transforms that change the weighted objective (the comparison domain matters after every intermediate)."""
    held = _emit(0, [["F", True, 2.0, _FEAS]])
    inter = [[_emit(s, [x])] for s, x in LETTERS]
    inter += [[_emit(0, [["F", True, 3.0, _FEAS], ["G"]])], [_emit(0, [["G"], ["F", True, 2.0, _FEAS]], list=True)],
              [_emit(0, [["F", True, 3.0, _FEAS]], etype="START_EVALUATION")],
              [_emit(0, [["F", True, 1.0, _FEAS]], etype="FINISHED_OPTIMIZER_STEP")],
              [_emit(0, [], has_r=False, has_t=False)], [_emit(0, [["F", True, 3.0, _FEAS]], has_t=False)],
              [["reput", 0]], [["reput", 3]], [["put", None]], [["put", ["F", True, 2.5, _FEAS]]], []]
    third = [["F", True, 1.5, _FEAS], ["F", True, 2.0, _FEAS], ["F", True, 3.0, _FEAS], ["F", True, 0.0, _INFEAS],
             ["F", True, float("nan"), _FEAS]]
    for tr in (("neg", "aff", "negaff") if tier == "quick" else ("id", "neg", "aff", "negaff", "pos")):
        for mid in inter:
            for y in third:
                ops = [held] + mid + [_emit(0, [y]), _emit(0, [["F", True, 1.0, _FEAS]])]
                yield {"kind": "syn", "transform": tr, "vscale": 1.0, "handlers": EX_HANDLERS, "ops": ops}


NEAR = [1.0, 1.0 + 2.0 ** -52, 1.0 - 2.0 ** -53, 1.0 + 2.0 ** -40, 1.0 - 2.0 ** -30]


def _near_tie_cases():
    """held x -> y -> z for objectives that differ by one unit in the last place up to 1e-9: 'lowest' has no tolerance."""
    for tr in ("id", "neg"):
        for x, y in itertools.product(NEAR, repeat=2):
            for z in (NEAR[2], NEAR[4]):
                ops = [_emit(0, [["F", True, x, _FEAS]]), _emit(0, [["F", True, y, _FEAS], ["F", True, z, _INFEAS]]),
                       _emit(0, [["F", True, z, _FEAS]])]
                yield {"kind": "syn", "transform": tr, "vscale": 1.0, "handlers": EX_HANDLERS, "ops": ops}


def _rand_viol(rng):
    if rng.random() < 0.2:
        return None
    out = []
    for _ in range(3):
        if rng.random() < 0.5:
            out.append(None)
        else:
            out.append([rng.choice(VIOL_POOL) for _ in range(rng.randint(1, 2))])
    return out


def _rand_item(rng, wide):
    r = rng.random()
    if r < 0.2:
        return ["G"]
    obj = rng.choice(OBJ_POOL)
    if wide and rng.random() < 0.3:
        obj = rng.uniform(-3, 3)
    return ["F", rng.random() >= 0.07, obj, _rand_viol(rng)]


def _rand_history(rng, maxlen):
    wide = rng.random() < 0.15
    nplans = rng.choice([1, 1, 1, 2, 3])
    handlers = []
    for k in range(4):
        what = "best" if k == 0 else rng.choice(["best", "best", "last"])
        handlers.append([what, rng.choice(TOL_POOL), rng.choice(SRC_POOL), rng.randrange(nplans),
                         rng.choice(["", "", "d", "n", "dn"])])
    ops = []
    for _ in range(rng.randint(1, maxlen)):
        r = rng.random()
        if r < 0.04:
            if rng.random() < 0.5:
                ops.append(["put", None])
            else:
                obj = rng.choice([o for o in OBJ_POOL if not math.isnan(o)])
                ops.append(["put", ["F", True, obj, _rand_viol(rng)]])
            continue
        if r < 0.07:
            ops.append(["reput", rng.randrange(4)])
            continue
        items = [_rand_item(rng, wide) for _ in range(rng.choice([1, 1, 2, 2, 3, 4]))]
        src = rng.randrange(3)
        extra = {"list": rng.random() < 0.5, "plan": rng.randrange(nplans)}
        if r < 0.11:
            ops.append(_emit(src, items, etype=rng.choice(OTHER_TYPES), **extra))
        elif r < 0.15:
            ops.append(_emit(src, [], has_r=False, has_t=False, **extra))
        elif r < 0.21:
            ops.append(_emit(src, items, has_t=False, **extra))
        else:
            ops.append(_emit(src, items, **extra))
    return {"kind": "syn", "transform": rng.choice(list(TRANSFORMS)), "vscale": rng.choice([1.0, 1.0, 4.0, 0.25]),
            "plans": nplans, "handlers": handlers, "ops": ops}


def _one_step(rng, method=None, parallel=None, nested=False):
    method = method or rng.choice(METHODS)
    s = {"method": method, "maximize": rng.random() < 0.5,
         "oscale": rng.choice([1.0, 1.0, 4.0, 0.5]), "cscale": rng.choice([1.0, 1.0, 4.0, 0.25]),
         "constraint": method in ("slsqp", "differential_evolution") and rng.random() < 0.7,
         "con_upper": rng.choice([0.0, 0.125, 0.25]),
         "target": [rng.choice([0.25, 0.5, 0.75]), rng.choice([-0.5, -0.25, 0.25])],
         "start": [rng.choice([-0.5, 0.0, 0.5]), rng.choice([-0.5, 0.0, 0.5])],
         "seed": rng.randrange(1, 1000), "max_functions": rng.choice([6, 10, 16]),
         "nan_calls": [], "parallel": False}
    if method == "differential_evolution":
        s["max_functions"] = rng.choice([20, 40])
        s["parallel"] = (rng.random() < 0.6) if parallel is None else parallel
        s["nan_calls"] = sorted({1} | {rng.randrange(2, 12) for _ in range(rng.randint(0, 3))}) if rng.random() < 0.8 else []
    elif rng.random() < 0.4:
        s["nan_calls"] = [rng.randrange(2, 6)]
    if nested:
        s["parallel"] = False
        s["max_functions"] = rng.choice([3, 4, 5])
    return s


def _eval_step(rng, base=None):
    """An evaluator step: several vectors in one call -> ONE event with several function results (some NaN, some
    infeasible, in any position)."""
    s = dict(base) if base is not None else _one_step(rng, method="slsqp")
    s["kind"] = "evaluator"
    s["constraint"] = rng.random() < 0.7
    s["nan_calls"] = []
    s["min_success"] = rng.choice([0, 1, 1])     # 1: a vector whose realizations all fail has NO functions
    s["points"] = [[rng.choice([-0.5, 0.0, 0.25, 0.5, 0.75]), rng.choice([-0.5, -0.25, 0.0, 0.25, NAN_MARK, NAN_MARK])]
                   for _ in range(rng.choice([1, 2, 3, 3, 4]))]
    return s


# run sequences of ONE BasicOptimizer object: a later run that tracks nothing must report nothing
BASIC_SCRIPTS = [["normal"], ["normal"], ["abort2"], ["abort5"], ["normal", "normal"], ["normal", "fail"], ["normal", "abort0"],
                 ["normal", "infeasible"], ["normal", "fail", "normal", "abort0"], ["fail", "normal", "infeasible"],
                 ["abort0", "normal", "abort0"], ["normal", "abort2", "fail", "normal"], ["normal", "infeasible", "abort0"]]
_EV_POINTS = {"good": [0.5, -0.25], "worse": [-0.5, 0.25], "failed": [0.0, NAN_MARK], "infeasible": [0.75, 0.25]}


def _eval_batch_cases(tier):
    """An evaluator step WITH transforms evaluating a batch of 3 vectors: every vector good / worse / completely failed
    (no functions) / infeasible, in every position; observed by best and last trackers with and without tolerance."""
    variants = [(True, 4.0, 1.0), (False, 0.5, 4.0)] if tier == "quick" else \
               [(True, 4.0, 1.0), (False, 0.5, 4.0), (True, 1.0, 0.25), (False, 1.0, 1.0)]
    for maximize, oscale, cscale in variants:
        for kinds in itertools.product(sorted(_EV_POINTS), repeat=3):
            points = [[_EV_POINTS[k][0] + 0.03125 * pos, _EV_POINTS[k][1]] for pos, k in enumerate(kinds)]
            step = {"kind": "evaluator", "method": "slsqp", "maximize": maximize, "oscale": oscale, "cscale": cscale,
                    "constraint": True, "con_upper": 0.3125, "target": [0.75, -0.5], "start": [0.0, 0.0], "seed": 7,
                    "max_functions": 4, "nan_calls": [], "parallel": False, "min_success": 1, "points": points}
            yield {"kind": "plan", "steps": [step],
                   "handlers": [["best", TOL, [0]], ["last", TOL, [0]], ["best", None, [0]], ["last", None, [0]]]}


_FORCED = [("differential_evolution", True, ["normal", "fail", "normal", "abort0"]), ("slsqp", None, ["normal", "infeasible"]),
           ("differential_evolution", False, ["normal", "infeasible", "abort0"]), ("nelder-mead", None, ["normal", "abort0", "normal"])]


def _rand_plan(rng, basic, force=None):
    method, parallel, script = force if force is not None else (None, None, None)
    if basic:
        case = {"kind": "basic", "steps": [_one_step(rng, method, parallel)],
                "handlers": [["best", rng.choice([TOL, TOL, 1e-3, 0.25, 0.0, None]), [0], 0, rng.choice(["", "d"])]],
                "script": list(rng.choice(BASIC_SCRIPTS))}
        if force is not None:
            case["script"] = list(script)
            if method in ("slsqp", "differential_evolution"):
                case["steps"][0]["constraint"] = True
                if case["handlers"][0][1] is None:
                    case["handlers"][0][1] = TOL
        return case
    steps = [_one_step(rng, method, parallel)]
    for _ in range(rng.choice([0, 1, 1, 2])):
        steps.append(_eval_step(rng) if rng.random() < 0.35 else _one_step(rng))
    rng.shuffle(steps)
    n = len(steps)
    subsets = [list(c) for k in range(1, n + 1) for c in itertools.combinations(range(n), k)]
    handlers = [["best", TOL, list(range(n))], ["last", TOL, list(range(n))]]
    for _ in range(3):
        handlers.append([rng.choice(["best", "best", "last"]), rng.choice([None, TOL, 1e-3, 0.25, 0.0]), rng.choice(subsets)])
    return {"kind": "plan", "steps": steps, "handlers": handlers}


def _rand_nested(rng):
    """Outer optimizer step (source 0, plan 0) whose nested plan (plan 1) runs an inner optimizer step (source 1) per outer
    evaluation and hands back the result of its own 'best' tracker (handler 0); optionally an evaluator step (source 2) on
    the outer plan first, and one stand-alone run of the inner plan before it becomes nested."""
    outer = _one_step(rng, method=rng.choice(["slsqp", "l-bfgs-b", "nelder-mead"]), nested=True)
    inner = dict(outer, method=rng.choice(["slsqp", "l-bfgs-b", "nelder-mead", "differential_evolution"]),
                 seed=rng.randrange(1, 1000), max_functions=rng.choice([3, 4, 6]))
    constrained = ("slsqp", "differential_evolution")
    outer["constraint"] = inner["constraint"] = (outer["method"] in constrained and inner["method"] in constrained
                                                 and rng.random() < 0.7)
    inner["nan_calls"] = [rng.randrange(1, 8)] if rng.random() < 0.5 else []
    handlers = [["best", rng.choice([TOL, TOL, 0.25, None]), [1], 1]]
    for _ in range(5):
        plan = rng.randrange(2)
        srcs = rng.choice([[0], [1], [0, 1], [0, 1, 2], [1, 2], [2]])
        handlers.append([rng.choice(["best", "best", "last"]), rng.choice([None, TOL, 1e-3, 0.25, 0.0]), srcs, plan])
    return {"kind": "nested", "outer": outer, "inner": inner, "pre_inner": rng.random() < 0.3,
            "evaluator": _eval_step(rng, outer) if rng.random() < 0.5 else None, "handlers": handlers}


def gen_cases(tier, rng):
    quick = tier == "quick"
    maxlen = 2 if quick else 3
    light, heavy = [], []
    for L in range(1, maxlen + 1):
        for seq in itertools.product(range(len(LETTERS)), repeat=L):
            for tr in ("id", "neg"):
                light.append(_ex_case(seq, tr))
    light.extend(_batch_cases(tier))
    light.extend(_resume_cases(tier))
    light.extend(_near_tie_cases())
    light.extend(_eval_batch_cases(tier))
    if quick:
        for _ in range(700):
            light.append(_ex_case([rng.randrange(len(LETTERS)) for _ in range(3)], rng.choice(["id", "neg"])))
    for _ in range(500 if quick else 12000):
        heavy.append(_rand_history(rng, 12))
    for _ in range(150 if quick else 3000):
        heavy.append(_rand_history(rng, 40))
    for k in range(12 if quick else 100):
        heavy.append(_rand_plan(rng, basic=False, force=_FORCED[k] if k < len(_FORCED) else None))
    for k in range(14 if quick else 100):
        heavy.append(_rand_plan(rng, basic=True, force=_FORCED[k] if k < len(_FORCED) else None))
    for _ in range(8 if quick else 60):
        heavy.append(_rand_nested(rng))
    # spread the long histories evenly over the shards (the Coq side is bound by the size of the literal)
    rng.shuffle(heavy)
    every = max(1, len(light) // max(1, len(heavy)))
    k = 0
    for n, c in enumerate(light):
        yield c
        if n % every == every - 1 and k < len(heavy):
            yield heavy[k]
            k += 1
    yield from heavy[k:]


# ---- driver: the real code ------------------------------------------------------------------------
def _facet(r):
    import numpy as np
    from ropt.results import FunctionResults
    isfun = isinstance(r, FunctionResults)
    hasf = bool(isfun and r.functions is not None)
    obj = float(r.functions.weighted_objective) if hasf else None
    if obj is not None and math.isinf(obj):
        raise RuntimeError("infinite weighted objective: outside the modelled domain")
    viol = None
    if isfun and r.constraint_info is not None:
        ci = r.constraint_info
        viol = []
        for v in (ci.bound_violation, ci.linear_violation, ci.nonlinear_violation):
            if v is None:
                viol.append(None)
            else:
                arr = [float(x) for x in np.atleast_1d(v).ravel()]
                if any(math.isnan(x) or math.isinf(x) for x in arr):
                    raise RuntimeError("non-finite violation reported: outside the modelled domain")
                viol.append(arr)
    return {"isfun": isfun, "hasf": hasf, "obj": obj, "viol": viol}


class _Ident:
    """Object identity -> delivery index (2000 + index for the transformed partner, 4999 unknown)."""

    def __init__(self):
        self.users, self.partners = [], []

    def add(self, user, partner):
        self.users.append(user)
        self.partners.append(partner)
        return len(self.users) - 1

    def of(self, held):
        if held is None:
            return None
        for k, o in enumerate(self.users):
            if o is held:
                return k
        for k, o in enumerate(self.partners):
            if o is held:
                return 2000 + k
        return 4999


def _mk_function(tag, hasf, obj, viol):
    import numpy as np
    from ropt.results import ConstraintInfo, FunctionEvaluations, FunctionResults, Functions, Realizations
    ci = None
    if viol is not None:
        kw = {}
        for name, v in zip(("bound", "linear", "nonlinear"), viol):
            if v is not None:
                kw[name + "_lower"] = -np.array(v, dtype=np.float64)
                kw[name + "_upper"] = np.full(len(v), -1.0)
        ci = ConstraintInfo(**kw)
    return FunctionResults(
        batch_id=tag, metadata={},
        evaluations=FunctionEvaluations.create(variables=np.array([float(tag)]), objectives=np.array([[0.0]])),
        realizations=Realizations(failed_realizations=np.array([False])),
        functions=Functions.create(weighted_objective=np.array(obj), objectives=np.array([obj])) if hasf else None,
        constraint_info=ci)


def _mk_gradient(tag):
    import numpy as np
    from ropt.results import GradientEvaluations, GradientResults, Realizations
    return GradientResults(
        batch_id=tag, metadata={},
        evaluations=GradientEvaluations.create(variables=np.array([0.0]), perturbed_variables=np.zeros((1, 1, 1)),
                                               perturbed_objectives=np.zeros((1, 1, 1))),
        realizations=Realizations(failed_realizations=np.array([False])), gradients=None)


def _mk_pair(spec, tag, transform, vscale):
    """(user object, optimizer-domain object) of one synthetic result."""
    if spec[0] == "G":
        return _mk_gradient(tag), _mk_gradient(tag)
    _, hasf, obj, viol = spec
    a, b = TRANSFORMS[transform]
    uobj = obj if math.isnan(obj) else a * obj + b
    uviol = None if viol is None else [None if v is None else [x * vscale for x in v] for v in viol]
    return _mk_function(tag, hasf, uobj, uviol), _mk_function(tag, hasf, obj, viol)


_CFG = None


def _dummy_config():
    global _CFG
    if _CFG is None:
        from ropt.config.enopt import EnOptConfig
        _CFG = EnOptConfig.model_validate({"variables": {"initial_values": [0.0]}})
    return _CFG


def _hspec(h):
    """(what, tol, sources, plan, flags) of a handler specification (plan and flags are optional)."""
    what, tol, sources = h[0], h[1], list(h[2])
    plan = int(h[3]) if len(h) > 3 else 0
    flags = h[4] if len(h) > 4 else ""
    return what, tol, sources, plan, flags


def _tracker_defaults():
    """Defaults of DefaultTrackerHandler.__init__ as the real signature states them."""
    import inspect
    from ropt.plugins.plan._tracker import DefaultTrackerHandler
    sig = inspect.signature(DefaultTrackerHandler.__init__).parameters
    return sig["what"].default, sig["constraint_tolerance"].default


def _add_tracker(plan, spec, step_ids):
    """Add a tracker; with flag 'd' arguments equal to the signature's defaults are left out, with flag 'n' an empty
    source set is given as None.  Returns (handler id, effective [what, tol, sources, plan])."""
    what, tol, sources, pidx, flags = _hspec(spec)
    d_what, d_tol = _tracker_defaults()
    kw = {"what": what, "constraint_tolerance": tol, "sources": {step_ids[i] for i in sources}}
    if "d" in flags:
        if what == d_what:
            del kw["what"]
        if tol == d_tol and (tol is None) == (d_tol is None):
            del kw["constraint_tolerance"]
    if "n" in flags and not sources:
        kw["sources"] = None
    return plan.add_handler("tracker", **kw), [what, tol, sources, pidx]


def _run_syn(case):
    import uuid
    from ropt.enums import EventType
    from ropt.plan import Event, OptimizerContext, Plan
    ctx = OptimizerContext(evaluator=None)
    plans = [Plan(ctx)]
    for _ in range(1, int(case.get("plans", 1))):
        plans.append(Plan(ctx, parent=plans[-1]))
    srcs = [uuid.uuid4() for _ in range(3)]
    trackers, effective = [], []
    for spec in case["handlers"]:
        pidx = _hspec(spec)[3]
        hid, eff = _add_tracker(plans[pidx], spec, srcs)
        trackers.append((plans[pidx], hid))
        effective.append(eff)
    ident = _Ident()
    history, held = [], [[] for _ in trackers]
    for op in case["ops"]:
        if op[0] in ("put", "reput"):
            if op[0] == "reput":
                p, t = trackers[op[1] % len(trackers)]
                value = p.get(t, "results")
                rec = None if value is None else {"id": ident.of(value), "u": _facet(value)}
                if rec is not None and (not rec["u"]["hasf"] or math.isnan(rec["u"]["obj"])):
                    continue        # a 'last' tracker may hold a NaN result: placing it is outside the modelled domain
            elif op[1] is None:
                value, rec = None, None
            else:
                value, _ = _mk_pair(op[1], len(ident.users), "id", 1.0)
                rec = {"id": ident.add(value, None), "u": _facet(value)}
            for p, t in trackers:
                p.set(t, "results", value)
            history.append(["put", rec])
        else:
            _, tname, src, has_r, has_t, specs = op[:6]
            extra = op[6] if len(op) > 6 else {}
            pidx = int(extra.get("plan", 0))
            users, partners, items = [], [], []
            for spec in specs:
                u, t = _mk_pair(spec, len(ident.users), case["transform"], case["vscale"])
                k = ident.add(u, t if has_t else None)
                users.append(u)
                partners.append(t)
                items.append({"id": k, "u": _facet(u), "t": _facet(t) if has_t else None})
            data = {}
            if has_r:
                seq = list if extra.get("list") else tuple      # the optimizer step hands over a list when it transforms
                data["results"] = seq(users)
                if has_t:
                    data["transformed_results"] = tuple(partners)
            plans[pidx].emit_event(Event(event_type=EventType[tname], config=_dummy_config(), source=srcs[src], data=data))
            history.append(["emit", {"type": tname, "tval": EventType[tname].value, "src": src,
                                     "path": list(range(pidx, -1, -1)), "has_results": bool(has_r),
                                     "has_transformed": bool(has_r and has_t), "items": items if has_r else []}])
        for h, (p, t) in enumerate(trackers):
            held[h].append(ident.of(p.get(t, "results")))
    return {"history": history, "held": held, "handlers": effective}


def _problem(step, mask=None):
    """(config dict, transforms, evaluator) of one real optimization / evaluation step.  The optimizer-domain objective is
    c * user objective with c = (-1 if maximize else 1) / oscale; optimizer-domain constraints are user constraints / cscale."""
    import numpy as np
    from ropt.evaluator import EvaluatorResult
    from ropt.transforms import OptModelTransforms
    from ropt.transforms.base import NonLinearConstraintTransform, ObjectiveTransform

    c = (-1.0 if step["maximize"] else 1.0) / float(step.get("oscale", 1.0))
    s = float(step.get("cscale", 1.0))

    class Obj(ObjectiveTransform):
        def to_optimizer(self, objectives):
            return objectives * c

        def from_optimizer(self, objectives):
            return objectives / c

        def weighted_objective_from_optimizer(self, weighted_objective):
            return weighted_objective / c

    class Con(NonLinearConstraintTransform):
        def bounds_to_optimizer(self, lower_bounds, upper_bounds):
            return lower_bounds / s, upper_bounds / s

        def to_optimizer(self, constraints):
            return constraints / s

        def from_optimizer(self, constraints):
            return constraints * s

        def nonlinear_constraint_diffs_from_optimizer(self, lower_diffs, upper_diffs):
            return lower_diffs * s, upper_diffs * s

    config = {
        "variables": {"initial_values": step["start"], "lower_bounds": [-1.0, -1.0], "upper_bounds": [1.0, 1.0]},
        "optimizer": {"method": step["method"], "max_functions": step["max_functions"], "parallel": step["parallel"]},
        "realizations": {"weights": [1.0, 1.0], "realization_min_success": int(step.get("min_success", 0))},
        "gradient": {"number_of_perturbations": 3, "seed": step["seed"]},
    }
    if mask is not None:
        config["variables"]["mask"] = mask
    if step["constraint"]:
        config["nonlinear_constraints"] = {"lower_bounds": [-np.inf], "upper_bounds": [step["con_upper"]]}
    if step["method"] == "differential_evolution":
        config["optimizer"]["options"] = {"seed": step["seed"], "popsize": 3, "maxiter": 4}
    kw = {}
    if c != 1.0:
        kw["objectives"] = Obj()
    if s != 1.0 and step["constraint"]:
        kw["nonlinear_constraints"] = Con()
    transforms = OptModelTransforms(**kw) if kw else None
    tx, ty = step["target"]
    nan_calls = set(step["nan_calls"])
    sign = -1.0 if step["maximize"] else 1.0

    def evaluate(variables, ctx, counter):
        counter[0] += 1
        n = variables.shape[0]
        obj = np.zeros((n, 1))
        con = np.zeros((n, 1))
        for i, r in enumerate(ctx.realizations):
            x = variables[i]
            obj[i, 0] = sign * ((x[0] - tx - 0.125 * r) ** 2 + (x[1] - ty) ** 2)
            if x[1] == NAN_MARK:
                obj[i, 0] = np.nan
            con[i, 0] = x[0] + x[1]
        if counter[0] in nan_calls:
            obj[:] = np.nan
        return EvaluatorResult(objectives=obj, constraints=con if ctx.config.nonlinear_constraints is not None else None)

    return config, transforms, evaluate


def _mispaired(results, partners):
    """Why the delivered user-domain results are NOT, position by position, the back-transformed versions of the
    delivered optimizer-domain results (None when they are).  The drivers use no variable transform, so a result and
    its transformed version are of the same class, both with or both without functions, at the same variables."""
    import numpy as np
    if partners is None:
        return None
    if len(results) != len(partners):
        return f"{len(results)} results but {len(partners)} transformed results"
    for k, (u, t) in enumerate(zip(results, partners)):
        if type(u) is not type(t):
            return f"position {k}: {type(u).__name__} paired with {type(t).__name__}"
        if (getattr(u, "functions", None) is None) != (getattr(t, "functions", None) is None):
            return f"position {k}: functions present in only one of the pair"
        if not np.array_equal(u.evaluations.variables, t.evaluations.variables):
            return f"position {k}: result at {u.evaluations.variables.tolist()} paired with one at {t.evaluations.variables.tolist()}"
    return None


class _Recorder:
    """Observer of every event of a real run: what was delivered (read back from the real objects) and what every
    tracker holds right after the event."""

    def __init__(self, steps, path_of, trackers):
        self.steps, self.path_of, self.trackers = steps, path_of, trackers
        self.ident = _Ident()
        self.history, self.held = [], [[] for _ in trackers]
        self.mispaired = None

    def __call__(self, event):
        has_r = "results" in event.data
        has_t = "transformed_results" in event.data
        items = []
        if has_r:
            results = event.data["results"]
            partners = event.data.get("transformed_results")
            bad = _mispaired(results, partners)
            if bad is not None and self.mispaired is None:
                self.mispaired = {"event": len(self.history), "why": bad}
            for k, u in enumerate(results):
                t = partners[k] if partners is not None and k < len(partners) else None
                items.append({"id": self.ident.add(u, t), "u": _facet(u), "t": _facet(t) if t is not None else None})
        src = self.steps.index(event.source)
        self.history.append(["emit", {"type": event.event_type.name, "tval": event.event_type.value, "src": src,
                                      "path": list(self.path_of(src)), "has_results": has_r, "has_transformed": has_t,
                                      "items": items}])
        for h, (p, t) in enumerate(self.trackers):
            self.held[h].append(self.ident.of(p.get(t, "results")))


def _run_one_step(plan, sid, step, current, mask=None, variables=None):
    import numpy as np
    from ropt.config.enopt import EnOptConfig
    config, transforms, evaluate = _problem(step, mask)
    current["eval"] = evaluate
    kw = {}
    if step.get("kind") == "evaluator":
        kw["variables"] = np.array(step["points"], dtype=np.float64)
    elif variables is not None:
        kw["variables"] = variables
    code = plan.run_step(sid, config=EnOptConfig.model_validate(config, context=transforms), transforms=transforms, **kw)
    return getattr(code, "name", str(code))


def _run_plan(case):
    import warnings
    from ropt.enums import EventType
    from ropt.plan import OptimizerContext, Plan
    warnings.simplefilter("ignore")
    current = {"eval": None, "counter": [0]}

    def evaluator(variables, ctx):
        return current["eval"](variables, ctx, current["counter"])

    ctx = OptimizerContext(evaluator=evaluator)
    plan = Plan(ctx)
    steps = [plan.add_step("evaluator" if s.get("kind") == "evaluator" else "optimizer") for s in case["steps"]]
    trackers, effective = [], []
    for spec in case["handlers"]:
        hid, eff = _add_tracker(plan, spec, steps)
        trackers.append((plan, hid))
        effective.append(eff)
    rec = _Recorder(steps, lambda src: [0], trackers)
    for et in EventType:
        ctx.add_observer(et, rec)
    exits = []
    for sid, step in zip(steps, case["steps"]):
        current["counter"] = [0]
        exits.append(_run_one_step(plan, sid, step, current))
    return {"history": rec.history, "held": rec.held, "exits": exits, "handlers": effective, "mispaired": rec.mispaired}


def _run_nested(case):
    import warnings
    from ropt.enums import EventType
    from ropt.plan import OptimizerContext, Plan
    warnings.simplefilter("ignore")
    current = {"eval": None, "counter": [0]}
    state = {"nested": False}

    def evaluator(variables, ctx):
        return current["eval"](variables, ctx, current["counter"])

    ctx = OptimizerContext(evaluator=evaluator)
    outer, inner = Plan(ctx), Plan(ctx)
    s_out, s_in, s_ev = outer.add_step("optimizer"), inner.add_step("optimizer"), outer.add_step("evaluator")
    steps, plans = [s_out, s_in, s_ev], [outer, inner]
    trackers, effective = [], []
    for spec in case["handlers"]:
        pidx = _hspec(spec)[3]
        hid, eff = _add_tracker(plans[pidx], spec, steps)
        trackers.append((plans[pidx], hid))
        effective.append(eff)
    # Plan.emit_event: the inner plan forwards to its parent once the outer step has adopted it
    rec = _Recorder(steps, lambda src: ([1, 0] if state["nested"] else [1]) if src == 1 else [0], trackers)
    for et in EventType:
        ctx.add_observer(et, rec)

    def inner_function(plan, variables):
        _run_one_step(plan, s_in, case["inner"], current, mask=[False, True], variables=variables)
        current["eval"] = _problem(case["outer"], [True, False])[2]
        return plan.get(trackers[0][1], "results")

    inner.add_function(inner_function)
    exits = []
    if case["pre_inner"]:
        import numpy as np
        inner.run_function(np.array(case["inner"]["start"], dtype=np.float64))
    if case["evaluator"] is not None:
        exits.append(_run_one_step(outer, s_ev, case["evaluator"], current))
    state["nested"] = True
    import numpy as np
    from ropt.config.enopt import EnOptConfig
    config, transforms, evaluate = _problem(case["outer"], [True, False])
    current["eval"] = evaluate
    code = outer.run_step(s_out, config=EnOptConfig.model_validate(config, context=transforms), transforms=transforms,
                          nested_optimization=inner)
    exits.append(getattr(code, "name", str(code)))
    return {"history": rec.history, "held": rec.held, "exits": exits, "handlers": effective, "mispaired": rec.mispaired}


def _basic_script(case):
    """Run modes of one BasicOptimizer object, one per run(): normal | fail (every evaluation NaN) | infeasible (every
    constraint value far outside, needs a constraint and a tolerance) | abort<k> (abort callback fires after k evaluations)."""
    if "script" in case:
        return list(case["script"])
    script = ["normal"] * int(case.get("runs", 1))
    if case.get("abort_after") is not None:
        script[0] = f"abort{int(case['abort_after'])}"
    return script


def _run_basic(case):
    import inspect
    import warnings
    import numpy as np
    from ropt.config.enopt import EnOptConfig
    from ropt.enums import EventType
    from ropt.evaluator import EvaluatorResult
    from ropt.plan import BasicOptimizer
    warnings.simplefilter("ignore")
    step = case["steps"][0]
    config, transforms, evaluate = _problem(step)
    counter = [0]
    ident = _Ident()
    history = []
    tval = EventType.FINISHED_EVALUATION.value
    what, tol, sources, _, flags = _hspec(case["handlers"][0])
    mode = {"now": "normal", "abort": None}
    mis = {"first": None}

    def evaluator(variables, ctx):
        out = evaluate(variables, ctx, counter)
        if mode["now"] == "fail" or (mode["now"] == "infeasible" and (out.constraints is None or tol is None)):
            return EvaluatorResult(objectives=np.full_like(out.objectives, np.nan), constraints=out.constraints)
        if mode["now"] == "infeasible":
            return EvaluatorResult(objectives=out.objectives, constraints=out.constraints + 16.0)
        return out

    def callback(results, transformed):
        bad = _mispaired(results, transformed if transformed else None)
        if bad is not None and mis["first"] is None:
            mis["first"] = {"event": len(history), "why": bad}
        items = []
        for k, u in enumerate(results):
            t = transformed[k] if transformed and k < len(transformed) else None
            items.append({"id": ident.add(u, t), "u": _facet(u), "t": _facet(t) if t is not None else None})
        history.append(["emit", {"type": "FINISHED_EVALUATION", "tval": tval, "src": 0, "path": [0], "has_results": True,
                                 "has_transformed": bool(transformed), "items": items}])

    d_tol = inspect.signature(BasicOptimizer.__init__).parameters["constraint_tolerance"].default
    kw = {"transforms": transforms, "constraint_tolerance": tol}
    if "d" in flags and tol == d_tol and tol is not None:
        del kw["constraint_tolerance"]
    opt = BasicOptimizer(EnOptConfig.model_validate(config, context=transforms), evaluator, **kw)
    opt.set_results_callback(callback, transformed=True)
    opt.set_abort_callback(lambda: mode["abort"] is not None and counter[0] >= mode["abort"])
    held, exits, var_ok, exit_ok = [], [], True, True
    for m in _basic_script(case):
        # BasicOptimizer.run builds a fresh plan and tracker: the same as a reset tracker.  The observation of a run is
        # attached to its last operation -- the reset itself when the run delivers nothing.
        history.append(["put", None])
        held.append("unobserved")
        counter[0] = 0
        mode["now"] = "normal" if m.startswith("abort") else m
        mode["abort"] = int(m[5:]) if m.startswith("abort") else None
        before = len(history)
        opt.run()
        res = opt.results
        var_ok = var_ok and ((opt.variables is None) if res is None else
                             (opt.variables is not None and np.array_equal(opt.variables, res.evaluations.variables)))
        held.extend(["unobserved"] * (len(history) - before))
        held[-1] = ident.of(res)
        exits.append(opt.exit_code.name)
        if mode["abort"] == 0 and opt.exit_code.name != "USER_ABORT":
            exit_ok = False
    return {"history": history, "held": [held], "exits": exits, "variables_ok": bool(var_ok), "exit_ok": bool(exit_ok),
            "result_without_events": False, "handlers": [[what, tol, sources, 0]], "mispaired": mis["first"]}


def run_impl(case):
    if case["kind"] == "syn":
        return _run_syn(case)
    if case["kind"] == "plan":
        return _run_plan(case)
    if case["kind"] == "nested":
        return _run_nested(case)
    return _run_basic(case)


# ---- Gallina printer ------------------------------------------------------------------------------
def _q(x):
    """Exact value of a finite float as n / 2^k (every float is dyadic): (qd n k)."""
    from fractions import Fraction
    x = float(x)
    if math.isnan(x) or math.isinf(x):
        raise ValueError(f"not finite: {x}")
    f = Fraction(x)
    k = f.denominator.bit_length() - 1
    if f.denominator != 1 << k:
        raise ValueError("not dyadic")
    n = f.numerator
    return f"(qd ({n}) {k})" if n < 0 else f"(qd {n} {k})"


def _viol_term_full(v):
    if v is None:
        return "v0"
    return "(vv " + " ".join("na" if a is None else f"(ar {cq.lst(_q(x) for x in a)})" for a in v) + ")"


def _viol_term(v):
    # the two violation triples of the exhaustive alphabets have names (defined in HEADER by the same printer)
    if v == _FEAS:
        return "vF"
    if v == _INFEAS:
        return "vI"
    return _viol_term_full(v)


def _facet_term(f):
    if not f["isfun"]:
        if f["hasf"] or f["viol"] is not None:
            raise ValueError("gradient result with function fields")
        return "gg"
    v = _viol_term(f["viol"])
    if not f["hasf"]:
        return f"(f0 {v})"
    if math.isnan(f["obj"]):
        return f"(fn {v})"
    return f"(ff {_q(f['obj'])} {v})"


def _op_term(op):
    if op[0] == "put":
        if op[1] is None:
            return "(Put None)"
        return f"(put {int(op[1]['id'])} {_facet_term(op[1]['u'])})"
    ev = op[1]
    items = cq.lst(f"(itm {int(it['id'])} {_facet_term(it['u'])} {_facet_term(it['t'] if it['t'] is not None else it['u'])})"
                   for it in ev["items"])
    path = [int(x) for x in ev.get("path", [0])]
    head = "evt" if path == [0] else f"evp {cq.nats(path)}"
    return f"({head} {int(ev['tval'])} {int(ev['src'])} {cq.b(ev['has_results'])} {cq.b(ev['has_transformed'])} {items})"


def _held_term(h):
    if h == "unobserved":
        return "hu"
    if h is None:
        return "hn"
    return f"(hs {int(h)})"


def _effective(case, obs):
    """The trackers' configurations as the driver created them (defaults read from the real signatures)."""
    if "handlers" in obs:
        return [tuple(h) for h in obs["handlers"]]
    return [_hspec(h)[:4] for h in case["handlers"]]


def _handlers_term(effective):
    return cq.lst((f"(cfgc " if pl == 0 else f"(cfgp {int(pl)} ") + f"{'Best' if w == 'best' else 'Last'} {cq.opt(tol, _q)} {cq.nats(ss)})"
                  for w, tol, ss, pl in effective)


_EXH = _handlers_term([(w, tol, ss, 0) for w, tol, ss in EX_HANDLERS])
# names for the terms every exhaustive case repeats (the Coq side is bound by the size of the literal)
HEADER = ("From Ropt Require Import Model.Tracker.\n"
          f"Definition vF := {_viol_term_full(_FEAS)}.\nDefinition vI := {_viol_term_full(_INFEAS)}.\n"
          f"Definition exh : list Tracker.config := {_EXH}.")


def _transform_term(case):
    """Per source step (a, b) with user objective = a * optimizer objective + b: the objective transform the driver ran the
    step with (synthetic: TRANSFORMS; real: 1/c = sign * oscale of _problem)."""
    def ab(step):
        return (-1.0 if step["maximize"] else 1.0) * float(step.get("oscale", 1.0)), 0.0
    if case["kind"] == "syn":
        a, b = TRANSFORMS[case["transform"]]
        return f"(tr3 {_q(a)} {_q(b)})"
    if case["kind"] == "nested":
        a, b = ab(case["outer"])
        return f"(tr3 {_q(a)} {_q(b)})"
    return cq.lst(f"({_q(a)}, {_q(b)})" for a, b in (ab(s) for s in case["steps"]))


def coq_case(case, obs):
    handlers = _handlers_term(_effective(case, obs))
    if handlers == _EXH:
        handlers = "exh"
    ops = cq.lst(_op_term(op) for op in obs["history"])
    held = cq.lst(cq.lst(_held_term(h) for h in hs) for hs in obs["held"])
    return f"(Build_case {handlers} {ops} {held} {_transform_term(case)})"


# ---- oracle: the property text on the implementation's output (no model) --------------------------
def _feasible(f, tol):
    if tol is None or f["viol"] is None:
        return True
    return all(x <= tol for arr in f["viol"] if arr is not None for x in arr)


def oracle(case, obs):
    """The property text on the observation.  Per tracker: the results delivered so far by a tracked source on the
    tracker's plan or a plan nested below it; 'best' must hold a feasible function result whose optimizer-domain
    objective is the lowest of them (any tied one), nothing iff there is none; 'last' the most recent feasible one."""
    if obs.get("mispaired") is not None:
        # "the weighted objective in the domain the optimizer minimizes" of a delivered result is that of ITS transformed version
        return {"clause": "delivered-results-not-paired-with-their-transformed-versions", "detail": obs["mispaired"]}
    if case["kind"] == "basic":
        if not obs["variables_ok"]:
            return {"clause": "basic-optimizer-variables-not-of-reported-result", "detail": None}
        if obs["result_without_events"]:
            return {"clause": "basic-optimizer-reports-undelivered-result", "detail": None}
        if not obs.get("exit_ok", True):
            return {"clause": "basic-optimizer-exit-code-of-aborted-run", "detail": obs["exits"]}
    for h, (what, tol, sources, plan) in enumerate(_effective(case, obs)):
        cands = {}       # id -> optimizer-domain objective (best)
        known = {}       # id -> optimizer-domain objective of every candidate this tracker was ever shown
        alt = None       # (id, other possible comparison objective) of an object placed with Plan.set
        seen = {}        # id -> why a delivered result is not a candidate
        stale = set()    # candidates delivered before the latest reset
        last = None
        for k, op in enumerate(obs["history"]):
            if op[0] == "put":
                stale.update(cands)
                cands, last, alt = {}, None, None
                if op[1] is not None:
                    # Plan.set is outside the property text: the object is compared through its own objective, or --
                    # when it is the very object the tracker chose last -- through its optimizer-domain partner
                    pid = op[1]["id"]
                    cands[pid] = op[1]["u"]["obj"]
                    if pid in known:
                        alt = (pid, known[pid])
                    last = pid
            else:
                ev = op[1]
                tracked = (ev["type"] == "FINISHED_EVALUATION" and ev["has_results"] and ev["src"] in sources
                           and plan in ev.get("path", [0]))
                for it in ev["items"]:
                    t = it["t"] if ev["has_transformed"] else it["u"]
                    if not tracked:
                        seen[it["id"]] = "untracked-source-or-event"
                    elif not (t["isfun"] and t["hasf"]):
                        seen[it["id"]] = "not-a-function-result"
                    elif not _feasible(t, tol):
                        seen[it["id"]] = "infeasible"
                    else:
                        last = it["id"]
                        if math.isnan(t["obj"]):
                            seen[it["id"]] = "nan-objective"
                        else:
                            cands[it["id"]] = t["obj"]
                            known[it["id"]] = t["obj"]
            got = obs["held"][h][k]
            if got == "unobserved":
                continue
            where = {"handler": [what, tol, sources, plan], "after_op": k, "held": got}
            if what == "last":
                if got != last:
                    return {"clause": "last-is-not-most-recent-feasible-function-result", "detail": {**where, "expected": last}}
                continue
            if got is not None and got not in cands and got in stale:
                return {"clause": "best-holds-result-from-before-the-reset" + ("-or-an-earlier-run" if case["kind"] == "basic" else ""),
                        "detail": where}
            if not cands:
                if got is not None:
                    return {"clause": "best-holds-" + seen.get(got, "unknown-object"), "detail": where}
            elif got is None:
                return {"clause": "best-blocked-valid-result-not-retained", "detail": {**where, "candidates": len(cands)}}
            elif got not in cands:
                return {"clause": "best-holds-" + seen.get(got, "unknown-object"), "detail": where}
            else:
                views = [cands] if alt is None or alt[0] not in cands else [cands, {**cands, alt[0]: alt[1]}]
                if all(v[got] > min(v.values()) for v in views):
                    return {"clause": "best-is-not-lowest-in-optimizer-domain",
                            "detail": {**where, "held_objective": cands[got], "lowest": min(cands.values())}}
    return None


def nontrivial(case, obs):
    n = sum(len(op[1]["items"]) for op in obs["history"] if op[0] == "emit")
    holds = any(hs and hs[-1] not in (None, "unobserved") for hs in obs["held"])
    return n >= 2 and holds


def _steps_of(case):
    if case["kind"] == "nested":
        return [case["outer"], case["inner"]] + ([case["evaluator"]] if case["evaluator"] is not None else [])
    return case.get("steps", [])


def features(case, obs):
    emits = [op[1] for op in obs["history"] if op[0] == "emit"]
    items = [it for ev in emits for it in ev["items"]]
    nan = sum(1 for it in items if it["u"]["hasf"] and math.isnan(it["u"]["obj"]))
    n = len(obs["history"])
    steps = _steps_of(case)
    batch = max((len(ev["items"]) for ev in emits), default=0)
    mixed = any(len({(it["u"]["isfun"], it["u"]["hasf"] and not math.isnan(it["u"]["obj"])) for it in ev["items"]}) > 1
                for ev in emits)
    stream = case["kind"]
    if stream == "syn":
        stream = "syn-nested-plans" if case.get("plans", 1) > 1 else "syn"
    return {"kind": stream, "ops": "1-3" if n <= 3 else "4-12" if n <= 12 else "13-40" if n <= 40 else ">40",
            "transform": case.get("transform", "real"), "nan_results": min(nan, 3),
            "puts": min(2, sum(1 for op in obs["history"] if op[0] == "put")),
            "gradients": min(2, sum(1 for it in items if not it["u"]["isfun"])),
            "largest_batch": min(batch, 4), "batch_mixes_valid_and_invalid": mixed,
            "tolerances": ",".join(sorted({"None" if h[1] is None else "0" if h[1] == 0 else "pos" for h in _effective(case, obs)})),
            "basic_runs": "-" if case["kind"] != "basic" else ">".join(_basic_script(case)),
            "maximize": any(s.get("maximize") for s in steps),
            "scaled": any(s.get("oscale", 1.0) != 1.0 or s.get("cscale", 1.0) != 1.0 for s in steps),
            "methods": ",".join(sorted({("evaluator" if s.get("kind") == "evaluator" else s["method"] + ("/parallel" if s.get("parallel") else ""))
                                        for s in steps})) or "-"}


def known_signature(case, obs, violation):
    return None


def shrink(case):
    if case["kind"] != "syn":
        return
    ops = case["ops"]
    for k in range(len(ops)):
        yield {**case, "ops": ops[:k] + ops[k + 1:]}
    for k, op in enumerate(ops):
        if op[0] == "emit" and len(op[5]) > 1:
            for j in range(len(op[5])):
                yield {**case, "ops": ops[:k] + [op[:5] + [op[5][:j] + op[5][j + 1:]] + op[6:]] + ops[k + 1:]}
    if len(case["handlers"]) > 1:
        for k in range(len(case["handlers"])):
            yield {**case, "handlers": [case["handlers"][k]]}


def search(rng, case):
    if case is not None and case["kind"] == "syn":
        yield from itertools.islice(shrink(case), 0, 200)
    for _ in range(600):
        yield _rand_history(rng, 8)
    for _ in range(20):
        yield _rand_plan(rng, basic=rng.random() < 0.5)
    for _ in range(6):
        yield _rand_nested(rng)


MANIFEST = {
    "level_text": ("Machine-checked Coq proof, by induction over arbitrary operation histories, that the executable model of "
                   "DefaultTrackerHandler / _update_optimal_result / _get_last_result / Plan.emit_event's forwarding to parent plans "
                   "(Model/Tracker.v) holds after any history nothing iff no feasible function result with a defined optimizer-domain "
                   "objective was delivered by a tracked source on the tracker's plan or a plan nested below it, and otherwise the first such "
                   "result whose optimizer-domain weighted objective is minimal (so it is feasible and lowest, and the held objective never "
                   "rises); that gradient, function-less, NaN, infeasible, other-source, other-event and other-plan deliveries leave the state "
                   "unchanged at any position; that the grouping of results into events is irrelevant (a batch equals its results delivered one "
                   "by one, both tracker kinds); that from any handler state (after Plan.set replaced or re-placed the stored result) the held "
                   "result is kept unless a later candidate is strictly better; that a 'last' tracker holds the most recent feasible function "
                   "result; that under a sign-flipping transform the retained result maximises the user objective, and under any affine objective transform "
                   "with paired deliveries the compared objective is the forward transform of the reported one, so the reported result is the "
                   "optimum (C12_reported_is_optimum_under_pairing; the pairing hypothesis is evaluated on every real event by "
                   "Chk_C12.paired_ok); and that the BasicOptimizer "
                   "plan reports exactly that state for every constraint_tolerance.  The model is tied to the code on every run by an in-Coq "
                   "correspondence: exhaustive bounded histories, batches and resume-after-intermediate sequences pushed through real "
                   "Plan/tracker objects, sampled long histories on chains of nested plans with resets, and real optimizations (SciPy methods "
                   "incl. parallel differential_evolution, evaluator steps, nested optimizations, BasicOptimizer)."),
    "level_note": ("Trusted: Coq kernel + VM; the Python driver that builds synthetic Results objects, reads back what the tracker can see of "
                   "them (isinstance, functions, weighted_objective, the three violation arrays) and records object identities and which plans an "
                   "event passes through; the observers recording real runs.  Ties: the proof shows the model keeps the earliest minimiser, the "
                   "correspondence accepts any tied minimiser (the property text does not order ties).  Feasibility is judged on the "
                   "optimizer-domain (transformed) result, as the anchored mechanism does.  NaN violations, infinite objectives and Plan.set of "
                   "results without a finite objective are outside the modelled domain; Plan.set itself is outside the property text (its "
                   "modelled effect: C12_put_new / C12_reput_noop / C12_reset).  All 17 theorems print 'Closed under the global context'."),
    "technique": "Coq proof (fold invariants over arbitrary histories on an executable Gallina model) + in-Coq differential correspondence with real Plan/DefaultTrackerHandler/BasicOptimizer objects (exhaustive bounded + sampled + real SciPy runs)",
    "design_ref": "DESIGN.md section 4, C12; design_notes/audit_C12.md",
}
