"""C05 -- sort filter selects exactly the configured rank window of successful members.

Correspondence (all compared inside Coq with Model/Filters.v through Check/Chk_C05.v):
  helper : ropt.plugins.realization_filter.default._sort_and_select on (values, configured weights, failure
           mask) for a list of windows (every window 0 <= first <= last < n plus windows reaching outside);
  filt   : DefaultRealizationFilter(config, 0) + get_realization_weights with sort-objective (one or several
           objectives, weighted keys) and sort-constraint; out-of-range windows must raise ConfigError at construction;
           the same filter object is also called before/after on other values;
  e2e    : EnsembleEvaluator(...) + calculate (functions) with 1-3 filters mapped onto 1-3 objectives and 0-3
           constraints: the rows of Realizations.objective_weights / constraint_weights and the function values;
  seq    : request sequences on ONE EnsembleEvaluator (function-only, gradient-only re-using the cached function result,
           function+gradient, 1-3 points), through an optimizer step driven by a scripted optimizer, or an evaluator
           step: weight matrices of function AND gradient results, values, gradients, delivered results, exit codes
           (TOO_FEW_REALIZATIONS when a window is emptied by failures).

The drivers, Gallina printers and oracles shared with C04 live in props/C04.py.
"""
from __future__ import annotations

import itertools
import math
from fractions import Fraction

import coqio as cq
from props import C04 as base

ID = "C05"
THEOREM_FILE = "Props/C05.v"
CHK_MODULE = "Check.Chk_C05"
CASE_TYPE = "Chk_C05.case"
CHECK_FN = "Chk_C05.check_case"
HEADER = "From Ropt Require Import Model.Filters."
SHARD_SIZE = 150
PARALLEL = True
EXHAUSTIVE = {"quick": True, "thorough": True}

F = Fraction
SORT_KINDS = ["sort-objective", "sort-constraint"]
SEQ_QUICK, SEQ_THOROUGH = 500, 7000
MIXED_KINDS = ["sort-objective", "sort-constraint", "sort-objective", "sort-constraint", "cvar-objective", "cvar-constraint"]
CFGW_POOL = [0.0, 0.0, 0.125, 0.25, 0.375, 0.5, 0.625, 0.75, 0.875, 1.0]


def run_sort_helper(case):
    import numpy as np
    from ropt.plugins.realization_filter.default import _sort_and_select
    values = np.array(case["values"], dtype=np.float64)
    cfgw = np.array(case["cfgw"], dtype=np.float64)
    failed = np.array(case["failed"], dtype=bool)
    answers = []
    for first, last in case["windows"]:
        try:
            w = _sort_and_select(values.copy(), cfgw.copy(), failed.copy(), int(first), int(last))
            answers.append(["ok", np.array(w, dtype=np.float64).tolist()])
        except (IndexError, ValueError, ZeroDivisionError) as e:
            answers.append(["raise", type(e).__name__])
    return {"answers": answers}


def run_impl(case):
    if case["kind"] == "helper":
        return run_sort_helper(case)
    return base.run_impl(case)


def coq_case(case, obs):
    k = case["kind"]
    if k == "helper":
        ans = []
        for (f, l), a in zip(case["windows"], obs["answers"]):
            if a[0] != "ok":
                raise ValueError("helper raised " + a[1])
            ans.append(f"({cq.nat(f)}, {cq.nat(l)}, {base.qs(base.finite_or_raise(a[1]))})")
        return f"(Helper {base.qs(case['values'])} {base.qs(case['cfgw'])} {cq.bs(case['failed'])} {cq.lst(ans)})"
    if k == "filt":
        return base.filt_term(case, obs)
    if k == "seq":
        return base.seq_term(case, obs)
    return base.e2e_term(case, obs)


def oracle(case, obs):
    k = case["kind"]
    if k == "seq":
        return base.oracle_seq(case, obs)
    if k == "helper":
        keys = [None if f else F(v) for v, f in zip(case["values"], case["failed"])]
        for (first, last), a in zip(case["windows"], obs["answers"]):
            if a[0] != "ok":
                return {"clause": "exception-instead-of-weights", "detail": [first, last, a[1]]}
            v = base.oracle_sort(keys, case["cfgw"], first, last, a[1])
            if v is not None:
                v["detail"] = {"window": [first, last], "inner": v["detail"]}
                return v
        return None
    if k == "filt":
        return base.oracle_filter_outcome(case["method"], obs, case["objs"], case.get("cons"), obs["outcome"])
    return base.oracle_e2e(case, obs)


# ---- generators -----------------------------------------------------------------------
def all_windows(n):
    w = [[f, l] for f in range(n) for l in range(f, n)]
    # windows reaching outside the ensemble / inverted: the helper's slice semantics must still hold
    w += [[0, n], [n - 1, n + 1], [n, n], [1, 0]]
    return w


def gen_cfgw(rng, n):
    """configured weights with zeros, pairwise distinct non-zero entries where possible"""
    pool = CFGW_POOL[:]
    rng.shuffle(pool)
    w = [pool[i % len(pool)] for i in range(n)]
    if n > len(pool):
        w = [rng.choice(CFGW_POOL) for _ in range(n)]
    return w


def gen_helper_exhaustive(tier, rng):
    full_n = 5 if tier == "quick" else 6
    for n in range(1, full_n + 1):
        wins = all_windows(n)
        for mask in itertools.product([False, True], repeat=n):
            for perm in itertools.permutations(range(n)):
                yield {"kind": "helper", "values": base.perm_values(perm), "cfgw": gen_cfgw(rng, n), "failed": list(mask),
                       "windows": wins, "_stream": "exhaustive"}


def gen_helper_ties(tier, rng):
    if tier == "quick":
        for _ in range(600):
            n = rng.randint(2, 6)
            rate = rng.choice([0, 0.2, 0.5])
            yield {"kind": "helper", "values": [float(rng.randint(0, 2)) for _ in range(n)], "cfgw": gen_cfgw(rng, n),
                   "failed": [rng.random() < rate for _ in range(n)], "windows": all_windows(n), "_stream": "ties"}
    else:
        for n in range(2, 6):
            for vals in itertools.product([0.0, 1.0, 2.0], repeat=n):
                for mask in itertools.product([False, True], repeat=n):
                    yield {"kind": "helper", "values": list(vals), "cfgw": gen_cfgw(rng, n), "failed": list(mask),
                           "windows": all_windows(n), "_stream": "ties"}


def gen_helper_sampled(tier, rng):
    for _ in range(300 if tier == "quick" else 6000):
        n = rng.randint(1, 40)
        ties = rng.random() < 0.3
        vals = [float(rng.randint(0, 5)) if ties else base.dyadic(rng, -8, 8, 64) for _ in range(n)]
        rate = rng.choice([0, 0, 0.1, 0.3, 0.7, 1.0])
        failed = [rng.random() < rate for _ in range(n)]
        wins = []
        for _ in range(5):
            f = rng.randrange(n)
            wins.append([f, rng.randint(f, n - 1)])
        wins.append([0, n - 1])
        cfgw = [rng.choice(CFGW_POOL) if rng.random() < 0.8 else base.dyadic(rng, 0, 2, 64) for _ in range(n)]
        yield {"kind": "helper", "values": vals, "cfgw": cfgw, "failed": failed, "windows": wins, "_stream": "sampled"}


def gen_cases(tier, rng):
    yield from gen_helper_exhaustive(tier, rng)
    yield from gen_helper_ties(tier, rng)
    yield from gen_helper_sampled(tier, rng)
    for _ in range(900 if tier == "quick" else 16000):
        c = base.gen_filt(rng, SORT_KINDS, wild_rate=0.12)
        c["_stream"] = "filt"
        yield c
    for _ in range(200 if tier == "quick" else 7000):
        c = base.gen_e2e(rng, MIXED_KINDS)
        c["_stream"] = "e2e"
        yield c
    for _ in range(SEQ_QUICK if tier == "quick" else SEQ_THOROUGH):
        c = base.gen_seq(rng, MIXED_KINDS)
        c["_stream"] = "seq"
        yield c


# ---- evidence ---------------------------------------------------------------------------
def nontrivial(case, obs):
    if case["kind"] == "helper":
        return case["failed"].count(False) >= 2
    return base.nontrivial(case, obs)


def features(case, obs):
    if case["kind"] == "helper":
        n = len(case["values"])
        keys = [None if f else v for v, f in zip(case["values"], case["failed"])]
        return {"kind": "helper/" + case.get("_stream", "?"), "n": n if n <= 7 else "8-40",
                "failed": min(case["failed"].count(True), 4), "ties": base._has_ties(keys)}
    f = base.features(case, obs)
    if case["kind"] == "filt":
        m = case["method"]
        f["window"] = "valid" if m["first"] <= m["last"] < len(case["rw"]) else "out-of-range"
    return f


def known_signature(case, obs, violation):
    return None


def shrink(case):
    for c in base.shrink(case):
        if c["kind"] == "filt":
            m, R = c["method"], len(c["rw"])
            if m["name"].startswith("sort") and len(case["rw"]) != R and case["method"]["last"] < len(case["rw"]):
                # keep an in-range window in range
                c = {**c, "method": {**m, "first": min(m["first"], R - 1), "last": min(m["last"], R - 1)}}
        yield c


def search(rng, case):
    if case is None:
        yield from itertools.islice(gen_cases("quick", rng), 0, 1500)
        return
    yield from shrink(case)
    if case["kind"] == "helper":
        for _ in range(200):
            n = rng.randint(1, 8)
            yield {"kind": "helper", "values": [base.dyadic(rng) for _ in range(n)], "cfgw": gen_cfgw(rng, n),
                   "failed": [rng.random() < 0.2 for _ in range(n)], "windows": all_windows(n)}
    else:
        for _ in range(300):
            yield base.gen_filt(rng, SORT_KINDS)
        for _ in range(200):
            yield base.gen_e2e(rng, MIXED_KINDS)
        for _ in range(300):
            yield base.gen_seq(rng, MIXED_KINDS)


RULE = ("helper/exhaustive: every failure mask x every permutation of n distinct values for n <= 5 (quick) / n <= 6 (thorough), each with "
        "EVERY window 0 <= first <= last < n (plus four windows reaching outside / inverted) and a configured weight vector with zeros and "
        "pairwise distinct non-zero entries; helper/ties: values from {0,1,2} (sampled in quick, all vectors x masks for n <= 5 in thorough); "
        "helper/sampled: n <= 40; filt: DefaultRealizationFilter construction + get_realization_weights for sort-objective (1-3 objectives, "
        "weighted keys) and sort-constraint incl. out-of-range windows, windows emptied by failures, zero-weight windows, 35% with the same filter object "
        "called on other values before (half of those also after) the judged call, method names also in upper case / with the plug-in prefix; e2e: "
        "EnsembleEvaluator construction + calculate (functions) with 1-3 filters (sort and cvar) mapped onto 1-3 objectives and 0-3 constraints through "
        "filter-index maps incl. -1; seq: 1-3 points x 17 request patterns (F, G, FG; gradient-only re-use of the cached function result, stale cache, "
        "repeated requests) on one EnsembleEvaluator (60%), through an optimizer step driven by a scripted optimizer (30%) or an evaluator step (10%); "
        "filter sets mixed / 2-4 filters of the SAME method / windows reaching past the successful ranks; maps any / objectives only / constraints only / all "
        "functions (unused configured filters included); function failures 0-100%, perturbation failures 0-40%; half of the cases with a lazy evaluator "
        "(garbage in every entry flagged inactive) and with a caller that overwrites every writable array it is handed. Non-trivial = at least two "
        "successful realizations (helper), an Ok answer with a non-zero weight on an ensemble of >= 2 (filt), an Ok result with a filtered weight matrix "
        "(e2e, seq); distinct = distinct case inputs.")
ASSUMPTIONS = [
    "first/last are non-negative integers (pydantic NonNegativeInt); ranking values are finite; the stored (normalised) realization and "
    "objective weights of the validated configuration are the model's inputs; sort indices are within the number of objectives / constraints",
    "np.argsort puts NaN last and returns a permutation consistent with the values; the order of tied values is unspecified (every tie order is accepted: "
    "C05_tie_robust, C05_checker_accepts_every_tie_order)",
    "generators draw few-bit dyadic values and dyadic normalised objective weights so that the implementation's float keys are exact",
    "seq cases: one optimisation variable, affine evaluator around each point, perturbation magnitude 1, uniform sampler on [0.5, 1], perturbation_min_success >= 1, "
    "mean estimator, no merge_realizations; the known finding C14:abort-inside-calculate (nothing delivered for an evaluation aborted by a filter) is what the "
    "step model encodes",
]
TRUSTED = [
    "NumPy (argsort/where/count_nonzero/dot, fancy-index assignment, SVD in the 1-variable gradient estimate) as executed by the real code; pydantic validation of the option models",
    "end-to-end / sequence cases in which a filter in use ranks tied values are only checked by the Python oracle, not compared with the model "
    "(the outcome may depend on the unspecified tie order); tie handling is checked at helper and filter level by the tie-robust predicate, which is "
    "proved complete for every tie order and sound off the window edges (C05_checker_*)",
    "the scripted optimizer plug-in and the table evaluator of the seq cases (harness code); EnsembleOptimizer/plan steps as executed by the real code",
    "gradient entries whose row keeps at most 1e-9 of its mass after the realizations lost to perturbation failures are zeroed are not compared with the "
    "model (whether a staircase remainder of rounding size is 0 or 1e-17 -- NaN or a slope after normalisation -- is decided by the rounding of p*n); "
    "the Python oracle still judges them against the weights the implementation reports",
]

MANIFEST = {
    "level_text": ("Machine-checked Coq proofs about the executable model of ropt's sort filters and of the evaluator around them (Model/Filters.v, structured like "
                   "_sort_and_select / _sort_objectives / _sort_constraint / _check_range / get_realization_weights, the evaluator's row assignment, calculate with "
                   "its gradient cache and the exit-code test of optimizer / evaluator steps), for all ensemble sizes, failure masks, value vectors, tie orders, "
                   "windows, weight vectors, filter maps and request sequences; the model is tied to the code on every run by an in-Coq correspondence "
                   "(exhaustive small-n enumeration over permutations x masks x windows, sampled larger ensembles, function level, through "
                   "EnsembleEvaluator.calculate for functions and gradients, and through optimizer / evaluator steps)."),
    "level_note": ("Later proof items (Proofs/FiltersCut.v): `window_ok` is proved sound and complete also on tie groups cut by a window edge - C05_checker_sound_cut, C05_checker_exact, C05_checker_group_count. Proved (Props/C05.v, 22 theorems, all 'Closed under the global context'): rank-window characterisation (C05_window, C05_ranking) and its form for ANY "
                   "ranking argsort may return (C05_tie_robust, C05_model_is_along), failed never ranked, empty window => TOO_FEW_REALIZATIONS at filter level "
                   "(C05_empty_is_too_few_*), at evaluator level (C05_emptied_window_is_too_few: no value, no other exit code) and for optimizer / evaluator steps "
                   "(C05_step_exit_code, C05_step_first_evaluation_aborts, C05_evaluator_step_exit_code), range rejection at configuration time, each filter's row "
                   "applied to exactly the functions mapped to it (C05_rows_*), the reported value and gradient use that row (C05_reported_value, "
                   "C05_gradient_value_in_force), gradient results carry the matrices of the function evaluation of the same point for every request order incl. "
                   "the cached path (C05_any_request_order, C05_gradient_weights_in_force), and the checker's tie-robust predicate accepts every tie order and is "
                   "sound off the window edges (C05_checker_accepts_every_tie_order, C05_checker_accepts_abort_of_every_tie_order, C05_checker_sound).  "
                   "Trusted / modelled, not verified: np.argsort (any order consistent with the keys; end-to-end cases whose filter ranks tied values are judged by "
                   "the tie-robust oracle only), the least-squares gradient of one affine realization (= its slope), pydantic option validation; Coq kernel + VM; "
                   "the Python drivers."),
    "technique": "Coq proof (induction over lists, sorting/counting facts, request-sequence invariant) on an executable Gallina model + in-Coq differential correspondence with the real filter/evaluator code",
    "design_ref": "DESIGN.md section 4, C05",
}
