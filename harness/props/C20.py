"""C20 -- external-process runs equal in-process runs; process death is never success; never hangs;
no orphan process.

Correspondence (DESIGN section 4, C20): every case runs the REAL code twice in the harness process --
once in-process (`<method>`) and once through the external plug-in (`external/<method>`), whose child
process is started through the PATH wrapper `harness/c20_wrapper/ropt_plugin_optimizer` (death by a signal /
exit / raise switches, pipe schedule, pid file, child-side wire log; ropt itself is untouched).  Each case runs in
a forked process group of its own that is killed as a whole after HARD_TIMEOUT_S (reported as a hang).  Recorded for both runs, with every float as
its IEEE-754 bit pattern: the sequence of optimizer callbacks (variables, flags -> functions, gradients
| abort code | exception class), inside each callback the calls of the user's evaluator (variables,
realizations, active flags, returned objectives/constraints) and the results delivered with
FINISHED_EVALUATION, the exit code / exception class of the step and the optimal variables.  For the
external run also: the messages read/written by the parent and by the child, whether the child pid is
alive afterwards, leftovers in the FIFO directory, wall time, hang.  Coq (Check/Chk_C20.v) replays the
in-process callback sequence as the child's script through Model/Pipe.v (parent request loop, child
program, fault) and compares the model's prediction with everything observed of the external run.
"""
from __future__ import annotations

import hashlib
import json
import os
import shutil
import signal
import struct
import sys
import time
from pathlib import Path

import coqio as cq
from common import REPO

ID = "C20"
THEOREM_FILE = "Props/C20.v"
CHK_MODULE = "Check.Chk_C20"
CASE_TYPE = "Chk_C20.case"
CHECK_FN = "Chk_C20.check_case"
HEADER = "From Ropt Require Import Model.Framing Model.Pipe Gen.Generated."
SHARD_SIZE = 8
PARALLEL = True
CASE_TIMEOUT = 420
EXHAUSTIVE = {"quick": False, "thorough": False}

WRAPPER_DIR = Path(__file__).resolve().parent.parent / "c20_wrapper"
WORK = Path(__file__).resolve().parent.parent.parent / ".work"
NAN_BITS = 0x7FF8000000000000
EXTRA_WALL_S = 90          # the run must end within _PROCESS_TIMEOUT + 90 s (Chk_C20.wall_slack; the machine may be heavily
                           # loaded: an external run of 2.5 s was seen to take 13 s at load 140; a hang is unbounded)
WRAPPER_FAULTS = ("kill", "rkill", "exit", "raise")     # injected by the PATH wrapper inside the child
# death by signal: name -> number (the model's DieAfter / DieOnAnswer / DieWaiting carry the number; nothing depends on it)
SIGNALS = {"TERM": 15, "KILL": 9, "INT": 2, "HUP": 1, "ABRT": 6, "SEGV": 11}
SIG_ORDER = ("TERM", "KILL", "INT", "HUP", "ABRT", "SEGV")
SIG_CYCLE = ("TERM", "KILL", "INT", "TERM", "HUP", "ABRT", "TERM", "SEGV")   # SIGTERM (plain `kill`, schedulers) most often
# str() of the exception the wrapper's raise:j:<kind> fault raises in the child (same text as in the wrapper)
ODD_MESSAGE = 'verif: "odd" \\ message\n--READY--\nwith the delimiter, a tab\t and {"error": null}'
RAISE_MESSAGES = {"msg": "verif: injected optimizer failure", "empty": "", "assert": "", "zero": "0", "odd": ODD_MESSAGE}
RAISE_KINDS = ("empty", "msg", "assert", "zero", "odd")
# F20e (fixed in /repo by 6863677): a message larger than the pipe capacity (64 KiB: the config of ~1700+ variables, a
# gradient answer of ~3300 floats) was written only partly by the non-blocking os.write in _JSONPipeCommunicator.write,
# whose result was ignored -> the external run hung for ever with a live child.  The stream below (one corpus input on
# every run, one more generated configuration in the thorough tier) makes a revert show up as `never-hangs`.
BIG_MESSAGES = True
INPROC_DEADLINE_S = 60


# ---------------------------------------------------------------------------------------------
# float / structure encoding
# ---------------------------------------------------------------------------------------------
def bits(x) -> int:
    x = float(x)
    if x != x:
        return NAN_BITS
    return struct.unpack("<Q", struct.pack("<d", x))[0]


def unbits(n: int) -> float:
    return struct.unpack("<d", struct.pack("<Q", n))[0]


def tensor(a):
    """numpy array (0/1/2-D) -> {"d": 1|2, "x": bits}; scalars are treated as 1-element vectors."""
    import numpy as np
    a = np.asarray(a, dtype=np.float64)
    if a.ndim == 0:
        a = a.reshape(1)
    if a.ndim == 1:
        return {"d": 1, "x": [bits(v) for v in a.tolist()]}
    if a.ndim == 2:
        return {"d": 2, "x": [[bits(v) for v in row] for row in a.tolist()]}
    raise ValueError("tensor rank > 2")


def bitify(o):
    """JSON-able object -> same structure with floats {"$f": bits} and ints {"$i": n} (as the wrapper)."""
    if o is None or isinstance(o, (bool, str)):
        return o
    if isinstance(o, float):
        return {"$f": bits(o)}
    if isinstance(o, int):
        return {"$i": o}
    if isinstance(o, (list, tuple)):
        return [bitify(x) for x in o]
    if isinstance(o, dict):
        return {str(k): bitify(v) for k, v in o.items()}
    if hasattr(o, "tolist"):
        return bitify(o.tolist())
    return {"$repr": repr(o)}


def _digest(o) -> str:
    return hashlib.sha1(json.dumps(o, sort_keys=True).encode()).hexdigest()[:20]


def _arr_effect(tag: int, a) -> list[int]:
    """Flatten an array into ints: tag, ndim, shape..., payload (floats as bits, ints/bools as ints)."""
    import numpy as np
    a = np.asarray(a)
    out = [tag, a.ndim] + [int(s) for s in a.shape]
    flat = a.reshape(-1).tolist()
    if len(flat) > 256:
        # large arrays (big-message configurations) enter the trace by a digest of their bit patterns
        raw = json.dumps([bits(v) if a.dtype.kind == "f" else repr(v) for v in flat]).encode()
        return out + [-77] + [int(hashlib.sha1(raw).hexdigest()[k:k + 12], 16) for k in (0, 12, 24)]
    if a.dtype.kind == "f":
        out += [bits(v) for v in flat]
    elif a.dtype.kind in "iub":
        out += [int(v) for v in flat]
    else:
        out += [int(hashlib.sha1(repr(v).encode()).hexdigest()[:12], 16) for v in flat]
    return out


def _fingerprint(obj, out: list[int], depth: int = 0) -> None:
    """All numeric content of a results object (dataclass tree), in field order."""
    import dataclasses

    import numpy as np
    if obj is None:
        out.append(-1)
        return
    if isinstance(obj, np.ndarray):
        out.extend(_arr_effect(7, obj))
        return
    if isinstance(obj, (bool, int)):
        out.extend([8, int(obj)])
        return
    if isinstance(obj, float):
        out.extend([9, bits(obj)])
        return
    if dataclasses.is_dataclass(obj) and depth < 4:
        for f in dataclasses.fields(obj):
            if f.name in ("metadata", "config", "evaluation_info", "batch_id"):
                continue
            _fingerprint(getattr(obj, f.name), out, depth + 1)
        return
    out.append(-2)


# ---------------------------------------------------------------------------------------------
# the configuration and the user's evaluator of a case
# ---------------------------------------------------------------------------------------------
def build_config(case: dict, external: bool) -> dict:
    import numpy as np
    method = case["method"]
    cfg: dict = {
        "variables": {"initial_values": list(case["init"])},
        "optimizer": {"method": ("external/" if external else "") + ("scipy/" if case.get("qualified") else "") + method},
        "objectives": {"weights": list(case["obj_weights"])},
        "realizations": {"weights": list(case["real_weights"])},
        "gradient": {"number_of_perturbations": case.get("pert", 3),
                     "perturbation_magnitudes": case.get("pert_mag", 0.01)},
    }
    if case.get("lower") is not None:
        cfg["variables"]["lower_bounds"] = [(-np.inf if v is None else v) for v in case["lower"]]
    if case.get("upper") is not None:
        cfg["variables"]["upper_bounds"] = [(np.inf if v is None else v) for v in case["upper"]]
    if case.get("mask") is not None:
        cfg["variables"]["mask"] = list(case["mask"])
    if case.get("min_success") is not None:
        cfg["realizations"]["realization_min_success"] = case["min_success"]
    opt = cfg["optimizer"]
    for key, name in (("max_functions", "max_functions"), ("max_iterations", "max_iterations"),
                      ("tolerance", "tolerance")):
        if case.get(key) is not None:
            opt[name] = case[key]
    for key, name in (("speculative", "speculative"), ("split", "split_evaluations"), ("parallel", "parallel")):
        if case.get(key):
            opt[name] = True
    if case.get("options") is not None:
        opt["options"] = dict(case["options"])
    if case.get("np_options"):
        # numpy scalars in the free-form options (F20g): {"maxiter": ["int64", 3], "disp": ["bool_", false], ...}
        opt.setdefault("options", {})
        for key, (kind, value) in case["np_options"].items():
            opt["options"][key] = getattr(np, kind)(value)
    if case.get("unenc"):
        # an option value JSON cannot encode (F20f): the solver ignores the unknown option in-process; the external run
        # may end with an error, but without a process left behind and without hanging
        opt.setdefault("options", {})
        opt["options"]["verif_extra"] = {1, 2} if case["unenc"] == "set" else object()
    for key, value in _output_paths(case, external).items():
        opt[key] = value
    case_pad = case.get("pad")
    if case.get("ncon"):
        cfg["nonlinear_constraints"] = {
            "lower_bounds": [(-np.inf if v is None else v) for v in case["con_lower"]],
            "upper_bounds": [(np.inf if v is None else v) for v in case["con_upper"]],
        }
    if case.get("big_lin"):
        # many loose linear constraints with full-precision coefficients: a config message above the pipe capacity
        rows, nvar = int(case["big_lin"]), len(case["init"])
        cfg["linear_constraints"] = {
            "coefficients": [[((i * 31 + j * 17) % 97) / 97.0 - 0.5 for j in range(nvar)] for i in range(rows)],
            "lower_bounds": [-np.inf] * rows,
            "upper_bounds": [1000.0 + i / 7.0 for i in range(rows)],
        }
    elif case.get("lin") is not None:
        lin = case["lin"]
        cfg["linear_constraints"] = {
            "coefficients": [list(r) for r in lin["coef"]],
            "lower_bounds": [(-np.inf if v is None else v) for v in lin["lower"]],
            "upper_bounds": [(np.inf if v is None else v) for v in lin["upper"]],
        }
    if case_pad and not case.get("_nopad"):
        # an ignored option string pads the config MESSAGE of the external run (JSON + delimiter line) to the pipe
        # capacity + pad bytes, so that the pipe cuts it inside the delimiter line (seeded C20_k); same string in-process
        from ropt.config.enopt import EnOptConfig
        ext_cfg = build_config({**case, "_nopad": True}, external=True)
        ext_cfg["optimizer"].setdefault("options", {})["comment"] = ""
        size = len(json.dumps(EnOptConfig.model_validate(ext_cfg).model_dump(round_trip=True), cls=_np_encoder()))
        opt.setdefault("options", {})["comment"] = "x" * (PIPE_CAPACITY + int(case_pad) - len("\n--READY--\n") - size)
    return cfg


def _output_paths(case: dict, external: bool) -> dict:
    """optimizer.output_dir / stdout / stderr of a case (pathlib.Path fields of the configuration; F20d).
    case["paths"] = [use output_dir, stdout name or None, stderr name or None, absolute names]; every run gets its own
    directory under the case's scratch directory."""
    spec = case.get("paths")
    if not spec:
        return {}
    root = Path(case.get("_scratch") or WORK) / ("out-ext" if external else "out-in")
    root.mkdir(parents=True, exist_ok=True)
    use_dir, out, err, absolute = spec
    cfg = {}
    if use_dir:
        cfg["output_dir"] = str(root)
    for key, name in (("stdout", out), ("stderr", err)):
        if name:
            cfg[key] = str(root / name) if (absolute or not use_dir) else name
    return cfg


def _files_ok(case: dict, external: bool) -> bool:
    """The redirection files exist where the configuration says (they are created when the step is set up)."""
    spec = case.get("paths")
    if not spec:
        return True
    root = Path(case["_scratch"]) / ("out-ext" if external else "out-in")
    use_dir, out, err, _ = spec
    return all((root / name).is_file() for name in ((out, err) if out else ()) if name)


class _Recorder:
    """Collects the callback-level trace and, inside each callback, the evaluator calls and results."""

    def __init__(self, case: dict):
        self.case = case
        self.trace: list[dict] = []
        self.stray: list[list[int]] = []
        self.current: list[list[int]] | None = None
        self.ncalls = 0          # calls of the user's evaluator
        self.nstart = 0          # START_EVALUATION events
        self.nfinished = 0       # FINISHED_EVALUATION events

    def effect(self, e: list[int]) -> None:
        (self.current if self.current is not None else self.stray).append(e)

    # -- the user's evaluator ------------------------------------------------------------------
    def evaluator(self, variables, context):
        import numpy as np

        from ropt.evaluator import EvaluatorResult
        case = self.case
        j = self.ncalls
        self.ncalls += 1
        eff = [1, j] + _arr_effect(2, variables) + _arr_effect(3, context.realizations)
        eff += _arr_effect(4, context.perturbations) if context.perturbations is not None else [-4]
        eff += _arr_effect(5, context.active_objectives) if context.active_objectives is not None else [-5]
        eff += _arr_effect(6, context.active_constraints) if context.active_constraints is not None else [-6]
        if case.get("eval_raise_at") is not None and j == case["eval_raise_at"]:
            self.effect(eff + [-9])
            msg = "verif: the user's evaluator failed"
            if case.get("eval_raise_kind") == "base":
                raise VerifInterrupt(msg)          # not an Exception: what Ctrl-C / sys.exit() in the evaluator are
            raise ValueError(msg)
        x = np.asarray(variables, dtype=np.float64)
        real = np.asarray(context.realizations, dtype=np.float64)[:, None]
        centers = np.asarray(case["centers"], dtype=np.float64)          # nobj x nvar
        shift = float(case.get("real_shift", 0.125))
        objs = np.stack([((x - centers[i][None, :] - shift * real) ** 2).sum(axis=1)
                         for i in range(len(case["obj_weights"]))], axis=1)
        cons = None
        if case.get("ncon"):
            coef = np.asarray(case["con_coef"], dtype=np.float64)        # ncon x nvar
            cons = x @ coef.T + 0.0625 * real + 0.25 * (x ** 2).sum(axis=1, keepdims=True)
        for call, row in case.get("nan", []):
            if call == j and row < objs.shape[0]:
                objs[row, :] = np.nan
                if cons is not None:
                    cons[row, :] = np.nan
        eff += _arr_effect(7, objs) + (_arr_effect(8, cons) if cons is not None else [-8])
        self.effect(eff)
        return EvaluatorResult(objectives=objs, constraints=cons)

    # -- observers -----------------------------------------------------------------------------
    def on_start(self, event) -> None:
        from ropt.enums import OptimizerExitCode
        from ropt.exceptions import OptimizationAborted
        j = self.nstart
        self.nstart += 1
        self.effect([10, j])
        if self.case.get("abort_at") is not None and j == self.case["abort_at"] and not self.case.get("abort_late"):
            raise OptimizationAborted(exit_code=OptimizerExitCode(int(self.case.get("abort_code", 4))))

    def on_finished(self, event) -> None:
        from ropt.enums import OptimizerExitCode
        from ropt.exceptions import OptimizationAborted
        from ropt.results import FunctionResults
        j = self.nfinished
        self.nfinished += 1
        for item in event.data.get("results", ()):
            out = [11, 0 if isinstance(item, FunctionResults) else 1]
            _fingerprint(item, out)
            self.effect(out)
        if self.case.get("abort_at") is not None and j == self.case["abort_at"] and self.case.get("abort_late"):
            # the user aborts when the results of evaluation j are reported (after the evaluation, not before it)
            raise OptimizationAborted(exit_code=OptimizerExitCode(int(self.case.get("abort_code", 4))))


class _Hang(BaseException):
    pass


class VerifInterrupt(BaseException):
    """Raised by the user's evaluator in `eval_raise_kind = base` cases (a BaseException, like KeyboardInterrupt)."""


def _with_deadline(seconds: float, fn):
    """Run fn() in the main thread; raise _Hang inside it when it takes longer than `seconds` -- and AGAIN every 1.5 s
    until fn() is left: the code under test catches BaseException around its request handler (to send 'abort' first),
    so a single _Hang raised there can be swallowed by a tree whose loop never gets to re-raise it."""
    state = {"armed": True}

    def handler(signum, frame):
        if state["armed"]:
            raise _Hang()
    old_handler = signal.signal(signal.SIGALRM, handler)
    signal.alarm(0)
    signal.setitimer(signal.ITIMER_REAL, seconds, 1.5)
    try:
        return fn()
    finally:
        state["armed"] = False
        signal.setitimer(signal.ITIMER_REAL, 0)
        signal.signal(signal.SIGALRM, old_handler)


def _run_once(case: dict, external: bool, deadline: float) -> dict:
    """One optimization through the public BasicOptimizer; returns trace + outcome."""
    from ropt.enums import EventType
    from ropt.exceptions import OptimizationAborted
    from ropt.optimization import _optimizer as om
    from ropt.plan import BasicOptimizer

    rec = _Recorder(case)
    orig = om.EnsembleOptimizer._optimizer_callback

    def recording_callback(self, variables, *, return_functions, return_gradients):
        entry = {"v": tensor(variables), "rf": bool(return_functions), "rg": bool(return_gradients),
                 "res": ["raise", "BaseException"], "eff": []}
        outer = rec.current
        rec.current = entry["eff"]
        try:
            f, g = orig(self, variables, return_functions=return_functions, return_gradients=return_gradients)
            entry["res"] = ["ok", tensor(f), tensor(g)]
            return f, g
        except OptimizationAborted as exc:
            code = exc.exit_code
            entry["res"] = ["abort", int(getattr(code, "value", -1))]
            raise
        except (Exception, VerifInterrupt) as exc:
            entry["res"] = ["raise", type(exc).__name__]
            raise
        finally:
            rec.current = outer
            rec.trace.append(entry)

    om.EnsembleOptimizer._optimizer_callback = recording_callback
    out: list = ["raise", "BaseException"]
    best: list[int] = []
    hang = False
    t0 = time.time()
    try:
        def go():
            if case.get("start") is not None:
                # the step is started from a vector that differs from the configured initial values (what a
                # restart, a chained step or a nested optimization does): Plan / optimizer step / tracker directly
                import numpy as np
                from ropt.config.enopt import EnOptConfig
                from ropt.plan import OptimizerContext, Plan
                ctx = OptimizerContext(evaluator=rec.evaluator)
                ctx.add_observer(EventType.START_EVALUATION, rec.on_start)
                ctx.add_observer(EventType.FINISHED_EVALUATION, rec.on_finished)
                plan = Plan(ctx)
                step = plan.add_step("optimizer")
                tracker = plan.add_handler("tracker", sources={step})
                code = plan.run_step(step, config=EnOptConfig.model_validate(build_config(case, external)),
                                     variables=np.array(case["start"], dtype=np.float64))
                res = plan.get(tracker, "results")

                class _Out:
                    exit_code = code
                    variables = None if res is None else res.evaluations.variables
                return _Out
            opt = BasicOptimizer(build_config(case, external), rec.evaluator)
            opt._observers.append((EventType.START_EVALUATION, rec.on_start))
            opt._observers.append((EventType.FINISHED_EVALUATION, rec.on_finished))
            opt.run()
            return opt
        opt = _with_deadline(deadline, go)
        out = ["exit", int(opt.exit_code.value)]
        best = [] if opt.variables is None else [bits(v) for v in opt.variables.tolist()]
    except _Hang:
        hang = True
        out = ["hang"]
    except (Exception, VerifInterrupt) as exc:  # noqa: BLE001 - the observation is the exception class
        out = ["raise", type(exc).__name__, str(exc)[:200]]
    finally:
        om.EnsembleOptimizer._optimizer_callback = orig
    return {"trace": rec.trace, "stray": rec.stray, "out": out, "best": best, "hang": hang,
            "wall_ms": int((time.time() - t0) * 1000), "files_ok": _files_ok(case, external) if case.get("_scratch") else True}


def _pid_alive(pid: int) -> bool:
    try:
        os.kill(pid, 0)
    except ProcessLookupError:
        return False
    except PermissionError:
        return True
    # a zombie child of ours is not "running": reap it if it is ours and has exited
    try:
        done, _ = os.waitpid(pid, os.WNOHANG)
        if done == pid:
            return False
    except ChildProcessError:
        pass
    try:
        with open(f"/proc/{pid}/stat") as f:
            state = f.read().rsplit(")", 1)[1].split()[0]
        return state not in ("Z", "X")
    except OSError:
        return False


def _wait_child_logged(clog: Path, k: int, patience: float = 30.0) -> None:
    """The child logs a message right after writing it; wait until its k-th "w" line is there (it is killed next)."""
    t0 = time.time()
    while time.time() - t0 < patience:
        try:
            if sum(1 for line in clog.read_text().splitlines() if line.startswith('{"w"')) >= k:
                return
        except OSError:
            pass
        time.sleep(0.005)


def _kill_and_wait(pidfile: Path, sig_name: str, patience: float = 60.0) -> bool:
    """Send the signal to the child (pid from the wrapper's pid file; the child is a child of this process) and
    wait until the WHOLE process is gone -- waitid(WNOWAIT) reports it only after its last thread has exited and its
    descriptors are closed (a zombie group leader in /proc can still have live threads holding the FIFO open) --
    without reaping it: that is left to the parent's Popen.  False when it is still alive after `patience` seconds."""
    try:
        pid = int(pidfile.read_text().strip())
        os.kill(pid, signal.SIGABRT if sig_name == "ABRT" else getattr(signal, "SIG" + sig_name))
    except (OSError, ValueError):
        return False
    t0 = time.time()
    while time.time() - t0 < patience:
        try:
            if os.waitid(os.P_PID, pid, os.WEXITED | os.WNOWAIT | os.WNOHANG) is not None:
                return True
        except ChildProcessError:
            return True
        time.sleep(0.005)
    return False


def _read_wire(path: Path) -> list:
    """Wire log (JSON lines {"w"|"r": msg}) -> [[kind, msg], ...]."""
    out = []
    if path.exists():
        for line in path.read_text().splitlines():
            line = line.strip()
            if not line:
                continue
            try:
                d = json.loads(line)
            except ValueError:
                out.append(["broken", line[:80]])
                continue
            for k, v in d.items():
                out.append([k, v])
    return out


def _fold_config(wire: list, req_kind: str, ans_kind: str) -> list:
    """Replace the (large) config payload -- the message that answers "config" -- by its digest."""
    out, expect = [], False
    for kind, msg in wire:
        if expect and kind == ans_kind:
            out.append([kind, "cfg:" + _digest(msg)])
            expect = False
            continue
        if kind == req_kind and msg == "config":
            expect = True
        out.append([kind, msg])
    return out


def _process_timeout() -> float:
    import ropt.plugins.optimizer.external as ext
    return float(ext._PROCESS_TIMEOUT)


HARD_TIMEOUT_S = 330       # the whole case (in-process run + external run + bookkeeping) in its own process group


def run_impl(case: dict) -> dict:
    """Every case runs in a forked process of its own (own session / process group) that is killed as a whole when
    it does not finish within HARD_TIMEOUT_S: whatever the tree under test does -- swallow the deadline exception, block
    in a system call, leave optimizer processes behind -- the check itself cannot hang; such a case is reported as a
    hang (`never-hangs(hard)`)."""
    import select
    import traceback

    scratch = WORK / f"C20-run-{os.getpid()}-{time.time_ns()}"
    scratch.mkdir(parents=True)
    r, w = os.pipe()
    sys.stdout.flush()
    sys.stderr.flush()
    pid = os.fork()
    if pid == 0:
        code = 0
        try:
            os.close(r)
            os.setsid()
            devnull = os.open(os.devnull, os.O_WRONLY)
            os.dup2(devnull, 1)          # what the optimizers print (disp) is not part of the check's output
            os.close(devnull)
            signal.alarm(0)
            signal.setitimer(signal.ITIMER_REAL, 0)
            signal.signal(signal.SIGALRM, signal.SIG_DFL)
            try:
                obs = _run_impl_inner(case, scratch)
            except BaseException as exc:  # noqa: BLE001 - reported to the runner as a harness error
                obs = {"harness_error": type(exc).__name__, "message": str(exc)[:300],
                       "trace": traceback.format_exc()[-1500:]}
            data = json.dumps(obs).encode()
            view = memoryview(data)
            while view:
                view = view[os.write(w, view[:65536]):]
        except BaseException:  # noqa: BLE001
            code = 3
        finally:
            os._exit(code)
    os.close(w)
    chunks, t0, timed_out = [], time.time(), False
    try:
        while True:
            left = HARD_TIMEOUT_S - (time.time() - t0)
            if left <= 0:
                timed_out = True
                break
            ready, _, _ = select.select([r], [], [], min(left, 5.0))
            if ready:
                chunk = os.read(r, 1 << 20)
                if not chunk:
                    break
                chunks.append(chunk)
    finally:
        os.close(r)
        for sig in (signal.SIGKILL,):
            try:
                os.killpg(pid, sig)          # the case's whole process group: itself, optimizer children it left behind
            except (ProcessLookupError, PermissionError):
                pass
        try:
            os.waitpid(pid, 0)
        except ChildProcessError:
            pass
        stage = ""
        try:
            stage = (scratch / "stage").read_text()
        except OSError:
            pass
        shutil.rmtree(scratch, ignore_errors=True)
    if timed_out:
        return _hard_hang_obs(stage)
    try:
        return json.loads(b"".join(chunks).decode())
    except ValueError:
        return {"harness_error": "CaseProcessDied", "message": f"no observation from the case process (stage {stage!r})"}


def _hard_hang_obs(stage: str) -> dict:
    """Observation of a case whose process had to be killed from outside."""
    run = {"trace": [], "stray": [], "out": ["hang"], "best": [], "hang": True, "wall_ms": HARD_TIMEOUT_S * 1000}
    ext = {**run, "child_started": True, "child_alive": True, "fifo_left": [], "pwire": [], "cwire": [], "fault_fired": False,
           "survived": False, "wire_broken": False, "limit_ms": 0, "after_ms": 0, "files_ok": True}
    inproc = {**run, "files_ok": True} if stage != "external" else {**run, "out": ["exit", 0], "hang": False, "files_ok": True}
    return {"cfg_roundtrip": True, "cfg_digest": "cfg:unknown", "inproc": inproc, "ext": ext, "process_timeout_ms": 0,
            "hard_hang": stage or "start"}


def _run_impl_inner(case: dict, scratch: Path) -> dict:
    import tempfile

    import ropt.plugins.optimizer.external as ext
    from ropt.config.enopt import EnOptConfig

    case = {**case, "_scratch": str(scratch)}
    (scratch / "stage").write_text("inproc")
    # -- config round trip through JSON (the lossless-channel assumption for the config message)
    cfg = EnOptConfig.model_validate(build_config(case, external=True))
    dump1 = cfg.model_dump(round_trip=True)
    wire = json.loads(json.dumps(dump1, cls=_np_encoder()))     # (paths as text: what F20d's repair sends)
    dump2 = EnOptConfig.model_validate(wire).model_dump(round_trip=True)
    cfg_digest = "cfg:" + _digest(bitify(wire))
    cfg_roundtrip = bool(case.get("unenc")) or _same_config(wire, json.loads(json.dumps(dump2, cls=_np_encoder())))

    inproc = _run_once(case, external=False, deadline=INPROC_DEADLINE_S)
    (scratch / "stage").write_text("external")

    fifo_root = scratch / "tmp"
    fifo_root.mkdir(parents=True)
    pidfile, clog, plog = scratch / "child.pid", scratch / "child.log", scratch / "parent.log"
    saved_env = {k: os.environ.get(k) for k in
                 ("PATH", "VERIF_C20_SRC", "VERIF_C20_PIDFILE", "VERIF_C20_LOG", "VERIF_C20_FAULT", "VERIF_C20_STDERR",
                  "VERIF_C20_SCHED")}
    saved_tmp = tempfile.tempdir
    orig_read, orig_write = ext._JSONPipeCommunicator.read, ext._JSONPipeCommunicator.write
    plog_fd = os.open(plog, os.O_WRONLY | os.O_CREAT | os.O_APPEND, 0o600)

    nread = [0]
    wfault = {"fired": False, "dead": False}
    # pipe schedule: [a, b, c, d] -- parent: after every request read the next a reads find nothing, the first b
    # attempts to write each answer find the FIFO not writable; child (through the wrapper): the same with c, d
    sched = [int(v) for v in (case.get("sched") or [0, 0, 0, 0])]
    skip = {"read": sched[0], "write": sched[1]}

    def p_read(self):
        if skip["read"] > 0:
            skip["read"] -= 1
            return None
        data = orig_read(self)
        if data is not None:
            skip["read"] = sched[0]
            os.write(plog_fd, (json.dumps({"r": bitify(data)}) + "\n").encode())
            nread[0] += 1
            if nread[0] == 1:
                _wait_child_logged(clog, 1)      # if the child is terminated next (the first answer cannot be written),
                                                 # it has at least logged the message it wrote
            if fault[0] == "wkill" and nread[0] == int(fault[1]) and not wfault["fired"]:
                # the child is blocked in _request, waiting for the answer to the message just read:
                # it is killed now, from outside, and is dead before the parent goes on
                wfault["fired"] = True
                _wait_child_logged(clog, nread[0])
                wfault["dead"] = _kill_and_wait(pidfile, fault[2] if len(fault) > 2 else "KILL")
        return data

    def p_write(self, data):
        if skip["write"] > 0 and not wfault["fired"]:
            # (a FIFO whose reader is gone is never "not writable": the write fails at once -- no skip after a wkill)
            skip["write"] -= 1
            return False
        ok = orig_write(self, data)
        if ok:
            skip["write"] = sched[1]
            os.write(plog_fd, (json.dumps({"w": bitify(json.loads(json.dumps(data, cls=_np_encoder())))}) + "\n").encode())
        return ok

    pid = None
    fault = list(case.get("fault") or ["none"])
    try:
        os.environ["PATH"] = str(WRAPPER_DIR) + os.pathsep + (saved_env["PATH"] or "")
        os.environ["VERIF_C20_SRC"] = str(REPO / "src")
        os.environ["VERIF_C20_PIDFILE"] = str(pidfile)
        os.environ["VERIF_C20_LOG"] = str(clog)
        os.environ["VERIF_C20_SCHED"] = f"{sched[2]}:{sched[3]}"
        if fault[0] != "none":
            os.environ["VERIF_C20_STDERR"] = str(scratch / "child.err")
        else:
            os.environ.pop("VERIF_C20_STDERR", None)
        os.environ["VERIF_C20_FAULT"] = ":".join(str(v) for v in fault) if fault[0] in WRAPPER_FAULTS else ""
        tempfile.tempdir = str(fifo_root)
        ext._JSONPipeCommunicator.read = p_read
        ext._JSONPipeCommunicator.write = p_write
        limit = _process_timeout() + EXTRA_WALL_S
        external = _run_once(case, external=True, deadline=limit + 5)
        t_end = time.time()
        alive = False
        started = pidfile.exists()
        if started:
            try:
                pid = int(pidfile.read_text().strip())
            except ValueError:
                pid = None
        if pid is not None:
            # checked at once: on return the parent has polled / waited for the child, so it is already reaped
            alive = _pid_alive(pid)
        leftovers = sorted(str(p.relative_to(fifo_root)) for p in fifo_root.rglob("*"))
        cw_all = _read_wire(clog)
        external.update({
            "child_started": started, "child_alive": bool(alive), "fifo_left": leftovers,
            "pwire": _fold_config(_read_wire(plog), "r", "w"),
            "cwire": _fold_config([m for m in cw_all if m[0] in ("r", "w")], "w", "r"),
            # a signal the child survived (ignored / handled without exiting) is not a death: no fault happened
            "survived": any(m[0] == "survived" for m in cw_all) or (wfault["fired"] and not wfault["dead"]),
            "fault_fired": (any(m[0] == "fault" for m in cw_all) and not any(m[0] == "survived" for m in cw_all))
                           or (wfault["fired"] and wfault["dead"]),
            "wire_broken": any(m[0] not in ("r", "w", "fault", "survived") for m in cw_all),
            "limit_ms": int(limit * 1000),
            "after_ms": int((time.time() - t_end) * 1000),
        })
        if case.get("unenc"):
            # the fault of such a case is "the parent cannot write its first answer": it happened when the external run
            # raised before anything was written; a tree that manages to send the value runs as if there was no fault
            failed = external["out"][0] == "raise" and not any(k == "w" for k, _ in external["pwire"])
            external["fault_fired"], external["survived"] = failed, not failed
    finally:
        ext._JSONPipeCommunicator.read, ext._JSONPipeCommunicator.write = orig_read, orig_write
        tempfile.tempdir = saved_tmp
        os.close(plog_fd)
        for k, v in saved_env.items():
            if v is None:
                os.environ.pop(k, None)
            else:
                os.environ[k] = v
        _kill_stray(pid, pidfile)
    obs = {"cfg_roundtrip": bool(cfg_roundtrip), "cfg_digest": cfg_digest, "inproc": inproc, "ext": external,
           "process_timeout_ms": int(_process_timeout() * 1000)}
    if case.get("framing"):
        (scratch / "stage").write_text("framing")
        obs["framing"] = _framing_probe(case["framing"], scratch)
    return obs


PIPE_CAPACITY = 65536


def _framing_feeds(mode: str):
    """(message, cut offsets) of a framing probe.  `delimiter`: short messages of every kind the protocol has, cut in
    two at EVERY offset and in three inside / around the delimiter line; `capacity`: messages of 65536*k + d bytes
    (d = -12..12, k = 1, 2) cut where a pipe of that capacity cuts them (the seeded C20_k region: d = 1..9 puts the
    cut inside the 10-byte delimiter line), and big messages cut at every offset around the delimiter line."""
    tail = len("\n--READY--\n")
    if mode == "delimiter":
        for msg in ({"evaluation": {"variables": [1.0, -2.5e-3], "return_functions": True, "return_gradients": False}},
                    "abort", "config", [0.25, 1e300], {"error": ""}, {"functions": [float("inf")], "gradients": []}):
            n = len(json.dumps(msg)) + tail
            for cut in range(1, n):
                yield msg, [cut]
            for a in range(n - tail - 2, n - 1):
                for b in range(a + 1, n):
                    yield msg, [a, b]
        return
    for k in (1, 2):
        for d in range(-12, 13):
            n = PIPE_CAPACITY * k + d
            msg = {"error": "x" * (n - tail - len(json.dumps({"error": ""})))}
            yield msg, [PIPE_CAPACITY * j for j in range(1, k + 1) if PIPE_CAPACITY * j < n]
    n = PIPE_CAPACITY - 5000          # (one piece must fit into the pipe: the probe itself is the writer)
    msg = {"error": "y" * (n - tail - len(json.dumps({"error": ""})))}
    for cut in range(n - tail - 3, n):
        yield msg, [cut]


def _framing_probe(mode: str, scratch: Path) -> dict:
    """Feed the real _JSONPipeCommunicator.read through a real FIFO, piece by piece with a read() after every piece:
    nothing may be returned before the last piece, the exact message after it."""
    import ropt.plugins.optimizer.external as ext
    feeds, failures, records = 0, [], []
    root = scratch / "framing"
    root.mkdir(exist_ok=True)
    for msg, cuts in _framing_feeds(mode):
        feeds += 1
        data = f"{json.dumps(msg)}\n{ext._JSONPipeCommunicator.DELIMITER}\n".encode()
        pieces = [data[a:b] for a, b in zip([0] + cuts, cuts + [len(data)])]
        rfifo, wfifo = root / f"r{feeds}", root / f"w{feeds}"
        returns, error = [], None          # per piece: what read() returned when polled until None
        try:
            if ext._JSONPipeCommunicator.DELIMITER != "--READY--":
                raise ValueError("delimiter text changed: Chk_C20.delim_bytes must follow")
            with ext._JSONPipeCommunicator(rfifo, wfifo, timeout=0.002) as comm:
                wfd = os.open(rfifo, os.O_WRONLY)
                try:
                    for i, piece in enumerate(pieces):
                        os.write(wfd, piece)
                        got_here, polls = [], (1 if i + 1 < len(pieces) else 8)
                        while polls > 0 and len(got_here) < 4:
                            got = comm.read()
                            if got is None:
                                polls -= 1
                                if got_here or i + 1 < len(pieces):
                                    break
                            else:
                                got_here.append(json.dumps(got))
                        returns.append(got_here)
                finally:
                    os.close(wfd)
        except Exception as exc:  # noqa: BLE001 - the observation is the exception
            error = f"{type(exc).__name__}: {exc}"[:80]
        finally:
            for f in (rfifo, wfifo):
                try:
                    f.unlink()
                except OSError:
                    pass
        while len(returns) < len(pieces):
            returns.append([])
        # every feed is judged by the oracle below; the model reader (Chk_C20.framing_agrees) is evaluated on a sample
        # that keeps the check fast: short messages -- all cuts in the delimiter line, every 4th elsewhere, the
        # three-piece feeds of one message kind; long messages -- one capacity, d in {-12, -1, 0, 1, 5, 9, 10, 12}
        if len(data) < 4096:
            to_coq = (len(cuts) == 1 and (cuts[0] >= len(data) - 14 or cuts[0] % 4 == 0)) or (len(cuts) == 2 and msg == "abort")
        else:
            d = len(data) - PIPE_CAPACITY
            to_coq = d in (-12, -1, 0, 1, 5, 9, 10, 12) or (len(data) < PIPE_CAPACITY - 100 and feeds % 5 == 0)
        if to_coq or error is not None or returns != [[]] * (len(pieces) - 1) + [[json.dumps(msg)]]:
            if len(records) < 400:
                records.append([[_rle(p) for p in pieces], [[_rle(m.encode()) for m in r] for r in returns]])
        if error is not None or returns != [[]] * (len(pieces) - 1) + [[json.dumps(msg)]]:
            failures.append({"length": len(data), "cuts": cuts, "message": repr(msg)[:40], "error": error,
                             "returned_per_piece": [[m[:30] for m in r] for r in returns]})
    return {"mode": mode, "feeds": feeds, "failures": failures[:6], "nfail": len(failures), "records": records}


def _rle(data: bytes) -> list:
    out = []
    for b in data:
        if out and out[-1][0] == b:
            out[-1][1] += 1
        else:
            out.append([b, 1])
    return out


# sections of the configuration the optimizer in the child reads: they must survive the pipe bit by bit;
# elsewhere (weights that are re-normalised on validation, only used in the parent) 1e-12 relative is enough
EXACT_SECTIONS = ("variables", "optimizer", "linear_constraints", "nonlinear_constraints")


def _same_config(a, b, path: tuple = ()) -> bool:
    if isinstance(a, dict) and isinstance(b, dict):
        return list(a) == list(b) and all(_same_config(a[k], b[k], path + (k,)) for k in a)
    if isinstance(a, list) and isinstance(b, list):
        return len(a) == len(b) and all(_same_config(x, y, path) for x, y in zip(a, b))
    if isinstance(a, float) and isinstance(b, float):
        if bits(a) == bits(b):
            return True
        if path and path[0] in EXACT_SECTIONS:
            return False
        return abs(a - b) <= 1e-12 * max(1.0, abs(a))
    return type(a) is type(b) and a == b


def _np_encoder():
    import numpy as np

    class Enc(json.JSONEncoder):
        def default(self, obj):
            if isinstance(obj, (np.ndarray, np.generic)):
                return obj.tolist()
            if isinstance(obj, Path):
                return str(obj)
            if isinstance(obj, (set, frozenset)) or type(obj) is object:
                return {"$unencodable": type(obj).__name__}      # (harness-side digest of an `unenc` case only)
            return super().default(obj)
    return Enc


def _kill_stray(pid, pidfile: Path) -> None:
    """The harness never leaves a child behind, whatever the implementation did."""
    if pid is None and pidfile.exists():
        try:
            pid = int(pidfile.read_text().strip())
        except ValueError:
            pid = None
    if pid is None:
        return
    try:
        os.kill(pid, signal.SIGKILL)
    except (ProcessLookupError, PermissionError):
        pass
    try:
        os.waitpid(pid, os.WNOHANG)
    except (ChildProcessError, OSError):
        pass


# ---------------------------------------------------------------------------------------------
# Gallina printing
# ---------------------------------------------------------------------------------------------
def _clean(text: str) -> str:
    return "".join(c if 32 <= ord(c) <= 126 else "?" for c in str(text))[:300]


def _zs(xs) -> str:
    return "[" + "; ".join(str(int(x)) if int(x) >= 0 else f"({int(x)})" for x in xs) + "]"


def _tensor_term(t: dict) -> str:
    if t["d"] == 1:
        return f"(T1 {_zs(t['x'])})"
    return "(T2 [" + "; ".join(_zs(r) for r in t["x"]) + "])"


def _res_term(r: list) -> str:
    if r[0] == "ok":
        return f"(EvOk {_tensor_term(r[1])} {_tensor_term(r[2])})"
    if r[0] == "abort":
        return f"(EvAbort {int(r[1]) if int(r[1]) >= 0 else '(' + str(int(r[1])) + ')'})"
    return f"(EvRaise {cq.s(_clean(r[1]))})"


def _trace_term(trace: list) -> str:
    items = []
    for e in trace:
        eff = "[" + "; ".join(_zs(x) for x in e["eff"]) + "]"
        items.append(f"(X {_tensor_term(e['v'])} {cq.b(e['rf'])} {cq.b(e['rg'])} {_res_term(e['res'])} {eff})")
    return "([" + ";\n  ".join(items) + "])%Z"


def _jv_term(o) -> str:
    if o is None:
        return "JNull"
    if isinstance(o, bool):
        return f"(JBool {cq.b(o)})"
    if isinstance(o, str):
        return f"(JStr {cq.s(_clean(o))})"
    if isinstance(o, (list, tuple)):
        return "(JArr [" + "; ".join(_jv_term(x) for x in o) + "])"
    if isinstance(o, dict):
        if set(o) == {"$f"}:
            return f"(JNum {int(o['$f'])})"
        if set(o) == {"$i"}:
            n = int(o["$i"])
            return f"(JInt {n})" if n >= 0 else f"(JInt ({n}))"
        if set(o) == {"$repr"}:
            return f"(JStr {cq.s(_clean(o['$repr']))})"
        return "(JObj [" + "; ".join(f"({cq.s(_clean(k))}, {_jv_term(v)})" for k, v in o.items()) + "])"
    return f"(JStr {cq.s(_clean(repr(o)))})"


def _wire_term(wire: list, read_kind: str) -> str:
    return "([" + ";\n  ".join(f"({'WR' if k == read_kind else 'WW'} {_jv_term(m)})" for k, m in wire) + "])%Z"


def _out_term(out: list) -> str:
    if out[0] == "exit":
        n = int(out[1])
        return f"(OExit {n})" if n >= 0 else f"(OExit ({n}))"
    if out[0] == "raise":
        return f"(ORaise {cq.s(_clean(out[1]))})"
    return "OHang"


def _end_of(inproc: dict) -> list:
    """How the optimizer itself ended in-process: ["stop"] or ["fail", message]."""
    out, trace = inproc["out"], inproc["trace"]
    if out[0] == "raise" and (not trace or trace[-1]["res"][0] == "ok"):
        return ["fail", out[2] if len(out) > 2 else ""]
    return ["stop"]


def _sig(f: list) -> str:
    name = f[2] if len(f) > 2 else "KILL"
    return f"{int(SIGNALS[name])}%positive"


def raise_message(f: list) -> str:
    return RAISE_MESSAGES[f[2] if len(f) > 2 else "msg"]


def _fault_terms(case: dict, survived: bool = False) -> tuple[str, str]:
    f = case.get("fault") or ["none"]
    if survived:
        return "NoFault", "None"
    if case.get("unenc"):
        # comm.write of the answer to message 1 (the config) raises; the child, blocked waiting for it, is terminated by
        # the parent (SIGTERM): in the model this is the write error `ExPipe` with the child gone = DieWaiting 1 SIGTERM
        return "(DieWaiting 1%nat 15%positive)", "None"
    if f[0] == "kill":
        return f"(DieAfter {cq.nat(f[1])} {_sig(f)})", "None"
    if f[0] == "rkill":
        return f"(DieOnAnswer {cq.nat(f[1])} {_sig(f)})", "None"
    if f[0] == "wkill":
        return f"(DieWaiting {cq.nat(f[1])} {_sig(f)})", "None"
    if f[0] == "exit":
        return f"(ExitAfter {cq.nat(f[1])} {int(f[2])})", "None"
    if f[0] == "raise":
        return "NoFault", f"(Some ({cq.nat(f[1])}, {cq.s(_clean(raise_message(f)))}))"
    if f[0] != "none":
        raise ValueError(f"unknown fault {f!r}")
    return "NoFault", "None"


def _framing_term(records: list) -> str:
    rle = lambda r: "[" + "; ".join(f"({int(b)}, {int(n)})" for b, n in r) + "]"                      # noqa: E731
    feed = lambda f: ("([" + "; ".join(rle(p) for p in f[0]) + "], ["                                   # noqa: E731
                      + "; ".join("[" + "; ".join(rle(m) for m in r) + "]" for r in f[1]) + "])")
    return "([" + ";\n  ".join(feed(f) for f in records) + "])%nat"


def coq_case(case: dict, obs: dict) -> str:
    i, e = obs["inproc"], obs["ext"]
    end = _end_of(i)
    end_t = "Stop" if end[0] == "stop" else f"(Fail {cq.s(_clean(end[1]))})"
    flt, raise_at = _fault_terms(case, bool(e.get("survived")))
    fields = [
        f"(JStr {cq.s(obs['cfg_digest'])})",
        cq.b(obs["cfg_roundtrip"]),
        "(" + _zs(bits(v) for v in (case["start"] if case.get("start") is not None else case["init"])) + ")%Z",
        _trace_term(i["trace"]),
        end_t,
        "(" + _out_term(i["out"]) + ")%Z",
        "(" + _zs(i["best"]) + ")%Z",
        "(" + flt + ")%Z",
        raise_at,
        _trace_term(e["trace"]),
        "(" + _out_term(e["out"]) + ")%Z",
        "(" + _zs(e["best"]) + ")%Z",
        _wire_term(e["pwire"], "r"),
        _wire_term(e["cwire"], "r"),
        cq.b(e["fault_fired"]),
        cq.b(e["child_started"]),
        cq.b(e["child_alive"]),
        cq.nat(min(len(e["fifo_left"]), 1000)),
        cq.nat(min(len(i["stray"]) + len(e["stray"]) + (1 if e["wire_broken"] else 0), 1000)),
        cq.b(i.get("files_ok", True) and e.get("files_ok", True)),
        _framing_term((obs.get("framing") or {}).get("records") or []),
        f"({int(e['wall_ms'])})%Z",
    ]
    return "(Build_case\n " + "\n ".join(fields) + ")"


# ---------------------------------------------------------------------------------------------
# the property's predicate on the observation (independent of the model)
# ---------------------------------------------------------------------------------------------
FINISHED = 5      # OptimizerExitCode.OPTIMIZER_STEP_FINISHED; re-read from ropt in oracle()


def _finished_code() -> int:
    try:
        from ropt.enums import OptimizerExitCode
        return int(OptimizerExitCode.OPTIMIZER_STEP_FINISHED.value)
    except Exception:  # noqa: BLE001
        return FINISHED


def _faulted(case: dict) -> bool:
    return (case.get("fault") or ["none"])[0] != "none" or bool(case.get("unenc"))


def oracle(case: dict, obs: dict):
    i, e = obs["inproc"], obs["ext"]
    fin = _finished_code()
    if obs.get("hard_hang"):
        return {"clause": "never-hangs(hard)", "detail": {"fault": case.get("fault"), "stage": obs["hard_hang"],
                "note": f"the case's process group had to be killed after {HARD_TIMEOUT_S} s"}}
    if i["hang"]:
        return {"clause": "in-process-run-hangs", "detail": i["out"]}
    if e["hang"] or e["out"][0] == "hang":
        return {"clause": "never-hangs", "detail": {"fault": case.get("fault"), "wall_ms": e["wall_ms"]}}
    if e["wall_ms"] > e["limit_ms"]:
        return {"clause": "never-hangs(wall-time)", "detail": {"wall_ms": e["wall_ms"], "limit_ms": e["limit_ms"]}}
    if not e["child_started"]:
        return {"clause": "child-not-started", "detail": e["out"]}
    if e["child_alive"]:
        return {"clause": "no-orphan", "detail": {"fault": case.get("fault"), "out": e["out"]}}
    if e["fifo_left"]:
        return {"clause": "no-fifo-left", "detail": e["fifo_left"][:5]}
    error_reported = any(k == "r" and isinstance(m, dict) and m.get("error") is not None for k, m in e["pwire"])
    if (e["fault_fired"] or error_reported) and e["out"][0] == "exit" and e["out"][1] == fin:
        return {"clause": "death-or-error-is-never-success",
                "detail": {"fault": case.get("fault"), "fault_fired": e["fault_fired"],
                           "error_reported": error_reported, "out": e["out"]}}
    if not obs["cfg_roundtrip"]:
        return {"clause": "config-roundtrip", "detail": "dump -> JSON -> validate -> dump differs"}
    if (obs.get("framing") or {}).get("nfail"):
        return {"clause": "lossless-channel(framing)", "detail": obs["framing"]}
    if not (i.get("files_ok", True) and e.get("files_ok", True)):
        return {"clause": "output-files", "detail": {"paths": case.get("paths"), "inproc": i.get("files_ok"),
                                                     "external": e.get("files_ok")}}
    # both ends of the pipe saw the same messages
    c_w = [m for k, m in e["cwire"] if k == "w"]
    c_r = [m for k, m in e["cwire"] if k == "r"]
    p_r = [m for k, m in e["pwire"] if k == "r"]
    p_w = [m for k, m in e["pwire"] if k == "w"]
    if c_w != p_r or c_r != p_w[:len(c_r)] or len(p_w) > len(c_r) + 1:
        return {"clause": "lossless-channel", "detail": {"child_wrote": len(c_w), "parent_read": len(p_r),
                                                         "parent_wrote": len(p_w), "child_read": len(c_r)}}
    if i["stray"] or e["stray"]:
        return {"clause": "evaluation-outside-callback", "detail": len(i["stray"]) + len(e["stray"])}
    if not _faulted(case) or e.get("survived"):
        if e["trace"] != i["trace"]:
            k = next((n for n, (a, b) in enumerate(zip(e["trace"], i["trace"])) if a != b),
                     min(len(e["trace"]), len(i["trace"])))
            return {"clause": "trace-equal", "detail": {"first_difference_at_callback": k,
                                                        "external": len(e["trace"]), "inproc": len(i["trace"])}}
        if e["out"][0] != i["out"][0] or (e["out"][0] == "exit" and e["out"][1] != i["out"][1]):
            return {"clause": "exit-code-equal", "detail": {"external": e["out"], "inproc": i["out"]}}
        if e["best"] != i["best"]:
            return {"clause": "optimum-equal", "detail": {"external": e["best"], "inproc": i["best"]}}
    else:
        if e["trace"] != i["trace"][:len(e["trace"])]:
            return {"clause": "evaluations-before-death-are-a-prefix", "detail": {"external": len(e["trace"])}}
    return None


def nontrivial(case: dict, obs: dict) -> bool:
    return bool(obs["ext"]["child_started"]) and (len(obs["inproc"]["trace"]) >= 1 or _faulted(case))


def features(case: dict, obs: dict) -> dict:
    i, e = obs["inproc"], obs["ext"]
    n = len(i["trace"])
    return {
        "method": case["method"],
        "fault": (case.get("fault") or ["none"])[0],
        "signal": (lambda f: (f[2] if len(f) > 2 else "KILL") if f[0] in ("kill", "rkill", "wkill") else "-")(case.get("fault") or ["none"]),
        "raise_kind": (lambda f: (f[2] if len(f) > 2 else "msg") if f[0] == "raise" else "-")(case.get("fault") or ["none"]),
        "fault_fired": e["fault_fired"],
        "callbacks": "0" if n == 0 else "1-4" if n <= 4 else "5-12" if n <= 12 else "13+",
        "inproc_outcome": i["out"][0] + (":" + str(i["out"][1]) if i["out"][0] != "hang" else ""),
        "external_outcome": e["out"][0] + (":" + str(e["out"][1]) if e["out"][0] != "hang" else ""),
        "constraints": bool(case.get("ncon")) or case.get("lin") is not None or bool(case.get("big_lin")),
        "big_messages": bool(case.get("big")),
        "mask": case.get("mask") is not None,
        "explicit_start": case.get("start") is not None,
        "nan": bool(case.get("nan")),
        "abort_at": case.get("abort_at") is not None,
        "abort_code": case.get("abort_code", 4) if case.get("abort_at") is not None else "-",
        "abort_late": bool(case.get("abort_late")) if case.get("abort_at") is not None else "-",
        "eval_raise_at": case.get("eval_raise_at") is not None,
        "eval_raise_kind": case.get("eval_raise_kind", "exception") if case.get("eval_raise_at") is not None else "-",
        "qualified_name": bool(case.get("qualified")),
        "framing_probe": case.get("framing") or "-",
        "config_message_padded": case.get("pad") or "-",
        "framing_feeds": (obs.get("framing") or {}).get("feeds", 0),
        "numpy_scalar_options": "-" if not case.get("np_options") else "+".join(sorted(v[0] for v in case["np_options"].values())),
        "unencodable_option": case.get("unenc") or "-",
        "output_paths": "-" if not case.get("paths") else "".join("1" if v else "0" for v in case["paths"]),
        "pipe_schedule": "-" if not case.get("sched") else "".join(str(min(int(v), 9)) for v in case["sched"]),
        "one_sided_bounds": any(v is None for key in ("lower", "upper") for v in (case.get(key) or [])),
        "parallel": bool(case.get("parallel")),
    }


def known_signature(case, obs, violation):
    return None


# ---------------------------------------------------------------------------------------------
# generators
# ---------------------------------------------------------------------------------------------
METHODS = ("slsqp", "l-bfgs-b", "nelder-mead", "differential_evolution")


def _dy(rng, lo: int, hi: int, den: int = 8) -> float:
    return rng.randint(lo, hi) / den


def rand_base(rng, method: str | None = None, flavour: str | None = None) -> dict:
    """A small, valid configuration of one of the supported in-process methods (no fault yet)."""
    method = method or rng.choice(METHODS)
    nvar = 2 if method in ("nelder-mead", "differential_evolution") else rng.choice([2, 3])
    nobj = rng.choice([1, 1, 2])
    nreal = rng.choice([1, 2, 3])
    case: dict = {
        "method": method,
        "init": [_dy(rng, -4, 4) for _ in range(nvar)],
        "obj_weights": [rng.choice([0.25, 0.5, 0.75, 1.0]) for _ in range(nobj)],
        "real_weights": [rng.choice([0.25, 0.5, 1.0]) for _ in range(nreal)],
        "centers": [[_dy(rng, -6, 6) for _ in range(nvar)] for _ in range(nobj)],
        "real_shift": rng.choice([0.0, 0.125, 0.25]),
        "pert": rng.choice([2, 3]),
        "pert_mag": rng.choice([0.01, 0.0625]),
        "tolerance": 1e-4,
        "fault": ["none"],
    }
    bounded = method == "differential_evolution" or rng.random() < 0.5
    if bounded and method != "nelder-mead" or method == "differential_evolution":
        case["lower"] = [-1.0 - _dy(rng, 0, 4) for _ in range(nvar)]
        case["upper"] = [1.0 + _dy(rng, 0, 4) for _ in range(nvar)]
        if method != "differential_evolution" and rng.random() < 0.4:
            # one-sided bounds: an infinity inside the configuration message (JSON `Infinity`)
            side = rng.choice(["lower", "upper"])
            case[side] = [None if rng.random() < 0.6 else v for v in case[side]]
    if rng.random() < 0.25:
        case["qualified"] = True          # external/scipy/<method> against scipy/<method>
    if method != "differential_evolution" and rng.random() < 0.25:
        # numpy scalars in optimizer.options (F20g)
        tol_key = "fatol" if method == "nelder-mead" else "ftol"
        pick = rng.choice([["maxiter"], ["maxiter", tol_key], ["disp", "maxiter"], [tol_key], ["disp", "maxiter", tol_key]])
        values = {"maxiter": ["int64", rng.choice([1, 2, 3])], tol_key: ["float64", rng.choice([1e-6, 0.0009765625])],
                  "disp": ["bool_", False]}
        case["np_options"] = {k: values[k] for k in pick if not (k == "disp" and method == "l-bfgs-b")}
    if rng.random() < 0.2:
        # optimizer.output_dir / stdout / stderr (paths inside the configuration message; F20d)
        case["paths"] = rng.choice([[True, "opt.out", None, False], [True, "opt.out", "opt.err", False],
                                    [False, "opt.out", "opt.err", True], [True, None, None, False],
                                    [True, "o.txt", "e.txt", True]])
    if method in ("slsqp", "l-bfgs-b") and nvar == 3 and rng.random() < 0.5:
        mask = [True, True, True]
        mask[rng.randrange(3)] = False
        case["mask"] = mask
    if method == "slsqp":
        if rng.random() < 0.6:
            ncon = rng.choice([1, 2])
            case["ncon"] = ncon
            case["con_coef"] = [[_dy(rng, -4, 4, 4) for _ in range(nvar)] for _ in range(ncon)]
            case["con_lower"] = [rng.choice([None, -2.0, -1.0]) for _ in range(ncon)]
            case["con_upper"] = [rng.choice([1.0, 2.0]) if lo is not None and rng.random() < 0.5
                                 else (1.5 if lo is None else None) for lo in case["con_lower"]]
        if rng.random() < 0.4:
            case["lin"] = {"coef": [[1.0] + [_dy(rng, -4, 4, 4) for _ in range(nvar - 1)]],
                           "lower": [None], "upper": [2.0 + _dy(rng, 0, 8)]}
        case["speculative"] = rng.random() < 0.3
        case["split"] = rng.random() < 0.3
    if method == "differential_evolution":
        case["options"] = {"seed": rng.randint(1, 10 ** 6), "popsize": rng.choice([2, 3]),
                           "maxiter": rng.choice([1, 2]), "init": rng.choice(["random", "latinhypercube"])}
        case["parallel"] = rng.random() < 0.5
        if not case["parallel"]:
            case["max_functions"] = rng.choice([4, 6, 8])
    elif method == "nelder-mead":
        case["max_functions"] = rng.choice([3, 4, 5, 6])
    else:
        case["max_functions"] = rng.choice([2, 3, 4])
        if rng.random() < 0.3:
            case["options"] = {"maxiter": rng.choice([1, 2])}
    if rng.random() < 0.4:
        # started from another vector than the configured initial values (inside the bounds)
        case["start"] = [v + rng.choice([-0.25, 0.125, 0.25, 0.375]) for v in case["init"]]
    flavour = flavour or rng.choice(["plain", "plain", "plain", "nan", "toofew", "abort", "evraise", "opterr"])
    case["flavour"] = flavour
    if flavour == "nan" and nreal >= 2:
        case["nan"] = [[rng.randint(0, 3), rng.randrange(nreal)]]
        case["min_success"] = rng.choice([0, 1])
    elif flavour == "toofew":
        call = rng.randint(0, 2)
        case["nan"] = [[call, r] for r in range(nreal * 8)]
        if method == "differential_evolution":
            case["min_success"] = 0       # DE allows NaN: all-failed evaluations become +inf
    elif flavour == "abort":
        case["abort_at"] = rng.randint(0, 3)
        case["abort_code"] = rng.choice([4, 4, 0, 1, 3])      # USER_ABORT, UNKNOWN (0: falsy), TOO_FEW, NESTED_FAILED
        case["abort_late"] = rng.random() < 0.35              # raised when the results are reported, not before
    elif flavour == "evraise":
        case["eval_raise_at"] = rng.randint(0, 3)
        if rng.random() < 0.35:
            case["eval_raise_kind"] = "base"                  # a BaseException (what Ctrl-C in the evaluator is)
    elif flavour == "opterr" and method in ("slsqp", "l-bfgs-b"):
        case["options"] = {"ftol": "foo"}
    return case


def _probe_callbacks(case: dict) -> int:
    """Number of optimizer callbacks of the in-process run (to place crash points); bound on failure."""
    try:
        r = _run_once({**case, "fault": ["none"], "paths": None}, external=False, deadline=20)
        n = len(r["trace"])
        if r["out"][0] == "raise" and (not r["trace"] or r["trace"][-1]["res"][0] == "ok"):
            n += 1                     # the error report is a message too
        return n
    except BaseException:  # noqa: BLE001
        return 2 * int(case.get("max_functions") or 4) + 1


def _crash_cases(case: dict, ks, codes=(), raises=(), rks=(), wks=()):
    """ks / rks / wks: (k, signal name) -- death when about to write message k / right after the answer to message k /
    while waiting for the answer to message k; codes: (k, exit code); raises: (j, kind of the raised exception)."""
    for k, sig in ks:
        yield {**case, "fault": ["kill", int(k), sig]}
    for k, sig in rks:
        yield {**case, "fault": ["rkill", int(k), sig]}
    for k, sig in wks:
        yield {**case, "fault": ["wkill", int(k), sig]}
    for k, code in codes:
        yield {**case, "fault": ["exit", int(k), int(code)]}
    for j, kind in raises:
        yield {**case, "fault": ["raise", int(j), kind]}


def _with_signals(ks, offset: int = 0):
    """Pair crash points with signals: SIGTERM first, then the others in turn."""
    return [(k, SIG_CYCLE[(i + 3 * offset) % len(SIG_CYCLE)]) for i, k in enumerate(ks)]


def long_base(rng, method: str = "slsqp") -> dict:
    """A run of about 12 callbacks whose every crash point is exercised in the thorough tier."""
    case = rand_base(rng, method, "plain")
    case.pop("options", None)
    case["max_functions"] = 6
    if method == "slsqp":
        case["speculative"] = False
        case["split"] = False
    return case


def big_base(rng, wide: bool = False) -> dict:
    """A configuration whose config message exceeds the pipe capacity of 64 KiB (F20e): slsqp with 800 loose linear
    constraints (config message of about 76 KB, everything else small); `wide`: 1800 variables instead, so that the
    evaluation requests and gradient answers are large too (thorough tier: the Coq term of such a case is 1.7 MB)."""
    if wide:
        case = rand_base(rng, "l-bfgs-b", "plain")
        nvar = 1800        # config message of about 72 KB
        case.update({"init": [_dy(rng, -4, 4) for _ in range(nvar)], "centers": [[0.5] * nvar for _ in case["obj_weights"]],
                     "pert": 1, "max_functions": 2, "big": True})
        for key in ("lower", "upper", "mask", "start", "options", "paths"):
            case.pop(key, None)
        return case
    case = rand_base(rng, "slsqp", "plain")
    for key in ("lin", "mask", "options", "paths"):
        case.pop(key, None)
    case.update({"big_lin": 800, "big": True, "max_functions": 3, "speculative": False, "split": False})
    return case


def gen_cases(tier, rng):
    quick = tier == "quick"
    # (a) equality pairs: every method, every flavour
    flavours = ["plain", "nan", "toofew", "abort", "evraise", "opterr"]
    pairs = [(m, "plain") for m in METHODS] + \
            [("slsqp", f) for f in flavours[1:]] + \
            [("l-bfgs-b", "abort"), ("differential_evolution", "nan"), ("nelder-mead", "evraise"),
             ("differential_evolution", "toofew")]
    if not quick:
        pairs = pairs * 2 + [(rng.choice(METHODS), rng.choice(flavours)) for _ in range(60)]
    for m, f in pairs:
        yield rand_base(rng, m, f)
    # (a') schedules: the same kinds of run with pipes that are not ready when first tried (parent and child side):
    #      unread requests, answers whose write has to be retried -- results must not depend on it
    for i in range(3 if quick else 24):
        c = rand_base(rng, METHODS[i % 3], ["plain", "abort", "evraise", "opterr", "nan", "plain"][i % 6])
        c["sched"] = [[1, 2, 0, 0], [0, 1, 2, 3], [2, 0, 1, 1], [1, 1, 1, 1], [0, 3, 0, 2], [3, 1, 2, 0]][i % 6]
        if c["method"] != "nelder-mead":
            c["max_functions"] = min(int(c.get("max_functions") or 3), 3)
        yield c
    # (a3) framing: the communicator fed through a real FIFO in pieces (corpus: framing_delimiter / framing_capacity on
    #      every run) and end-to-end runs whose config message is the pipe capacity + 1..9 bytes
    for d in ([5] if quick else range(1, 10)):
        c = rand_base(rng, METHODS[d % 3], "plain")
        for key in ("paths", "np_options", "options"):
            c.pop(key, None)
        c["pad"] = d
        if not quick and d % 4 == 1:
            c["framing"] = ["delimiter", "capacity"][(d // 4) % 2]
        yield c
    # (a'') an option value JSON cannot encode: the external run may fail, but cleanly (F20f)
    for i in range(2 if quick else 8):
        c = rand_base(rng, METHODS[i % 3], "plain")
        c.pop("np_options", None)
        c["unenc"] = ["set", "object"][i % 2]
        yield c
    if BIG_MESSAGES and not quick:
        yield big_base(rng)           # (quick: corpus/C20/f20e_big_config.json)
        yield big_base(rng, wide=True)
    # (b) crash points on plain and on faulty runs: the child dies by a signal (SIGTERM, SIGKILL, SIGINT, SIGHUP,
    #     os.abort(), SIGSEGV) when it is about to write message k, right after the answer to message k, or while it
    #     waits for the answer to message k; it exits with a code; the optimizer's j-th callback raises in the child
    #     (with a message, with an EMPTY message, ...)
    n_crash_bases = 3 if quick else 10
    for b in range(n_crash_bases):
        base = rand_base(rng, METHODS[b % len(METHODS)], rng.choice(["plain", "plain", "abort", "evraise", "nan"]))
        n = _probe_callbacks(base)
        total = n + 2                                        # config, initial_values, callbacks (+ error)
        ks = list(range(0, total + 1))
        inner = list(range(1, total + 1))
        if quick:
            ks = sorted(set([0, 1, 2, total - 1, total] + rng.sample(ks, min(3, len(ks)))))
            ks = [k for k in ks if 0 <= k <= total][:7]
            rks = sorted(set([total, rng.choice(inner)]))
            wks = sorted(set([rng.choice([1, 2]), rng.choice(inner)]))
        else:
            rks, wks = inner, inner
        codes = [(rng.randint(0, total - 1), rng.choice([1, 2, 3, 120, 255]))
                 for _ in range(2 if quick else 5)]
        js = rng.sample(range(max(1, n)), min(2 if quick else 4, max(1, n)))
        raises = [(j, RAISE_KINDS[(i + b) % len(RAISE_KINDS)] if i else "empty") for i, j in enumerate(js)]
        yield from _crash_cases(base, _with_signals(ks, b), codes, raises,
                                _with_signals(rks, b), _with_signals(wks, b + 1))
    # (c) thorough: every crash point (three kinds of moment, SIGTERM and one more signal each) / exit point / raising
    #     callback (every kind of message) / raising evaluation / abort point of a ~12-callback run
    if not quick:
        for bi, method in enumerate(("slsqp", "l-bfgs-b", "nelder-mead")):
            base = long_base(rng, method)
            n = _probe_callbacks(base)
            total = n + 2
            yield base
            every = list(range(0, total + 1))
            inner = list(range(1, total + 1))
            term = lambda ks: [(k, "TERM") for k in ks]                                       # noqa: E731
            other = lambda ks, o: [(k, SIG_ORDER[1 + (i + o) % (len(SIG_ORDER) - 1)]) for i, k in enumerate(ks)]  # noqa: E731
            yield from _crash_cases(base, term(every) + other(every, bi), [(k, 3) for k in range(0, total)],
                                    [(j, RAISE_KINDS[(j + bi) % len(RAISE_KINDS)]) for j in range(0, n)],
                                    term(inner) + other(inner, bi + 1), term(inner) + other(inner, bi + 2))
            for j in range(0, n + 1):
                yield {**base, "eval_raise_at": j, "flavour": "evraise",
                       **({"eval_raise_kind": "base"} if (j + bi) % 2 else {})}
            for j in range(0, n + 1):
                yield {**base, "abort_at": j, "flavour": "abort", "abort_late": bool((j + bi) % 2),
                       "abort_code": [4, 0, 1, 3][(j + bi) % 4]}
        for _ in range(80):
            base = rand_base(rng)
            n = _probe_callbacks(base)
            kind = rng.choice(["kill", "rkill", "wkill", "exit", "raise"])
            if kind in ("kill", "rkill", "wkill"):
                yield {**base, "fault": [kind, rng.randint(0 if kind == "kill" else 1, n + 2), rng.choice(SIG_ORDER)]}
            elif kind == "exit":
                yield {**base, "fault": ["exit", rng.randint(0, n + 2), rng.choice([1, 2, 3, 9, 120, 255])]}
            else:
                yield {**base, "fault": ["raise", rng.randint(0, max(0, n - 1)), rng.choice(RAISE_KINDS)]}


def shrink(case: dict):
    """A few simpler candidates (every candidate costs a real external run)."""
    f = case.get("fault") or ["none"]
    if f[0] in ("kill", "exit") and f[1] > 0:
        yield {**case, "fault": [f[0], 0] + list(f[2:])}
    if f[0] in ("rkill", "wkill") and f[1] > 1:
        yield {**case, "fault": [f[0], 1] + list(f[2:])}
    simple = {k: v for k, v in case.items() if k not in ("ncon", "con_coef", "con_lower", "con_upper", "lin", "mask",
                                                         "nan", "min_success", "speculative", "split", "qualified")}
    if simple != case:
        yield simple


def search(rng, case):
    if case is None:
        for m in METHODS:
            yield rand_base(rng, m, "plain")
        return
    yield {**case, "fault": ["none"]}
    for k in range(0, 6):
        yield {**case, "fault": ["kill", k, SIG_ORDER[k % len(SIG_ORDER)]]}
    yield {**case, "fault": ["rkill", 3, "TERM"]}
    yield {**case, "fault": ["wkill", 3, "TERM"]}
    yield {**case, "fault": ["exit", 2, 3]}
    yield {**case, "fault": ["raise", 0, "empty"]}


RULE = ("every case = one in-process run and one run through external/<method> (real child process started through the "
        "PATH wrapper) of the same seeded configuration, in a forked process group of its own (hard kill after 330 s = hang): "
        "methods slsqp / l-bfgs-b / nelder-mead / differential_evolution(seed, also parallel), named <m> or scipy/<m>, with "
        "1-2 objectives, 1-3 realizations, nonlinear and linear constraints, two- and one-sided bounds, variable masks, explicit "
        "start vectors, speculative / split evaluations, max_functions / maxiter, optimizer.output_dir / stdout / stderr paths, "
        "config messages of pipe capacity + 1..9 bytes, a framing probe (the real _JSONPipeCommunicator.read fed through a FIFO in "
        "pieces: short messages cut at every offset, 65536*k + d byte messages cut at the capacity; per-piece returns compared in Coq with "
        "the proved reader of Model/Framing.v on a sample of up to 400 feeds per probe, all feeds judged by the oracle), "
        "numpy scalars (int64 / float64 / bool_) in optimizer.options, an option value JSON cannot encode (set / object(): the "
        "external run may raise, without orphan or hang), a "
        "configuration with 800 linear constraints / 1800 variables (messages above the pipe capacity), "
        "NaN failures (tolerated, too-few, allowed for DE), user abort before or after evaluation j with exit code 4/0/1/3, the "
        "user's evaluator raising an Exception or a BaseException at call j, an optimizer option that makes the optimizer itself "
        "fail; pipe schedules (requests not readable / answers not writable when first tried, parent and child side); faults: "
        "child dying by SIGTERM / SIGKILL / SIGINT / SIGHUP / os.abort() / SIGSEGV (i) when about to write message k = 0..n+2, "
        "(ii) right after the answer to message k, also the last one, (iii) while blocked waiting for the answer to message k "
        "(killed from outside once the parent has read it); child exiting with code 1/2/3/9/120/255 after k messages; the "
        "optimizer's j-th callback raising inside the child with a message, with an EMPTY message (bare raise / assert), with "
        "'0', with a message containing quotes, newline and the pipe delimiter.  quick: 12 equality pairs + 3 schedule runs + 3 "
        "base runs x (<= 7 kill points, 2 after-answer, 2 waiting, 2 exit points, 2 raising callbacks) + 24 corpus inputs; "
        "thorough: 84 equality pairs, 24 schedule runs, 10 base runs x all crash points of all three kinds, and for three "
        "~12-callback runs every crash point of every kind with SIGTERM and one more signal, every exit point, every raising "
        "callback, every raising evaluation and every abort point, plus 80 random faulted runs.  Non-trivial = the child "
        "process was started and the run has at least one callback or a fault; distinct = distinct (configuration, fault).")
ASSUMPTIONS = [
    "the optimizer algorithm is a deterministic function of the configuration, the initial values and the answers it received "
    "(SciPy methods with a fixed seed); it is replayed in the model as the script observed in the in-process run",
    "the user's evaluator is deterministic in (call index, request); its observed behaviour in the in-process run is the model's evaluator",
    "JSON text round trip of finite floats, NaN and infinities is exact up to NaN payload (repr floats; checked on every message by comparing "
    "both ends of the pipe bit by bit) and the validated config survives dump -> JSON -> validate -> dump (checked on every case)",
    "a FIFO delivers every message whole: true for messages below the pipe capacity (64 KiB) by the OS, and above it by the write / read "
    "loops of _JSONPipeCommunicator (F20e, fixed by 6863677); exercised on every run by a configuration with 800 linear constraints "
    "(config message of about 76 KB) and in the thorough tier by one of 1800 variables (large requests and answers too), not modelled",
    "a signal the child survives (ignored or handled without exiting) is not a death: such a case is judged as a run without fault; "
    "a handler that makes the child exit -- with whatever status -- is a death",
    "'the evaluator raises' covers Exception and BaseException subclasses raised by the evaluator function (KeyboardInterrupt delivered "
    "asynchronously to the parent at an arbitrary point is outside the reading)",
]
TRUSTED = [
    "OS behaviour is NOT modelled (partial): signal delivery, FIFO buffering, process scheduling and real time-outs are exercised only by the "
    "real-process correspondence (wall time below _PROCESS_TIMEOUT + 90 s, child pid not alive, FIFO directory empty); the model places the "
    "death of a child that is killed while it waits for an answer at the parent's write of that answer (where it becomes observable) and "
    "assumes that writing into a FIFO without reader fails at once; an answer that cannot be encoded as JSON (`unenc` cases) is "
    "judged through the same write-error outcome (`ExPipe`, fault DieWaiting 1 SIGTERM: comm.write of the first answer raises, the "
    "parent terminates the waiting child)",
    "harness/c20_wrapper/ropt_plugin_optimizer (PATH wrapper: imports ropt from the tree under test, pid file, child-side wire log, stderr file, "
    "kill / rkill / exit / raise faults, pipe schedule, then ropt's own entry point) and the recording monkey-patches of the harness process "
    "(EnsembleOptimizer._optimizer_callback, _JSONPipeCommunicator.read/write incl. the injected 'not ready' results and the outside kill)",
    "SciPy optimizers and the EnsembleEvaluator are black boxes here: only their observable request/answer sequence is used",
    "framing: the model (Model/Framing.v) omits the `.strip()` of the delimiter line and of the message and is stated for messages without "
    "newline that are not the delimiter text (what json.dumps emits); the writer side (write loops over short writes) is not modelled -- it is "
    "exercised by the big-message and padded-config runs; Chk_C20.delim_bytes = '--READY--' (the probe fails closed if the constant changes)",
]

MANIFEST = {
    "level_text": ("Machine-checked Coq proof about an executable model of the framing layer of _JSONPipeCommunicator (Model/Framing.v: for every "
                   "list of newline-free messages and EVERY way the FIFO cuts their byte stream into pieces the reader returns exactly the "
                   "messages, in order; one message cut in two at any offset, also inside the delimiter line, is returned only after the "
                   "second piece: C20_framing_any_chunking, C20_framing_two_pieces), tied to the real read() by a probe that feeds it through "
                   "a real FIFO piece by piece (model reader evaluated in Coq on a sample of the feeds, every feed judged by the oracle), and "
                   "about an executable message-level model of ropt/plugins/optimizer/external.py (child program, "
                   "parent request loop with its answer/exception variables and write retry, JSON encode/decode of the four request and four "
                   "answer kinds, faults: death by any signal when about to write message k / right after the answer to message k / while "
                   "waiting for that answer, exit with a code): for every optimizer strategy, evaluator and pipe schedule the external run "
                   "makes exactly the in-process callbacks and ends the same way (C20_lossless_*, C20_trace_equal); for every crash point k "
                   "of every kind and every signal the run ends with the abnormal-termination error or the broken-pipe error after a prefix "
                   "of the evaluations, a non-zero return code or a read error report (with any message, also the empty one) never yields a "
                   "normal return, and a normal return implies the complete run (C20_fault_outcome, C20_death_never_success, "
                   "C20_success_is_complete, C20_raise_not_finished); which signal it was changes nothing but the return code "
                   "(C20_signal_irrelevant); the loop is left in the pass after the child is gone and every finite script terminates within "
                   "|script|+3 ready passes (C20_poll_exit, C20_terminates); in every final state the child is not running (C20_no_orphan); "
                   "results do not depend on the pipe schedule (C20_schedule_independent).  The model is tied to the code on every run by an "
                   "in-Coq correspondence over REAL process pairs: byte-identical callback / evaluator / result traces, exit code and optimum "
                   "of external vs in-process runs (also under injected pipe schedules), both ends of the pipe, and the model's predicted "
                   "outcome, trace, wire messages and child liveness under signal / exit / raise faults at every crash point of every kind."),
    "level_note": ("PARTIAL with respect to OS behaviour: signal delivery, FIFO buffering, scheduling and real time-outs cannot be exhibited by the "
                   "Gallina model (`terminate` assumes SIGTERM + wait ends a running child, `poll` reports a dead child, FIFOs deliver what was "
                   "written -- whole messages; a write into a FIFO without reader fails at once); "
                   "these are exercised only by the real-process correspondence (wall time < _PROCESS_TIMEOUT + 90 s, child pid dead, FIFO "
                   "directory empty; messages above the pipe capacity: F20e, fixed, one 76 KB config message on every run).  "
                   "Trusted: Coq kernel + VM; the PATH wrapper and the recording monkey-patches; SciPy and the evaluator as black boxes "
                   "replayed from the in-process run; the translator copying _PROCESS_TIMEOUT and OptimizerExitCode.  All theorems print "
                   "'Closed under the global context'."),
    "technique": "Coq proof (induction over fuel/schedules, a signal-insensitive bisimulation, on an executable protocol state machine) + in-Coq differential correspondence with real parent/child process pairs under injected faults and pipe schedules",
    "design_ref": "DESIGN.md section 4, C20",
}
