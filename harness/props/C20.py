"""C20 -- external-process runs equal in-process runs; process death is never success; never hangs;
no orphan process.

Correspondence (DESIGN section 4, C20): every case runs the REAL code twice in the harness process --
once in-process (`<method>`) and once through the external plug-in (`external/<method>`), whose child
process is started through the PATH wrapper `harness/c20_wrapper/ropt_plugin_optimizer` (kill switch,
pid file, child-side wire log; ropt itself is untouched).  Recorded for both runs, with every float as
its IEEE-754 bit pattern: the sequence of optimizer callbacks (variables, flags -> functions, gradients
| abort code | exception class), inside each callback the calls of the user's evaluator (variables,
realizations, active flags, returned objectives/constraints) and the results delivered with
FINISHED_EVALUATION, the exit code / exception class of the step and the optimal variables.  For the
external run also: the messages read/written by the parent and by the child, whether the child pid is
alive afterwards, leftovers in the FIFO directory, wall time, hang.  Coq (Check/Chk_C20.v) replays the
in-process callback sequence as the child's script through Model/Pipe.v (parent request loop, child
program, fault) and compares the model's prediction with everything observed of the external run.
"""
from __future__ import annotations

import hashlib
import json
import os
import shutil
import signal
import struct
import sys
import time
from pathlib import Path

import coqio as cq
from common import REPO

ID = "C20"
THEOREM_FILE = "Props/C20.v"
CHK_MODULE = "Check.Chk_C20"
CASE_TYPE = "Chk_C20.case"
CHECK_FN = "Chk_C20.check_case"
HEADER = "From Ropt Require Import Model.Pipe Gen.Generated."
SHARD_SIZE = 60
PARALLEL = True
CASE_TIMEOUT = 150
EXHAUSTIVE = {"quick": False, "thorough": False}

WRAPPER_DIR = Path(__file__).resolve().parent.parent / "c20_wrapper"
WORK = Path(__file__).resolve().parent.parent.parent / ".work"
NAN_BITS = 0x7FF8000000000000
EXTRA_WALL_S = 20          # the run must end within _PROCESS_TIMEOUT + 20 s (DESIGN C20)
INPROC_DEADLINE_S = 60


# ---------------------------------------------------------------------------------------------
# float / structure encoding
# ---------------------------------------------------------------------------------------------
def bits(x) -> int:
    x = float(x)
    if x != x:
        return NAN_BITS
    return struct.unpack("<Q", struct.pack("<d", x))[0]


def unbits(n: int) -> float:
    return struct.unpack("<d", struct.pack("<Q", n))[0]


def tensor(a):
    """numpy array (0/1/2-D) -> {"d": 1|2, "x": bits}; scalars are treated as 1-element vectors."""
    import numpy as np
    a = np.asarray(a, dtype=np.float64)
    if a.ndim == 0:
        a = a.reshape(1)
    if a.ndim == 1:
        return {"d": 1, "x": [bits(v) for v in a.tolist()]}
    if a.ndim == 2:
        return {"d": 2, "x": [[bits(v) for v in row] for row in a.tolist()]}
    raise ValueError("tensor rank > 2")


def bitify(o):
    """JSON-able object -> same structure with floats {"$f": bits} and ints {"$i": n} (as the wrapper)."""
    if o is None or isinstance(o, (bool, str)):
        return o
    if isinstance(o, float):
        return {"$f": bits(o)}
    if isinstance(o, int):
        return {"$i": o}
    if isinstance(o, (list, tuple)):
        return [bitify(x) for x in o]
    if isinstance(o, dict):
        return {str(k): bitify(v) for k, v in o.items()}
    if hasattr(o, "tolist"):
        return bitify(o.tolist())
    return {"$repr": repr(o)}


def _digest(o) -> str:
    return hashlib.sha1(json.dumps(o, sort_keys=True).encode()).hexdigest()[:20]


def _arr_effect(tag: int, a) -> list[int]:
    """Flatten an array into ints: tag, ndim, shape..., payload (floats as bits, ints/bools as ints)."""
    import numpy as np
    a = np.asarray(a)
    out = [tag, a.ndim] + [int(s) for s in a.shape]
    flat = a.reshape(-1).tolist()
    if a.dtype.kind == "f":
        out += [bits(v) for v in flat]
    elif a.dtype.kind in "iub":
        out += [int(v) for v in flat]
    else:
        out += [int(hashlib.sha1(repr(v).encode()).hexdigest()[:12], 16) for v in flat]
    return out


def _fingerprint(obj, out: list[int], depth: int = 0) -> None:
    """All numeric content of a results object (dataclass tree), in field order."""
    import dataclasses

    import numpy as np
    if obj is None:
        out.append(-1)
        return
    if isinstance(obj, np.ndarray):
        out.extend(_arr_effect(7, obj))
        return
    if isinstance(obj, (bool, int)):
        out.extend([8, int(obj)])
        return
    if isinstance(obj, float):
        out.extend([9, bits(obj)])
        return
    if dataclasses.is_dataclass(obj) and depth < 4:
        for f in dataclasses.fields(obj):
            if f.name in ("metadata", "config", "evaluation_info", "batch_id"):
                continue
            _fingerprint(getattr(obj, f.name), out, depth + 1)
        return
    out.append(-2)


# ---------------------------------------------------------------------------------------------
# the configuration and the user's evaluator of a case
# ---------------------------------------------------------------------------------------------
def build_config(case: dict, external: bool) -> dict:
    import numpy as np
    method = case["method"]
    cfg: dict = {
        "variables": {"initial_values": list(case["init"])},
        "optimizer": {"method": ("external/" + method) if external else method},
        "objectives": {"weights": list(case["obj_weights"])},
        "realizations": {"weights": list(case["real_weights"])},
        "gradient": {"number_of_perturbations": case.get("pert", 3),
                     "perturbation_magnitudes": case.get("pert_mag", 0.01)},
    }
    if case.get("lower") is not None:
        cfg["variables"]["lower_bounds"] = [(-np.inf if v is None else v) for v in case["lower"]]
    if case.get("upper") is not None:
        cfg["variables"]["upper_bounds"] = [(np.inf if v is None else v) for v in case["upper"]]
    if case.get("mask") is not None:
        cfg["variables"]["mask"] = list(case["mask"])
    if case.get("min_success") is not None:
        cfg["realizations"]["realization_min_success"] = case["min_success"]
    opt = cfg["optimizer"]
    for key, name in (("max_functions", "max_functions"), ("max_iterations", "max_iterations"),
                      ("tolerance", "tolerance")):
        if case.get(key) is not None:
            opt[name] = case[key]
    for key, name in (("speculative", "speculative"), ("split", "split_evaluations"), ("parallel", "parallel")):
        if case.get(key):
            opt[name] = True
    if case.get("options") is not None:
        opt["options"] = dict(case["options"])
    if case.get("ncon"):
        cfg["nonlinear_constraints"] = {
            "lower_bounds": [(-np.inf if v is None else v) for v in case["con_lower"]],
            "upper_bounds": [(np.inf if v is None else v) for v in case["con_upper"]],
        }
    if case.get("lin") is not None:
        lin = case["lin"]
        cfg["linear_constraints"] = {
            "coefficients": [list(r) for r in lin["coef"]],
            "lower_bounds": [(-np.inf if v is None else v) for v in lin["lower"]],
            "upper_bounds": [(np.inf if v is None else v) for v in lin["upper"]],
        }
    return cfg


class _Recorder:
    """Collects the callback-level trace and, inside each callback, the evaluator calls and results."""

    def __init__(self, case: dict):
        self.case = case
        self.trace: list[dict] = []
        self.stray: list[list[int]] = []
        self.current: list[list[int]] | None = None
        self.ncalls = 0          # calls of the user's evaluator
        self.nstart = 0          # START_EVALUATION events

    def effect(self, e: list[int]) -> None:
        (self.current if self.current is not None else self.stray).append(e)

    # -- the user's evaluator ------------------------------------------------------------------
    def evaluator(self, variables, context):
        import numpy as np

        from ropt.evaluator import EvaluatorResult
        case = self.case
        j = self.ncalls
        self.ncalls += 1
        eff = [1, j] + _arr_effect(2, variables) + _arr_effect(3, context.realizations)
        eff += _arr_effect(4, context.perturbations) if context.perturbations is not None else [-4]
        eff += _arr_effect(5, context.active_objectives) if context.active_objectives is not None else [-5]
        eff += _arr_effect(6, context.active_constraints) if context.active_constraints is not None else [-6]
        if case.get("eval_raise_at") is not None and j == case["eval_raise_at"]:
            self.effect(eff + [-9])
            msg = "verif: the user's evaluator failed"
            raise ValueError(msg)
        x = np.asarray(variables, dtype=np.float64)
        real = np.asarray(context.realizations, dtype=np.float64)[:, None]
        centers = np.asarray(case["centers"], dtype=np.float64)          # nobj x nvar
        shift = float(case.get("real_shift", 0.125))
        objs = np.stack([((x - centers[i][None, :] - shift * real) ** 2).sum(axis=1)
                         for i in range(len(case["obj_weights"]))], axis=1)
        cons = None
        if case.get("ncon"):
            coef = np.asarray(case["con_coef"], dtype=np.float64)        # ncon x nvar
            cons = x @ coef.T + 0.0625 * real + 0.25 * (x ** 2).sum(axis=1, keepdims=True)
        for call, row in case.get("nan", []):
            if call == j and row < objs.shape[0]:
                objs[row, :] = np.nan
                if cons is not None:
                    cons[row, :] = np.nan
        eff += _arr_effect(7, objs) + (_arr_effect(8, cons) if cons is not None else [-8])
        self.effect(eff)
        return EvaluatorResult(objectives=objs, constraints=cons)

    # -- observers -----------------------------------------------------------------------------
    def on_start(self, event) -> None:
        from ropt.enums import OptimizerExitCode
        from ropt.exceptions import OptimizationAborted
        j = self.nstart
        self.nstart += 1
        self.effect([10, j])
        if self.case.get("abort_at") is not None and j == self.case["abort_at"]:
            raise OptimizationAborted(exit_code=OptimizerExitCode.USER_ABORT)

    def on_finished(self, event) -> None:
        from ropt.results import FunctionResults
        for item in event.data.get("results", ()):
            out = [11, 0 if isinstance(item, FunctionResults) else 1]
            _fingerprint(item, out)
            self.effect(out)


class _Hang(BaseException):
    pass


def _with_deadline(seconds: float, fn):
    """Run fn() in the main thread; raise _Hang inside it when it takes longer than `seconds`."""
    def handler(signum, frame):
        raise _Hang()
    old_handler = signal.signal(signal.SIGALRM, handler)
    remaining = signal.alarm(0)
    t0 = time.time()
    signal.setitimer(signal.ITIMER_REAL, seconds)
    try:
        return fn()
    finally:
        signal.setitimer(signal.ITIMER_REAL, 0)
        signal.signal(signal.SIGALRM, old_handler)
        if remaining:
            signal.alarm(max(1, int(remaining - (time.time() - t0))))


def _run_once(case: dict, external: bool, deadline: float) -> dict:
    """One optimization through the public BasicOptimizer; returns trace + outcome."""
    from ropt.enums import EventType
    from ropt.exceptions import OptimizationAborted
    from ropt.optimization import _optimizer as om
    from ropt.plan import BasicOptimizer

    rec = _Recorder(case)
    orig = om.EnsembleOptimizer._optimizer_callback

    def recording_callback(self, variables, *, return_functions, return_gradients):
        entry = {"v": tensor(variables), "rf": bool(return_functions), "rg": bool(return_gradients),
                 "res": ["raise", "BaseException"], "eff": []}
        outer = rec.current
        rec.current = entry["eff"]
        try:
            f, g = orig(self, variables, return_functions=return_functions, return_gradients=return_gradients)
            entry["res"] = ["ok", tensor(f), tensor(g)]
            return f, g
        except OptimizationAborted as exc:
            code = exc.exit_code
            entry["res"] = ["abort", int(getattr(code, "value", -1))]
            raise
        except Exception as exc:
            entry["res"] = ["raise", type(exc).__name__]
            raise
        finally:
            rec.current = outer
            rec.trace.append(entry)

    om.EnsembleOptimizer._optimizer_callback = recording_callback
    out: list = ["raise", "BaseException"]
    best: list[int] = []
    hang = False
    t0 = time.time()
    try:
        def go():
            opt = BasicOptimizer(build_config(case, external), rec.evaluator)
            opt._observers.append((EventType.START_EVALUATION, rec.on_start))
            opt._observers.append((EventType.FINISHED_EVALUATION, rec.on_finished))
            opt.run()
            return opt
        opt = _with_deadline(deadline, go)
        out = ["exit", int(opt.exit_code.value)]
        best = [] if opt.variables is None else [bits(v) for v in opt.variables.tolist()]
    except _Hang:
        hang = True
        out = ["hang"]
    except Exception as exc:  # noqa: BLE001 - the observation is the exception class
        out = ["raise", type(exc).__name__, str(exc)[:200]]
    finally:
        om.EnsembleOptimizer._optimizer_callback = orig
    return {"trace": rec.trace, "stray": rec.stray, "out": out, "best": best, "hang": hang,
            "wall_ms": int((time.time() - t0) * 1000)}


def _pid_alive(pid: int) -> bool:
    try:
        os.kill(pid, 0)
    except ProcessLookupError:
        return False
    except PermissionError:
        return True
    # a zombie child of ours is not "running": reap it if it is ours and has exited
    try:
        done, _ = os.waitpid(pid, os.WNOHANG)
        if done == pid:
            return False
    except ChildProcessError:
        pass
    try:
        with open(f"/proc/{pid}/stat") as f:
            state = f.read().rsplit(")", 1)[1].split()[0]
        return state not in ("Z", "X")
    except OSError:
        return False


def _read_wire(path: Path) -> list:
    """Wire log (JSON lines {"w"|"r": msg}) -> [[kind, msg], ...]."""
    out = []
    if path.exists():
        for line in path.read_text().splitlines():
            line = line.strip()
            if not line:
                continue
            try:
                d = json.loads(line)
            except ValueError:
                out.append(["broken", line[:80]])
                continue
            for k, v in d.items():
                out.append([k, v])
    return out


def _process_timeout() -> float:
    import ropt.plugins.optimizer.external as ext
    return float(ext._PROCESS_TIMEOUT)


def run_impl(case: dict) -> dict:
    import tempfile

    import ropt.plugins.optimizer.external as ext
    from ropt.config.enopt import EnOptConfig

    # -- config round trip through JSON (the lossless-channel assumption for the config message)
    cfg = EnOptConfig.model_validate(build_config(case, external=True))
    dump1 = cfg.model_dump(round_trip=True)
    wire = json.loads(json.dumps(dump1, cls=_np_encoder()))
    dump2 = EnOptConfig.model_validate(wire).model_dump(round_trip=True)
    cfg_digest = _digest(bitify(wire))
    cfg_roundtrip = _digest(bitify(json.loads(json.dumps(dump2, cls=_np_encoder())))) == cfg_digest

    inproc = _run_once(case, external=False, deadline=INPROC_DEADLINE_S)

    scratch = WORK / f"C20-run-{os.getpid()}-{time.time_ns()}"
    fifo_root = scratch / "tmp"
    fifo_root.mkdir(parents=True)
    pidfile, clog, plog = scratch / "child.pid", scratch / "child.log", scratch / "parent.log"
    saved_env = {k: os.environ.get(k) for k in
                 ("PATH", "VERIF_C20_SRC", "VERIF_C20_PIDFILE", "VERIF_C20_LOG", "VERIF_C20_FAULT")}
    saved_tmp = tempfile.tempdir
    orig_read, orig_write = ext._JSONPipeCommunicator.read, ext._JSONPipeCommunicator.write
    plog_fd = os.open(plog, os.O_WRONLY | os.O_CREAT | os.O_APPEND, 0o600)

    def p_read(self):
        data = orig_read(self)
        if data is not None:
            os.write(plog_fd, (json.dumps({"r": bitify(data)}) + "\n").encode())
        return data

    def p_write(self, data):
        ok = orig_write(self, data)
        if ok:
            os.write(plog_fd, (json.dumps({"w": bitify(json.loads(json.dumps(data, cls=_np_encoder())))}) + "\n").encode())
        return ok

    pid = None
    try:
        os.environ["PATH"] = str(WRAPPER_DIR) + os.pathsep + (saved_env["PATH"] or "")
        os.environ["VERIF_C20_SRC"] = str(REPO / "src")
        os.environ["VERIF_C20_PIDFILE"] = str(pidfile)
        os.environ["VERIF_C20_LOG"] = str(clog)
        fault = case.get("fault") or ["none"]
        os.environ["VERIF_C20_FAULT"] = ":".join(str(v) for v in fault) if fault[0] != "none" else ""
        tempfile.tempdir = str(fifo_root)
        ext._JSONPipeCommunicator.read = p_read
        ext._JSONPipeCommunicator.write = p_write
        limit = _process_timeout() + EXTRA_WALL_S
        external = _run_once(case, external=True, deadline=limit + 5)
        t_end = time.time()
        # the child must be gone when the step returns: allow the OS a moment to deliver the exit
        alive = False
        started = pidfile.exists()
        if started:
            try:
                pid = int(pidfile.read_text().strip())
            except ValueError:
                pid = None
        if pid is not None:
            alive = _pid_alive(pid)
            t1 = time.time()
            while alive and time.time() - t1 < 0.5:
                time.sleep(0.05)
                alive = _pid_alive(pid)
        leftovers = sorted(str(p.relative_to(fifo_root)) for p in fifo_root.rglob("*"))
        external.update({
            "child_started": started, "child_alive": bool(alive), "fifo_left": leftovers,
            "pwire": _read_wire(plog), "cwire": _read_wire(clog), "limit_ms": int(limit * 1000),
            "after_ms": int((time.time() - t_end) * 1000),
        })
    finally:
        ext._JSONPipeCommunicator.read, ext._JSONPipeCommunicator.write = orig_read, orig_write
        tempfile.tempdir = saved_tmp
        os.close(plog_fd)
        for k, v in saved_env.items():
            if v is None:
                os.environ.pop(k, None)
            else:
                os.environ[k] = v
        _kill_stray(pid, pidfile)
        shutil.rmtree(scratch, ignore_errors=True)
    return {"cfg_roundtrip": bool(cfg_roundtrip), "cfg_digest": cfg_digest, "inproc": inproc, "ext": external,
            "process_timeout_ms": int(_process_timeout() * 1000)}


def _np_encoder():
    import numpy as np

    class Enc(json.JSONEncoder):
        def default(self, obj):
            if isinstance(obj, np.ndarray):
                return obj.tolist()
            return super().default(obj)
    return Enc


def _kill_stray(pid, pidfile: Path) -> None:
    """The harness never leaves a child behind, whatever the implementation did."""
    if pid is None and pidfile.exists():
        try:
            pid = int(pidfile.read_text().strip())
        except ValueError:
            pid = None
    if pid is None:
        return
    try:
        os.kill(pid, signal.SIGKILL)
    except (ProcessLookupError, PermissionError):
        pass
    try:
        os.waitpid(pid, os.WNOHANG)
    except (ChildProcessError, OSError):
        pass
