"""C06 -- evaluator requests are complete and correctly labelled; inactive entries inert;
no mutation of evaluator-owned objects; delivered results are snapshots.

One case = one configuration (ensemble shape, weights with zeros, filters, estimator, transforms) and a
short history of `EnsembleEvaluator.calculate` calls (function batches, combined function+gradient calls,
gradient-only calls that hit or miss the function cache = split evaluations) on ONE real EnsembleEvaluator,
issued directly or through a real optimizer / evaluator step of a Plan (then the results are what an event
observer receives, in the optimizer domain and as user-domain copies).
The user evaluator is a recording, memoising, monitored callable owned by the harness:

 (a) layout      -- the labels (realizations / perturbations) and the variable rows of every request are
                    compared exactly with Model/Layout.v (labels_* / rows_*), perturbations come from an
                    injected deterministic sampler plug-in, so the vector of every label is known;
 (b) provenance  -- every reported per-realization value (objectives, constraints, evaluation_info, also
                    through objective/constraint transforms, batches and NaN propagation) is compared exactly
                    with Model/Layout.v's report_* applied to what the evaluator returned;
 (c) activity    -- the activity matrices handed to the evaluator are compared with the model; every case is
                    run twice (runs A and B) with different finite garbage (B: huge) in the entries the
                    implementation itself flagged inactive: every derived result must be identical;
 (d) monitor     -- the returned result object records __setattr__, its arrays are harness-owned buffers that
                    are compared before/after, delivered results are re-hashed after every later call and
                    after the evaluator overwrites its buffers; the observed foreign writes are compared
                    with the (empty) list of Model/Store.v.  Monitored: every array reachable from every delivered
                    result (both domains), its base, the evaluation_info dicts, the arrays handed to the evaluator
                    and the caller's variable vector (overwritten after every call).
"""
from __future__ import annotations

import itertools
import math

import coqio as cq

ID = "C06"
THEOREM_FILE = "Props/C06.v"
CHK_MODULE = "Check.Chk_C06"
CASE_TYPE = "Chk_C06.case"
CHECK_FN = "Chk_C06.check_case"
HEADER = "From Ropt Require Import Model.Layout Model.Store."
SHARD_SIZE = 24
PARALLEL = True
CASE_TIMEOUT = 120
EXHAUSTIVE = {"quick": False, "thorough": False}   # the thorough grid enumerates a sub-space only (see RULE)

KNOWN_HUGE = "C06:huge-garbage-overflow"

HUGE_EXP = (40, 100)      # main stream, run B: garbage magnitudes 2^40 .. 2^100 (squares stay representable)
BIG_GARBAGE = (1e200, 8.988465674311579e307)   # separate small stream (known finding region): 1e200, finfo.max/2

FILTER_METHODS = ("sort-objective", "cvar-objective", "sort-constraint", "cvar-constraint")


# ---------------------------------------------------------------------------------------------
# deterministic pseudo-random tables (all evaluator outputs / samples are functions of the case)
# ---------------------------------------------------------------------------------------------
def _h(*ks) -> int:
    x = 0x9E3779B1
    for k in ks:
        x = ((x ^ (int(k) + 0x7F4A7C15)) * 0x85EBCA6B) & 0xFFFFFFFF
        x ^= x >> 13
        x = (x * 0xC2B2AE35) & 0xFFFFFFFF
        x ^= x >> 16
    return x


def _coef(vseed, j, r, v):
    return ((_h(vseed, 1, j, r, v) % 17) - 8) / 4.0


def _const(vseed, j, r):
    return ((_h(vseed, 2, j, r) % 65) - 32) / 4.0


def _sample(vseed, k, r, p, v):
    s = (_h(vseed, 3, k, r, p, v) % 15) - 7
    if s == 0:
        s = 8
    return s / 4.0


def _garbage(run, vseed, call, i, j, big=False):
    h = _h(vseed, 4, call, i, j, run)
    if run == 0:
        return ((h % 2001) - 1000) / 8.0
    sign = -1.0 if (h >> 7) & 1 else 1.0
    if big:
        return sign * BIG_GARBAGE[(h >> 9) % 2]
    return sign * (1 + h % 7) * 2.0 ** (HUGE_EXP[0] + (h >> 9) % (HUGE_EXP[1] - HUGE_EXP[0] + 1))


# ---------------------------------------------------------------------------------------------
# generators
# ---------------------------------------------------------------------------------------------
def _dy(rng, lo, hi, den):
    return rng.randint(lo, hi) / den


def _gen_filter(rng, R, nobj, ncon):
    meths = [m for m in FILTER_METHODS if ncon or "constraint" not in m]
    m = rng.choice(meths)
    if m.startswith("sort"):
        first = rng.randrange(R)
        last = rng.randrange(first, R)
        opts = {"first": first, "last": last}
    else:
        opts = {"percentile": rng.choice([0.25, 0.5, 0.75, 1.0, 0.375])}
    if "objective" in m:
        k = rng.randint(1, nobj)
        opts["sort"] = sorted(rng.sample(range(nobj), k))
    else:
        opts["sort"] = rng.randrange(ncon)
    return {"method": m, "options": opts}


def _gen_weights(rng, R, zero_bias):
    while True:
        w = [0 if rng.random() < zero_bias else rng.randint(1, 4) for _ in range(R)]
        if any(w):
            return w


def gen_one(rng, *, small=False, region=None):
    """One structured random case.  region: None | 'objfilter' | 'confilter' = split evaluations with only one kind of
    function filtered | 'twosplit' = the same with two split evaluations at different points on one EnsembleEvaluator."""
    two = region == "twosplit"
    if two:
        region = rng.choice(["objfilter", "confilter"])
    R = rng.randint(1, 3 if small else 6)
    P = rng.randint(1, 3 if small else 5)
    V = rng.randint(1, 3)
    nobj = rng.randint(1, 2)
    ncon = rng.choice([0, 1, 1, 2])
    if region:
        ncon = max(ncon, 1)
        R = max(R, 3 if two else 2)
    weights = _gen_weights(rng, R, rng.choice([0.0, 0.3, 0.5]) if not region else 0.4)
    if region and all(weights):
        weights[rng.randrange(R)] = 0
        if not any(weights):
            weights[0] = 1
    npts = rng.randint(2 if two else 1, 3)
    pts = []
    while len(pts) < npts:
        x = [_dy(rng, -16, 16, 8) for _ in range(V)]
        if x not in pts:
            pts.append(x)
    # filters
    filters, ofil, cfil = [], None, None
    roll = rng.random()
    if region == "objfilter":
        filters = [_gen_filter(rng, R, nobj, 0)]
        ofil = [0] * nobj if rng.random() < 0.7 else [rng.choice([0, -1]) for _ in range(nobj)]
    elif region == "confilter":
        filters = [_gen_filter(rng, R, nobj, ncon)]
        cfil = [0] * ncon if rng.random() < 0.7 else [rng.choice([0, -1]) for _ in range(ncon)]
    elif roll < 0.45:
        nf = rng.choice([1, 1, 2])
        filters = [_gen_filter(rng, R, nobj, ncon) for _ in range(nf)]
        if rng.random() < 0.8:
            ofil = [rng.randrange(-1, nf) for _ in range(nobj)]
        if ncon and rng.random() < 0.6:
            cfil = [rng.randrange(-1, nf) for _ in range(ncon)]
    est = "stddev" if (rng.random() < 0.25 and sum(1 for w in weights if w) >= 2) else "mean"
    merge = est == "mean" and rng.random() < 0.15
    vt = None
    if rng.random() < 0.4:
        vt = {"scales": [2.0 ** rng.randint(-2, 3) for _ in range(V)],
              "offsets": [_dy(rng, -8, 8, 4) for _ in range(V)]}
    ot = [2.0 ** rng.randint(-2, 3) for _ in range(nobj)] if rng.random() < 0.4 else None
    ct = [2.0 ** rng.randint(-2, 3) for _ in range(ncon)] if (ncon and rng.random() < 0.4) else None
    # history of calls
    ncalls = 4 if two else rng.randint(1, 2 if small else 4)
    calls = []
    for _ in range(ncalls):
        t = rng.random()
        if two and len(calls) >= 2:
            b = rng.choice([i for i in range(npts) if i != calls[0][1][0]])
            calls += [["F", [b]], ["G", b]]
            break
        if region and not calls:
            calls.append(["F", [rng.randrange(npts)]])
        elif region and len(calls) == 1:
            calls.append(["G", calls[0][1][0]])
        elif t < 0.12 and any(c[0] == "F" for c in calls):
            # the same function request again: a memoising evaluator returns the same object
            prev = rng.choice([c for c in calls if c[0] == "F"])
            calls.append(["F", list(prev[1])])
        elif t < 0.35:
            B = rng.randint(1, 2 if small else 4)
            calls.append(["F", [rng.randrange(npts) for _ in range(B)]])
        elif t < 0.55:
            calls.append(["FG", rng.randrange(npts)])
        else:
            # gradient only: prefer the cached point (split evaluation) when there is one
            prev = next((c for c in reversed(calls) if c[0] in ("F",)), None)
            if prev is not None and rng.random() < 0.75:
                calls.append(["G", prev[1][0]])
            else:
                calls.append(["G", rng.randrange(npts)])
    # failures: [call, row, which] -> NaN in objective 0 (which=0) / constraint 0 (which=1) of that row
    fails = []
    if rng.random() < 0.3:
        for _ in range(rng.randint(1, 3)):
            fails.append([rng.randrange(ncalls), rng.randrange(R * max(P, 2) + R), rng.randrange(2)])
    pert_min = rng.choice([1, 1, 1, P])
    if not filters and est == "mean" and not fails and R >= 2 and rng.random() < 0.3:
        # a negative realization weight is valid as long as the sum stays positive: "inactive" means |w| = 0
        pos = [i for i, w in enumerate(weights) if w > 0]
        i = rng.randrange(R)
        rest = sum(w for j, w in enumerate(weights) if j != i)
        if rest >= 2 and not (len(pos) == 1 and pos[0] == i):
            weights[i] = -rng.randint(1, rest - 1)
    return {
        "R": R, "P": P, "V": V, "nobj": nobj, "ncon": ncon, "weights": weights,
        "oweights": [rng.randint(1, 3) for _ in range(nobj)],
        "pts": pts, "calls": calls, "filters": filters, "ofil": ofil, "cfil": cfil,
        "est": est, "merge": merge, "vt": vt, "ot": ot, "ct": ct,
        "mags": [2.0 ** rng.randint(-3, 0) for _ in range(V)],
        "min_success": rng.choice([0, 0, 1]), "pert_min": pert_min,
        "fails": fails, "mode": rng.choice(["memo", "memo", "reuse", "reuse-ro", "fresh"]),
        "vseed": rng.randrange(1 << 20), "garb": "std",
        "route": "direct", "mask": None, "info2": rng.random() < 0.3,
    }


def _routed(rng, case, region=None):
    """Send a case through a real plan step (results reach an event observer) or give it a variable mask."""
    t = rng.random()
    if t < 0.22:
        case["route"] = "opt-step"
    elif t < 0.32 and region is None:
        # an evaluator step evaluates one batch of vectors
        first = next((c for c in case["calls"] if c[0] == "F"), None)
        if first is None:
            first = ["F", [rng.randrange(len(case["pts"])) for _ in range(rng.randint(1, 3))]]
        case["calls"] = [first]
        case["fails"] = [f for f in case["fails"] if f[0] == 0]
        case["route"] = "eval-step"
    elif t < 0.45 and case["V"] >= 2:
        m = [rng.random() < 0.6 for _ in range(case["V"])]
        if not any(m):
            m[rng.randrange(case["V"])] = True
        if not all(m):
            case["mask"] = m
    return case


def _grid_cases():
    """Exhaustive small grid: R,P,B <= 3, all weight-zero patterns, all evaluation kinds, no filters."""
    for R, P, B in itertools.product((1, 2, 3), repeat=3):
        for zeros in itertools.product((0, 1), repeat=R):
            if not any(zeros):
                continue
            for hist in ([["F", list(range(B))]], [["FG", 0]], [["F", [0]], ["G", 0]], [["G", 0]],
                         [["F", [0]], ["F", [0]], ["G", 0], ["G", 0]]):
                if hist[0][0] != "F" and B > 1:
                    continue
                yield {
                    "R": R, "P": P, "V": 2, "nobj": 1, "ncon": 1, "weights": list(zeros), "oweights": [1],
                    "pts": [[0.25, 0.5], [-0.5, 1.0], [1.25, -0.75]], "calls": hist, "filters": [],
                    "ofil": None, "cfil": None, "est": "mean", "merge": False,
                    "vt": {"scales": [2.0, 0.5], "offsets": [1.0, -1.0]} if (R + P + B) % 2 else None,
                    "ot": [4.0] if P % 2 else None, "ct": [0.5] if R % 2 else None, "mags": [0.5, 0.25],
                    "min_success": 0, "pert_min": 1, "fails": [], "mode": ("memo", "reuse", "fresh", "reuse-ro")[(R + B) % 4],
                    "vseed": 1000 * R + 100 * P + 10 * B + sum(zeros), "garb": "std",
                    "route": ("direct", "opt-step")[(R + P) % 2], "mask": None, "info2": bool(B % 2),
                }


def gen_cases(tier, rng):
    n = 440 if tier == "quick" else 6000
    for i in range(n):
        reg = None
        if i % 12 == 5:
            reg = "objfilter"
        elif i % 12 == 9:
            reg = "confilter"
        elif i % 12 == 2:
            reg = "twosplit"
        yield _routed(rng, gen_one(rng, small=(i % 5 == 0), region=reg), reg)
    # small separate stream: garbage >= 1e150 in run B (region of the known finding C06:huge-garbage-overflow)
    for i in range(20 if tier == "quick" else 200):
        c = gen_one(rng, small=(i % 2 == 0))
        c["filters"], c["ofil"], c["cfil"] = [], None, None
        c["weights"] = [abs(w) for w in c["weights"]]
        if all(c["weights"]) and c["R"] > 1:
            c["weights"][rng.randrange(c["R"])] = 0
        if i % 2 == 0 and sum(1 for w in c["weights"] if w) >= 2:
            c["est"], c["merge"] = "stddev", False
        c["garb"] = "big"
        yield c
    if tier == "thorough":
        yield from _grid_cases()


# ---------------------------------------------------------------------------------------------
# the driver: runs the REAL EnsembleEvaluator with a recording / memoising / monitored evaluator
# ---------------------------------------------------------------------------------------------
def _transforms(case):
    import numpy as np
    from ropt.transforms import OptModelTransforms, VariableScaler
    from ropt.transforms.base import NonLinearConstraintTransform, ObjectiveTransform

    class OScaler(ObjectiveTransform):
        def __init__(self, s):
            self._s = s

        def to_optimizer(self, objectives):
            return objectives / self._s

        def from_optimizer(self, objectives):
            return objectives * self._s

    class CScaler(NonLinearConstraintTransform):
        def __init__(self, s):
            self._s = s

        def bounds_to_optimizer(self, lower_bounds, upper_bounds):
            return lower_bounds / self._s, upper_bounds / self._s

        def to_optimizer(self, constraints):
            return constraints / self._s

        def from_optimizer(self, constraints):
            return constraints * self._s

        def nonlinear_constraint_diffs_from_optimizer(self, lower_diffs, upper_diffs):
            return lower_diffs * self._s, upper_diffs * self._s

    if case["vt"] is None and case["ot"] is None and case["ct"] is None:
        return None
    return OptModelTransforms(
        variables=None if case["vt"] is None else VariableScaler(np.array(case["vt"]["scales"]),
                                                                np.array(case["vt"]["offsets"])),
        objectives=None if case["ot"] is None else OScaler(np.array(case["ot"])),
        nonlinear_constraints=None if case["ct"] is None else CScaler(np.array(case["ct"])))


def _config(case, transforms):
    from ropt.config.enopt import EnOptConfig
    V, nobj, ncon = case["V"], case["nobj"], case["ncon"]
    # initial values are given in the user domain; only their number matters here
    d = {
        "variables": {"initial_values": [0.0] * V},
        "optimizer": {"method": "c06/script"} if case.get("route", "direct") == "opt-step" else {},
        "objectives": {"weights": list(case["oweights"])},
        "realizations": {"weights": list(case["weights"]), "realization_min_success": case["min_success"]},
        "gradient": {"number_of_perturbations": case["P"], "perturbation_min_success": case["pert_min"],
                     "perturbation_magnitudes": list(case["mags"]), "merge_realizations": bool(case["merge"])},
        "function_estimators": [{"method": case["est"]}],
        "samplers": [{"method": "c06/det"}],
    }
    if case.get("mask") is not None:
        d["variables"]["mask"] = list(case["mask"])
    if case["ofil"] is not None:
        d["objectives"]["realization_filters"] = list(case["ofil"])
    if ncon:
        d["nonlinear_constraints"] = {"lower_bounds": [0.0] * ncon, "upper_bounds": [1.0] * ncon}
        if case["cfil"] is not None:
            d["nonlinear_constraints"]["realization_filters"] = list(case["cfil"])
    if case["filters"]:
        d["realization_filters"] = [dict(f) for f in case["filters"]]
    return EnOptConfig.model_validate(d, context=transforms)


def _tolist(a):
    return None if a is None else a.tolist()


def _walk(obj, path=""):
    """(path, ndarray) for every array reachable from a results object (tuples/lists of results, nested
    dataclasses, dict values such as evaluation_info)."""
    import dataclasses

    import numpy as np
    if obj is None:
        return
    if isinstance(obj, np.ndarray):
        yield path, obj
    elif isinstance(obj, dict):
        for k in sorted(obj, key=str):
            yield from _walk(obj[k], f"{path}.{k}")
    elif isinstance(obj, (list, tuple)):
        for i, v in enumerate(obj):
            yield from _walk(v, f"{path}[{i}]")
    elif dataclasses.is_dataclass(obj):
        for f in dataclasses.fields(obj):
            if f.name in ("metadata",):
                continue
            yield from _walk(getattr(obj, f.name), f"{path}.{f.name}" if path else f.name)


def _walk_other(obj, path=""):
    """(path, repr) for everything reachable from a results object that is NOT an array: scalars, None, the key
    sets of dicts, the lengths of sequences (so that a snapshot whose dict gains a key or whose field is rebound
    to another value is seen to change)."""
    import dataclasses

    import numpy as np
    if isinstance(obj, np.ndarray):
        return
    if isinstance(obj, dict):
        yield path + "#keys", repr(sorted(map(str, obj)))
        for k in sorted(obj, key=str):
            yield from _walk_other(obj[k], f"{path}.{k}")
    elif isinstance(obj, (list, tuple)):
        yield path + "#len", str(len(obj))
        for i, v in enumerate(obj):
            yield from _walk_other(v, f"{path}[{i}]")
    elif dataclasses.is_dataclass(obj) and not isinstance(obj, type):
        for f in dataclasses.fields(obj):
            if f.name in ("metadata",):
                continue
            yield from _walk_other(getattr(obj, f.name), f"{path}.{f.name}" if path else f.name)
    else:
        yield path + "#value", repr(obj)


def _digest(results):
    import hashlib
    out = {}
    for path, a in _walk(results):
        out[path] = hashlib.sha1(a.tobytes() + str(a.shape).encode() + str(a.dtype).encode()).hexdigest()
    for path, r in _walk_other(results):
        out[path] = r
    return out


def _report(res):
    """Canonical JSON-able content of one FunctionResults / GradientResults."""
    from ropt.results import FunctionResults
    ev, rz = res.evaluations, res.realizations
    d = {"type": "F" if isinstance(res, FunctionResults) else "G", "batch_id": res.batch_id,
         "variables": _tolist(ev.variables),
         "info": {k: _tolist(v) for k, v in sorted(ev.evaluation_info.items())},
         "failed": _tolist(rz.failed_realizations), "ow": _tolist(rz.objective_weights),
         "cw": _tolist(rz.constraint_weights)}
    if d["type"] == "F":
        d["objectives"] = _tolist(ev.objectives)
        d["constraints"] = _tolist(ev.constraints)
        fn = res.functions
        d["functions"] = None if fn is None else {"wo": float(fn.weighted_objective), "o": _tolist(fn.objectives),
                                                  "c": _tolist(fn.constraints)}
        ci = res.constraint_info
        d["cinfo"] = None if ci is None else {p: _tolist(a) for p, a in _walk(ci)}
    else:
        d["pv"] = _tolist(ev.perturbed_variables)
        d["objectives"] = _tolist(ev.perturbed_objectives)
        d["constraints"] = _tolist(ev.perturbed_constraints)
        gr = res.gradients
        d["gradients"] = None if gr is None else {"wo": _tolist(gr.weighted_objective), "o": _tolist(gr.objectives),
                                                  "c": _tolist(gr.constraints)}
    return d


ANCHORED = ("ensemble_evaluator/_evaluator_results.py", "ensemble_evaluator/_ensemble_evaluator.py",
            "evaluator/_evaluator.py", "results/")


def _raise_site(exc):
    """Innermost ropt frame of an exception: 'relative/file.py:function'."""
    import traceback
    site = None
    for fr in traceback.extract_tb(exc.__traceback__):
        fn = fr.filename.replace("\\", "/")
        if "/ropt/" in fn:
            site = fn.split("/ropt/", 1)[1] + ":" + fr.name
    return site


def _run_once(case, run):
    """One complete history on a fresh EnsembleEvaluator; `run` selects the garbage (0 = A, 1 = B).
    route 'direct': the harness calls EnsembleEvaluator.calculate itself (and makes the user-domain copies the
    steps make); 'opt-step': a real optimizer step of a Plan whose (scripted) optimizer issues the history through
    the optimizer callback; 'eval-step': a real evaluator step.  In the step routes the results are what the
    FINISHED_EVALUATION event hands to an observer (`results` and `transformed_results`)."""
    import warnings

    import numpy as np
    from ropt.ensemble_evaluator import EnsembleEvaluator
    from ropt.enums import EventType
    from ropt.evaluator import EvaluatorResult
    from ropt.exceptions import OptimizationAborted
    from ropt.plugins import PluginManager
    from ropt.plugins.optimizer.base import Optimizer, OptimizerPlugin
    from ropt.plugins.sampler.base import Sampler, SamplerPlugin

    warnings.simplefilter("ignore")
    R, P, V, nobj, ncon, vseed = case["R"], case["P"], case["V"], case["nobj"], case["ncon"], case["vseed"]
    st = {"gcount": 0, "call": -1}
    big = case.get("garb") == "big"
    route = case.get("route", "direct")
    info2 = bool(case.get("info2"))

    class DetSampler(Sampler):
        def __init__(self, enopt_config, sampler_index, mask, rng):
            pass

        def generate_samples(self):
            k = st["gcount"]
            st["gcount"] += 1
            st["last_samples"] = k
            return np.array([[[_sample(vseed, k, r, p, v) for v in range(V)] for p in range(P)] for r in range(R)])

    class DetPlugin(SamplerPlugin):
        def create(self, enopt_config, sampler_index, mask, rng):
            return DetSampler(enopt_config, sampler_index, mask, rng)

        def is_supported(self, method):
            return method.lower() == "det"

    class MonResult(EvaluatorResult):
        """The evaluator's result object: records every attribute assignment made while armed."""

        def __setattr__(self, name, value):
            if self.__dict__.get("_armed"):
                self.__dict__.setdefault("_log", []).append(name)
            object.__setattr__(self, name, value)

        def __delattr__(self, name):
            if self.__dict__.get("_armed"):
                self.__dict__.setdefault("_log", []).append("del:" + name)
            object.__delattr__(self, name)

    pm = PluginManager()
    pm.add_plugin("sampler", "c06", DetPlugin())
    transforms = _transforms(case)
    config = _config(case, transforms)

    mode = case["mode"]
    memo = {}
    nmax = R * (max(P, 1) + 1) * 4 + 8
    pool = {"o": np.zeros((nmax, nobj)), "c": np.zeros((nmax, max(ncon, 1))), "id": np.zeros(nmax, dtype=np.int64),
            "t": np.zeros(nmax)}
    shared_obj = []
    owned = []          # every buffer the evaluator ever handed out: (name, array)
    info_dicts = []     # every evaluation_info dict the evaluator ever handed out
    handed = []         # every array ropt handed to the evaluator: (name, array)
    requests = []       # per evaluator invocation
    fails = {(c, i): w for c, i, w in case["fails"]}

    def evaluator(variables, context):
        call = st["call"]
        n = variables.shape[0]
        reals = np.array(context.realizations)
        perts = None if context.perturbations is None else np.array(context.perturbations)
        ao = None if context.active_objectives is None else np.array(context.active_objectives)
        ac = None if context.active_constraints is None else np.array(context.active_constraints)
        agg = None if context.active is None else np.array(context.active)   # per realization: what a lazy evaluator looks at
        for name, a in (("request-rows", variables), ("context", context.realizations), ("context", context.perturbations),
                        ("context", context.active_objectives), ("context", context.active_constraints),
                        ("context", context.active)):
            if isinstance(a, np.ndarray):
                handed.append((name, a))
        req = {"call": call, "rows": variables.tolist(), "realizations": reals.tolist(),
               "perturbations": None if perts is None else perts.tolist(),
               "ao": _tolist(ao), "ac": _tolist(ac), "active": _tolist(context.active),
               "rows_shape": list(variables.shape)}
        key = (variables.tobytes(), reals.tobytes(), None if perts is None else perts.tobytes(),
               None if ao is None else ao.tobytes(), None if ac is None else ac.tobytes())
        if mode == "memo" and key in memo:
            obj = memo[key]
            req["memo_hit"] = True
        else:
            o = np.empty((n, nobj))
            c = np.empty((n, ncon)) if ncon else None
            for i in range(n):
                r = int(reals[i]) if 0 <= int(reals[i]) < R else 0
                x = variables[i]
                for j in range(nobj):
                    o[i, j] = sum(_coef(vseed, j, r, v) * x[v] for v in range(min(V, x.size))) + _const(vseed, j, r)
                    if (ao is not None and not ao[j, r]) or (agg is not None and not agg[r]):
                        o[i, j] = _garbage(run, vseed, call, i, j, big)
                for j in range(ncon):
                    c[i, j] = sum(_coef(vseed, nobj + j, r, v) * x[v] for v in range(min(V, x.size))) \
                        + _const(vseed, nobj + j, r)
                    if (ac is not None and not ac[j, r]) or (agg is not None and not agg[r]):
                        c[i, j] = _garbage(run, vseed, call, i, nobj + j, big)
                w = fails.get((call, i))
                if w is not None:
                    if w == 1 and ncon:
                        c[i, 0] = np.nan
                    else:
                        o[i, 0] = np.nan
            ids = np.arange(n, dtype=np.int64) + 100 * (len(requests) + 1)
            ts = ids * 0.5 + 0.25
            if mode in ("reuse", "reuse-ro") and n <= nmax:
                pool["o"][:n] = o
                pool["id"][:n] = ids
                pool["t"][:n] = ts
                bo, bid, bt = pool["o"][:n], pool["id"][:n], pool["t"][:n]
                bc = None
                if ncon:
                    pool["c"][:n] = c
                    bc = pool["c"][:n]
                if mode == "reuse-ro":
                    # the evaluator hands out READ-ONLY views of buffers it keeps overwriting
                    bo, bid, bt = bo.view(), bid.view(), bt.view()
                    bo.flags.writeable = False
                    bid.flags.writeable = False
                    bt.flags.writeable = False
                    if bc is not None:
                        bc = bc.view()
                        bc.flags.writeable = False
                if not shared_obj:
                    shared_obj.append(MonResult(objectives=bo, constraints=bc, batch_id=None, evaluation_info={}))
                obj = shared_obj[0]
                obj.__dict__["_armed"] = False
                obj.objectives, obj.constraints, obj.batch_id = bo, bc, len(requests)
                obj.evaluation_info = {"id": bid, "t": bt} if info2 else {"id": bid}
            else:
                obj = MonResult(objectives=o, constraints=c, batch_id=len(requests),
                                evaluation_info={"id": ids, "t": ts} if info2 else {"id": ids})
            if mode == "memo":
                memo[key] = obj
        for name, a in [("objectives", obj.objectives), ("constraints", obj.constraints)] + \
                [("info." + k_, v_) for k_, v_ in obj.evaluation_info.items()]:
            if a is not None and not any(a is b for _, b in owned):
                owned.append((name, a))
        if not any(obj.evaluation_info is d_ for d_ in info_dicts):
            info_dicts.append(obj.evaluation_info)
        # what the evaluator returned, as seen at return time
        req["out_o"] = obj.objectives.tolist()
        req["out_c"] = _tolist(obj.constraints)
        req["out_id"] = obj.evaluation_info["id"].tolist()
        req["out_info"] = {k_: v_.tolist() for k_, v_ in sorted(obj.evaluation_info.items())}
        req["batch_id"] = obj.batch_id
        shadow = {"objectives": obj.objectives.copy(),
                  "constraints": None if obj.constraints is None else obj.constraints.copy()}
        for k_, v_ in obj.evaluation_info.items():
            shadow["info." + k_] = v_.copy()
        st["watch"] = {
            "obj": obj, "attrs": {k: v for k, v in obj.__dict__.items() if not k.startswith("_")},
            "info_items": dict(obj.evaluation_info), "shadow": shadow,
            "writeable": {name: (None if a is None else bool(a.flags.writeable)) for name, a in
                          [("objectives", obj.objectives), ("constraints", obj.constraints)] +
                          [("info." + k_, v_) for k_, v_ in obj.evaluation_info.items()]},
        }
        obj.__dict__["_log"] = []
        obj.__dict__["_armed"] = True
        requests.append(req)
        return obj

    def monitor_events():
        ev = []
        w = st.get("watch")
        if w is None:
            return ev
        obj = w["obj"]
        obj.__dict__["_armed"] = False
        for name in obj.__dict__.get("_log", []):
            ev.append("setattr:" + name)
        now = {k: v for k, v in obj.__dict__.items() if not k.startswith("_")}
        for k in sorted(set(now) | set(w["attrs"])):
            if k not in now or k not in w["attrs"] or now[k] is not w["attrs"][k]:
                ev.append("attr-replaced:" + k)
        info_now = w["attrs"]["evaluation_info"]          # the dict object the evaluator handed out
        if set(info_now) != set(w["info_items"]) or any(
                info_now[k] is not v for k, v in w["info_items"].items() if k in info_now):
            ev.append("info-dict-changed")
        for name, shadow in w["shadow"].items():
            cur = w["attrs"]["objectives"] if name == "objectives" else \
                w["attrs"]["constraints"] if name == "constraints" else w["info_items"][name[5:]]
            if shadow is None:
                continue
            if cur.shape != shadow.shape or cur.dtype != shadow.dtype or cur.tobytes() != shadow.tobytes():
                ev.append("buffer-changed:" + name)
            if bool(cur.flags.writeable) != w["writeable"][name]:
                ev.append("flags-changed:" + name)       # ropt changed the write flag of an array it does not own
        return ev

    delivered = []      # (call index, tag, results, digest)
    xbases = []         # every buffer behind a variable vector handed to calculate() / the optimizer callback
    calls_obs = []
    cfg_obs = {"weights": config.realizations.weights.tolist(), "mags": config.gradient.perturbation_magnitudes.tolist(),
               "has_filters": bool(case["filters"])}

    def changed(tag):
        out = []
        for (k0, t0, r0, d0) in delivered:
            d1 = _digest(r0)
            for path in sorted(set(d0) | set(d1)):
                if d1.get(path) != d0.get(path):
                    out.append(f"{tag}:call{k0}:{t0}:{path}")
        return out

    def make_x(k, kind, arg):
        if kind == "F":
            x = np.array([case["pts"][i] for i in arg], dtype=np.float64)
            if len(arg) == 1 and (vseed + k) % 2:
                x = x[0]
            flags = (True, False)
        else:
            x = np.array(case["pts"][arg], dtype=np.float64)
            flags = (True, True) if kind == "FG" else (False, True)
        xbase = x
        if (vseed + 2 * k) % 3 == 0:
            # the caller hands in a read-only view of a buffer it keeps re-using
            x = xbase.view()
            x.flags.writeable = False
        xbases.append(xbase)
        return x, xbase, flags

    def one_call(k, kind, arg, invoke):
        """invoke(x, flags) -> (results in the optimizer domain, their user-domain copies or None)."""
        st["call"] = k
        st["watch"] = None
        st.pop("last_samples", None)
        nreq = len(requests)
        x, xbase, flags = make_x(k, kind, arg)
        x_before = xbase.copy()
        co = {"kind": kind, "outcome": "ok", "results": [], "user": None, "requests": [], "events": []}
        res = user = None
        stop = None
        try:
            res, user, stop = invoke(x, flags)
        except OptimizationAborted as e:
            co["outcome"] = "abort:" + str(getattr(e.exit_code, "name", e.exit_code))
            stop = e
        except Exception as e:  # noqa: BLE001 - the class is the observation
            co["outcome"] = "raise:" + type(e).__name__
            co["message"] = str(e)[:200]
            co["site"] = _raise_site(e)
            stop = e
        co["requests"] = requests[nreq:]
        co["samples"] = st.get("last_samples")
        co["events"] += monitor_events()
        if not np.array_equal(xbase, x_before):
            co["events"].append("input-variables-changed")
        # earlier deliveries must not have changed
        co["events"] += changed("delivered-changed")
        if res is not None:
            co["results"] = [_report(r) for r in res]
            if user is not None:
                co["user"] = [_report(r) for r in user]
            for tag, rs in (("opt", res), ("user", user)):
                if rs is None:
                    continue
                for idx, r in enumerate(rs):
                    for path, a in _walk(r):
                        if a.flags.writeable:
                            co["events"].append(f"writeable:{tag}{idx}:{path}")
                        base = a
                        while isinstance(base.base, np.ndarray):
                            base = base.base
                        if base is not a and base.flags.writeable:
                            co["events"].append(f"writeable-base:{tag}{idx}:{path}")
                        for name, b in owned:
                            if np.shares_memory(a, b):
                                co["events"].append(f"alias:{tag}{idx}:{path}:{name}")
                        for name, b in handed:
                            if np.shares_memory(a, b):
                                co["events"].append(f"alias:{tag}{idx}:{path}:{name}")
                        if np.shares_memory(a, xbase):
                            co["events"].append(f"alias:{tag}{idx}:{path}:caller-x")
                    if any(r.evaluations.evaluation_info is d_ for d_ in info_dicts):
                        co["events"].append(f"alias:{tag}{idx}:evaluation_info:info.dict")
                delivered.append((k, tag, rs, _digest(rs)))
        # the caller re-uses its variable vector (as every optimizer does)
        if xbase.flags.writeable:
            xbase[...] = 4242.5 + k
        else:
            co["events"].append("flags-changed:caller-x")       # ropt froze an array it does not own
        co["events"] += changed("delivered-changed-after-caller-reuse")
        calls_obs.append(co)
        return stop

    def user_copies(res):
        return None if transforms is None else [item.transform_from_optimizer(transforms) for item in res]

    if route == "direct":
        ee = EnsembleEvaluator(config, transforms, evaluator, pm)

        def invoke(x, flags):
            res = ee.calculate(x, compute_functions=flags[0], compute_gradients=flags[1])
            return res, user_copies(res), None

        for k, (kind, arg) in enumerate(case["calls"]):
            if one_call(k, kind, arg, invoke) is not None:
                break
    else:
        from ropt.plan import OptimizerContext, Plan
        box = {}

        def on_results(event):
            box["data"] = dict(event.data)

        def via_event(thunk):
            """Run one request through the step; what the observer of FINISHED_EVALUATION received is the delivery."""
            box.pop("data", None)
            stop = None
            try:
                thunk()
            except OptimizationAborted as e:
                if "data" not in box:
                    raise
                stop = e            # results were delivered, then the step gave up (too few realizations)
            data = box.get("data")
            if data is None:
                return None, None, stop
            if "transformed_results" in data:
                return tuple(data["transformed_results"]), list(data["results"]), stop
            return tuple(data["results"]), None, stop

        class Scripted(Optimizer):
            def __init__(self, enopt_config, cb):
                self._cb = cb

            def start(self, initial_values):
                for k, (kind, arg) in enumerate(case["calls"]):
                    def invoke(x, flags):
                        return via_event(lambda: self._cb(x, return_functions=flags[0], return_gradients=flags[1]))
                    stop = one_call(k, kind, arg, invoke)
                    if stop is not None:
                        if isinstance(stop, OptimizationAborted):
                            raise stop
                        return

            @property
            def allow_nan(self):
                return True

            @property
            def is_parallel(self):
                return True

        class ScriptedPlugin(OptimizerPlugin):
            def create(self, enopt_config, cb):
                return Scripted(enopt_config, cb)

            def is_supported(self, method):
                return method.lower() == "script"

        pm.add_plugin("optimizer", "c06", ScriptedPlugin())
        ctx = OptimizerContext(evaluator=evaluator, plugin_manager=pm)
        ctx.add_observer(EventType.FINISHED_EVALUATION, on_results)
        plan = Plan(ctx)
        if route == "opt-step":
            step = plan.add_step("optimizer")
            plan.run_step(step, config=config, transforms=transforms)
        else:
            step = plan.add_step("evaluator")
            kind, arg = case["calls"][0]

            def invoke(x, flags):
                code = {}
                out = via_event(lambda: code.setdefault(
                    "exit", plan.run_step(step, config=config, transforms=transforms, variables=x)))
                if out[0] is None:
                    # the step swallowed an abort raised inside calculate(): nothing was delivered
                    raise OptimizationAborted(exit_code=code.get("exit"))
                return out

            one_call(0, kind, arg, invoke)
    # the evaluator now reuses (overwrites) every buffer it owns and every array it was ever handed, and edits
    # the evaluation_info dicts it handed out; the caller overwrites its vectors; deliveries must be unaffected
    for name, b in owned:
        if b.flags.writeable:
            b[...] = 777 if b.dtype.kind == "i" else -12345.5
    for arr in pool.values():
        arr[...] = 999 if arr.dtype.kind == "i" else 54321.25
    for name, b in handed:
        if b.flags.writeable:
            b[...] = 1 if b.dtype.kind in "biu" else 31337.5
    for d_ in info_dicts:
        for k_ in list(d_):
            d_[k_] = np.full(3, 5)
        d_["late"] = np.arange(2)
    for arr in xbases:
        if arr.flags.writeable:
            arr[...] = 4242.5
    final_events = changed("delivered-changed-after-reuse")
    return {"config": cfg_obs, "calls": calls_obs, "final_events": final_events}


def run_impl(case):
    a = _run_once(case, 0)
    b = _run_once(case, 1)
    return {"A": a, "B": b}


# ---------------------------------------------------------------------------------------------
# the property's predicate, evaluated directly on the observation (no model)
# ---------------------------------------------------------------------------------------------
def _same(x, y):
    """Structural equality of JSON values, NaN == NaN, -0.0 == 0.0."""
    if isinstance(x, float) or isinstance(y, float):
        if x is None or y is None or isinstance(x, (list, dict)) or isinstance(y, (list, dict)):
            return False
        return (math.isnan(x) and math.isnan(y)) or x == y
    if isinstance(x, list):
        return isinstance(y, list) and len(x) == len(y) and all(_same(a, b) for a, b in zip(x, y))
    if isinstance(x, dict):
        return isinstance(y, dict) and x.keys() == y.keys() and all(_same(x[k], y[k]) for k in x)
    return x == y


def _nan_rows(o, c):
    """_propagate_nan semantics as a specification: a row with any NaN is reported as all-NaN."""
    out_o, out_c = [], None if c is None else []
    for i, row in enumerate(o):
        bad = any(math.isnan(v) for v in row) or (c is not None and any(math.isnan(v) for v in c[i]))
        out_o.append([math.nan] * len(row) if bad else list(row))
        if c is not None:
            out_c.append([math.nan] * len(c[i]) if bad else list(c[i]))
    return out_o, out_c


def _user_x(case, x):
    if case["vt"] is None:
        return list(x)
    return [xi * s + o for xi, s, o in zip(x, case["vt"]["scales"], case["vt"]["offsets"])]


def _scaled(rows, scales):
    if rows is None or scales is None:
        return rows
    return [[v / s for v, s in zip(row, scales)] for row in rows]


def _expected_kind(case, k, cache_pt):
    kind, arg = case["calls"][k]
    if kind == "F":
        return "F"
    if kind == "G" and cache_pt is not None and case["pts"][cache_pt] == case["pts"][arg]:
        return "S"          # split evaluation: gradient only, weights from the cached function result
    return "B"              # functions and gradients in one request


def _inforce(cfgw, m, n):
    return [list(cfgw) for _ in range(n)] if m is None else m


def oracle_run(case, run_obs, other=None):
    """All clauses on one run; `other` is the second run for the inertness clause."""
    R, P, V, nobj, ncon = case["R"], case["P"], case["V"], case["nobj"], case["ncon"]
    cfgw = run_obs["config"]["weights"]
    mags = run_obs["config"]["mags"]
    has_filters = run_obs["config"]["has_filters"]
    cache = None          # (point index, ow, cw) of the cached function result
    for k, co in enumerate(run_obs["calls"]):
        kind, arg = case["calls"][k]
        ek = _expected_kind(case, k, None if cache is None else cache[0])
        if len(co["requests"]) != 1:
            return {"clause": "layout", "detail": f"call {k}: {len(co['requests'])} evaluator requests instead of 1"}
        rq = co["requests"][0]
        # ---- (a) layout: labels are the full product, each once; rows carry user-domain vectors
        if ek == "F":
            B = len(arg)
            labels = [(b, r) for b in range(B) for r in range(R)]
            want_real = [r for _, r in labels]
            want_pert = None
            want_rows = [_user_x(case, case["pts"][arg[b]]) for b, _ in labels]
        else:
            smp = co["samples"]
            if smp is None:
                return {"clause": "layout", "detail": f"call {k}: the sampler was not asked for perturbations"}
            x = case["pts"][arg]
            pv = [[[x[v] + mags[v] * _sample(case["vseed"], smp, r, p, v) for v in range(V)] for p in range(P)]
                  for r in range(R)]
            glabels = [(r, p) for r in range(R) for p in range(P)]
            labels = ([(r, -1) for r in range(R)] if ek == "B" else []) + glabels
            want_real = [r for r, _ in labels]
            want_pert = [p for _, p in labels]
            want_rows = [_user_x(case, x if p < 0 else pv[r][p]) for r, p in labels]
        if rq["realizations"] != want_real or rq["perturbations"] != want_pert:
            return {"clause": "layout-labels", "detail": {"call": k, "kind": ek, "realizations": rq["realizations"],
                                                          "perturbations": rq["perturbations"]}}
        if not _same(rq["rows"], want_rows):
            return {"clause": "layout-rows", "detail": {"call": k, "kind": ek, "rows": rq["rows"], "expected": want_rows}}
        # ---- (c) activity
        def flagged(m, n):
            return [[True] * R for _ in range(n)] if m is None else m
        ao, ac = flagged(rq["ao"], nobj), flagged(rq["ac"], ncon)
        if len(ao) != nobj or len(ac) != ncon or any(len(r_) != R for r_ in ao + ac):
            return {"clause": "activity-shape", "detail": {"call": k, "ao": rq["ao"], "ac": rq["ac"]}}
        agg = rq.get("active")
        for r in range(R):
            want = any(row[r] for row in ao + ac)
            got = True if agg is None else bool(agg[r])
            if got != want:
                return {"clause": "aggregate_active_flag", "detail": {"call": k, "kind": ek, "realization": r, "active": agg,
                                                                      "ao": rq["ao"], "ac": rq["ac"]}}
        if ek in ("F", "B"):
            for name, m in (("objectives", ao), ("constraints", ac)):
                for j, row in enumerate(m):
                    for r in range(R):
                        if not row[r] and cfgw[r] != 0:
                            return {"clause": "inactive_only_if_zero",
                                    "detail": {"call": k, "kind": ek, "which": name, "entry": [j, r], "weight": cfgw[r]}}
        else:
            ow = _inforce(cfgw, cache[1], nobj)
            cw = _inforce(cfgw, cache[2], ncon)
            for name, m, w in (("objectives", ao, ow), ("constraints", ac, cw)):
                for j, row in enumerate(m):
                    for r in range(R):
                        if not row[r] and w[j][r] != 0:
                            return {"clause": "inactive_only_if_zero",
                                    "detail": {"call": k, "kind": ek, "which": name, "entry": [j, r], "weight": w[j][r],
                                               "ow_none": cache[1] is None, "cw_none": cache[2] is None}}
            for name, m, w in (("objectives", ao, ow), ("constraints", ac, cw)):
                for j, row in enumerate(m):
                    for r in range(R):
                        if row[r] and w[j][r] == 0:
                            return {"clause": "split_gradient_iff_zero",
                                    "detail": {"call": k, "which": name, "entry": [j, r],
                                               "ow_none": cache[1] is None, "cw_none": cache[2] is None,
                                               "configured_weight": cfgw[r]}}
        # ---- (d) monitor
        if co["events"]:
            return {"clause": "no-mutation-snapshots", "detail": {"call": k, "events": co["events"][:8]}}
        if co["outcome"].startswith("raise:"):
            # an exception out of the request/report code itself, or a refused write into a read-only array
            site, msg = co.get("site") or "", co.get("message") or ""
            if "read-only" in msg or any(a in site for a in ANCHORED):
                return {"clause": "no-mutation-snapshots" if "read-only" in msg else "request-pipeline-raised",
                        "detail": {"call": k, "outcome": co["outcome"], "site": site, "message": msg}}
        if co["outcome"] != "ok":
            break
        # ---- (b) provenance
        o_t = _scaled(rq["out_o"], case["ot"])
        c_t = _scaled(rq["out_c"], case["ct"])
        if ncon and c_t is None:
            return {"clause": "provenance", "detail": "constraints missing"}
        o_p, c_p = _nan_rows(o_t, c_t)
        res = co["results"]
        want_types = {"F": ["F"] * (len(arg) if kind == "F" else 1), "S": ["G"], "B": ["F", "G"]}[ek]
        if [r_["type"] for r_ in res] != want_types:
            return {"clause": "provenance", "detail": {"call": k, "result types": [r_["type"] for r_ in res]}}
        def block(rows, lo, n):
            return None if rows is None else rows[lo:lo + n]
        for idx, r_ in enumerate(res):
            if r_["type"] == "F":
                lo = idx * R if ek == "F" else 0
                want = {"objectives": block(o_p, lo, R), "constraints": block(c_p, lo, R),
                        "info": {k_: v_[lo:lo + R] for k_, v_ in rq["out_info"].items()},
                        "variables": case["pts"][arg[idx]] if kind == "F" else case["pts"][arg]}
            else:
                lo = R if ek == "B" else 0
                def cube(rows):
                    return None if rows is None else [[rows[lo + r * P + p] for p in range(P)] for r in range(R)]
                want = {"objectives": cube(o_p), "constraints": cube(c_p),
                        "info": {k_: [[v_[lo + r * P + p] for p in range(P)] for r in range(R)]
                                 for k_, v_ in rq["out_info"].items()},
                        "variables": case["pts"][arg], "pv": pv}
            for f, wv in want.items():
                if not _same(r_[f], wv):
                    return {"clause": "provenance", "detail": {"call": k, "kind": ek, "result": idx, "field": f,
                                                               "reported": r_[f], "expected": wv}}
            if r_["batch_id"] != rq["batch_id"]:
                return {"clause": "provenance", "detail": {"call": k, "field": "batch_id"}}
        # ---- (a)+(b) once more in the USER domain, without any model of the transforms: the copies handed to event
        #      handlers must show the very vectors the evaluator was given and (at active entries) the very values it
        #      returned for them (power-of-two scales: x / s * s is exact)
        has_tr = case["vt"] is not None or case["ot"] is not None or case["ct"] is not None
        if (co["user"] is None) == has_tr:
            return {"clause": "provenance-user-domain", "detail": {"call": k, "user copies": co["user"] is not None,
                                                                   "transforms": has_tr}}
        if co["user"] is not None:
            raw_o, raw_c = _nan_rows(rq["out_o"], rq["out_c"])
            if [u["type"] for u in co["user"]] != want_types:
                return {"clause": "provenance-user-domain", "detail": {"call": k, "types": [u["type"] for u in co["user"]]}}
            for idx, u in enumerate(co["user"]):
                if u["type"] == "F":
                    lo = idx * R if ek == "F" else 0
                    want = {"variables": rq["rows"][lo], "objectives": block(raw_o, lo, R), "constraints": block(raw_c, lo, R)}
                    if any(not _same(rq["rows"][lo + r], rq["rows"][lo]) for r in range(R)):
                        return {"clause": "layout-rows", "detail": {"call": k, "block": idx}}
                else:
                    lo = R if ek == "B" else 0
                    def ucube(rows):
                        return None if rows is None else [[rows[lo + r * P + p] for p in range(P)] for r in range(R)]
                    want = {"pv": ucube(rq["rows"]), "objectives": ucube(raw_o), "constraints": ucube(raw_c)}
                    if ek == "B":
                        want["variables"] = rq["rows"][0]
                for f, wv in want.items():
                    got = u[f]
                    if f in ("objectives", "constraints"):
                        fl = ao if f == "objectives" else ac
                        got, wv = _mask_inactive(got, fl), _mask_inactive(wv, fl)
                    if not _same(got, wv):
                        return {"clause": "provenance-user-domain", "detail": {"call": k, "kind": ek, "result": idx, "field": f,
                                                                               "reported": got, "expected": wv}}
                if not _same(u["info"], res[idx]["info"]):
                    return {"clause": "provenance-user-domain", "detail": {"call": k, "result": idx, "field": "info"}}
        # ---- cache for split evaluations (function_results[0] of a function-only call; cleared by a combined call)
        if ek == "F":
            cache = (arg[0], res[0]["ow"], res[0]["cw"])
        elif ek == "B":
            cache = None
    if run_obs["final_events"]:
        return {"clause": "no-mutation-snapshots", "detail": {"events": run_obs["final_events"][:8]}}
    # ---- (c) inertness: the two runs differ only in the garbage returned for flagged-inactive entries
    if other is not None:
        diffs = inert_diffs(run_obs, other)
        if diffs:
            return {"clause": "inert", "detail": {"diffs": diffs[:12], "n": len(diffs)}}
    return None


def inert_diffs(a, b):
    """Every reported item on which the two runs differ (evaluations only at entries flagged active)."""
    diffs = []
    if len(a["calls"]) != len(b["calls"]):
        return [{"field": "history-length"}]
    for k, (ca, cb) in enumerate(zip(a["calls"], b["calls"])):
        if ca["outcome"] != cb["outcome"]:
            diffs.append({"call": k, "field": "outcome", "A": ca["outcome"], "B": cb["outcome"]})
            continue
        if len(ca["results"]) != len(cb["results"]) or len(ca["requests"]) != len(cb["requests"]):
            diffs.append({"call": k, "field": "number of results/requests"})
            continue
        ra, rb = (ca["requests"][0], cb["requests"][0]) if ca["requests"] else (None, None)
        if ra is not None:
            for f in ("rows", "realizations", "perturbations", "ao", "ac"):
                if not _same(ra[f], rb[f]):
                    diffs.append({"call": k, "field": "request." + f, "A": ra[f], "B": rb[f]})
        if (ca.get("user") is None) != (cb.get("user") is None) or \
                (ca.get("user") is not None and len(ca["user"]) != len(cb["user"])):
            diffs.append({"call": k, "field": "number of user-domain copies"})
            continue
        for dom, la, lb in (("opt", ca["results"], cb["results"]), ("user", ca.get("user") or [], cb.get("user") or [])):
            for idx, (xa, xb) in enumerate(zip(la, lb)):
                for f in xa:
                    if f in ("batch_id", "info"):
                        continue
                    va, vb = xa[f], xb[f]
                    if f in ("objectives", "constraints") and ra is not None:
                        flags = ra["ao" if f == "objectives" else "ac"]
                        va, vb = _mask_inactive(va, flags), _mask_inactive(vb, flags)
                    if not _same(va, vb):
                        diffs.append({"call": k, "result": idx, "field": f, "A": va, "B": vb, "domain": dom})
    return diffs


def _mask_inactive(vals, flags):
    """Blank the entries of an evaluations array that belong to (function, realization) pairs flagged inactive
    (first axis = realization, last axis = function)."""
    if vals is None or flags is None:
        return vals
    out = []
    for r, sub in enumerate(vals):
        if sub and isinstance(sub[0], list):
            out.append([[v if flags[j][r] else 0.0 for j, v in enumerate(row)] for row in sub])
        else:
            out.append([v if flags[j][r] else 0.0 for j, v in enumerate(sub)])
    return out


def oracle(case, obs):
    v = oracle_run(case, obs["A"], obs["B"])
    if v is not None and v["clause"] != "inert":
        return v
    w = oracle_run(case, obs["B"], None)
    if w is not None:
        w["detail"] = {"run": "B", "detail": w["detail"]}
        return w
    return v


# ---------------------------------------------------------------------------------------------
# Gallina printer
# ---------------------------------------------------------------------------------------------
_FIELD = {"objectives": "FObj", "constraints": "FCon", "info.id": "FInfo", "info.t": "FInfo", "info.dict": "FInfo",
          "evaluation_info": "FInfo", "info": "FInfo", "request-rows": "FVar", "caller-x": "FVar", "variables": "FVar"}


def _code(ev: str) -> str:
    parts = ev.split(":")
    if parts[0] in ("setattr", "attr-replaced"):
        f = _FIELD.get(parts[1])
        return f"(CSetAttr {f})" if f else "COther"
    if parts[0] in ("buffer-changed", "flags-changed"):
        f = _FIELD.get(parts[1])
        return f"(CBufferChanged {f})" if f else "COther"
    if parts[0] == "alias":
        f = _FIELD.get(parts[-1])
        return f"(CAlias {f})" if f else "COther"
    if parts[0].startswith("delivered-changed"):
        return "CDeliveredChanged"
    if parts[0] == "input-variables-changed":
        return "(CBufferChanged FVar)"
    return "COther"


def _dv(x) -> str:
    x = float(x)
    if math.isnan(x):
        return "DNan"
    if math.isinf(x):
        return "DPInf" if x > 0 else "DNInf"
    return f"(DQ {cq.q(x)})"


def _flat(v, out):
    if v is None:
        out += ["DNInf", "DPInf", "DNInf"]
    elif isinstance(v, bool):
        out.append("(DQ (Q_ 1 1))" if v else "(DQ (Q_ 0 1))")
    elif isinstance(v, (int, float)):
        out.append(_dv(v))
    elif isinstance(v, str):
        out.append(f"(DQ (Q_ {sum(ord(ch) * (i + 1) for i, ch in enumerate(v)) % 100003} 1))")
    elif isinstance(v, list):
        out.append(f"(DQ (Q_ {len(v)} 1))")
        for e in v:
            _flat(e, out)
    elif isinstance(v, dict):
        for k in sorted(v):
            _flat(v[k], out)
    else:
        raise TypeError(type(v))
    return out


def _derived(co):
    """The derived results of one call (everything computed from the evaluations): they must not depend on the
    garbage.  (The evaluations of run A are compared with the model entry by entry; those of run B, the requests of
    run B and the active entries of both runs are compared by the oracle.)"""
    out = []
    _flat(co["outcome"], out)
    _flat(len(co["results"]), out)
    for r in co["results"]:
        for f in ("failed", "ow", "cw", "functions", "gradients", "cinfo"):
            if f in r:
                _flat(r[f], out)
    return cq.lst(out)


def _orows(rows):
    return cq.lst(cq.oqs(r) for r in rows)


def _oopt(rows, f):
    return "None" if rows is None else f"(Some {f(rows)})"


def _wm(m):
    return "None" if m is None else f"(Some {cq.qmat(m)})"


def _am(m):
    return "None" if m is None else f"(Some {cq.lst(cq.bs(r) for r in m)})"


def _res_term(r):
    if r["type"] == "F":
        fn = r["functions"]
        fobj = "None" if fn is None else f"(Some {cq.oqs(fn['o'])})"
        fcon = "None" if fn is None or fn["c"] is None else f"(Some {cq.oqs(fn['c'])})"
        return (f"(OF {cq.qs(r['variables'])} {_orows(r['objectives'])} {_oopt(r['constraints'], _orows)} "
                f"{cq.nats(r['info'].get('id', []))} {cq.bs(r['failed'])} {_wm(r['ow'])} {_wm(r['cw'])} {fobj} {fcon})")
    cube = lambda c: cq.lst(_orows(blk) for blk in c)  # noqa: E731
    return (f"(OG {cq.qs(r['variables'])} {cq.lst(cq.qmat(blk) for blk in r['pv'])} {cube(r['objectives'])} "
            f"{_oopt(r['constraints'], cube)} {cq.lst(cq.nats(row) for row in r['info'].get('id', []))})")


def _req_term(kind, arg):
    if kind == "F":
        return f"(QF {cq.nats(arg)})"
    return f"(QG {cq.nat(arg)})" if kind == "G" else f"(QFG {cq.nat(arg)})"


def coq_case(case, obs):
    A, Bo = obs["A"], obs["B"]
    R, P, V = case["R"], case["P"], case["V"]
    calls = []
    S = 1.0
    for k, co in enumerate(A["calls"]):
        kind, arg = case["calls"][k]
        rq = co["requests"][0] if co["requests"] else None
        cb = Bo["calls"][k] if k < len(Bo["calls"]) else None
        if k == len(A["calls"]) - 1 and len(Bo["calls"]) != len(A["calls"]):
            cb = None
        smp = co.get("samples")
        samples = "[]" if smp is None else cq.lst(
            cq.lst(cq.qs([_sample(case["vseed"], smp, r, p, v) for v in range(V)]) for p in range(P)) for r in range(R))
        if rq is None:
            rq = {"realizations": [], "perturbations": None, "rows": [], "ao": None, "ac": None, "active": None,
                  "out_o": [], "out_c": None, "out_id": []}
        for row in rq["out_o"] + (rq["out_c"] or []):
            for v in row:
                if not math.isnan(v):
                    S = max(S, abs(v))
        pert = "None" if rq["perturbations"] is None else f"(Some {cq.zs(rq['perturbations'])})"
        if any(x < 0 for x in rq["realizations"]) or any(x < 0 for x in rq["out_id"]):
            raise ValueError("negative label")
        ok = co["outcome"] == "ok"
        calls.append(
            "(Build_callobs %s %s %s %s %s %s %s %s %s %s %s %s %s %s %s %s %s)" % (
                _req_term(kind, arg), samples, cq.b(ok), cq.b(len(co["requests"]) == 1),
                cq.nats(rq["realizations"]), pert, cq.qmat(rq["rows"]), _am(rq["ao"]), _am(rq["ac"]),
                "None" if rq.get("active") is None else f"(Some {cq.bs(rq['active'])})",
                _orows(rq["out_o"]), _oopt(rq["out_c"], _orows), cq.nats(rq["out_id"]),
                cq.lst(_res_term(r) for r in co["results"]) if ok else "[]",
                cq.lst(_code(e) for e in co["events"]),
                _derived(co), _derived(cb) if cb is not None else "[DNan]"))
    vt = "None" if case["vt"] is None else "(Some %s)" % cq.lst(
        f"({cq.q(s)}, {cq.q(o)})" for s, o in zip(case["vt"]["scales"], case["vt"]["offsets"]))
    fs = lambda s: "None" if s is None else f"(Some {cq.qs(s)})"  # noqa: E731
    return ("(Build_case %s %s %s %s %s %s %s %s %s %s %s %s %s %s %s)" % (
                cq.nat(R), cq.nat(P), cq.nat(case["nobj"]), cq.nat(case["ncon"]), cq.qs(A["config"]["weights"]),
                cq.qs(A["config"]["mags"]), cq.b(A["config"]["has_filters"]), cq.b(case["est"] == "stddev"),
                vt, fs(case["ot"]), fs(case["ct"]), cq.qmat(case["pts"]), cq.lst(calls),
                cq.lst(_code(e) for e in A["final_events"] + Bo["final_events"]
                       + [e for c_ in Bo["calls"] for e in c_["events"]]),
                cq.q(S)))


# ---------------------------------------------------------------------------------------------
# evidence helpers, known findings, shrinking, search
# ---------------------------------------------------------------------------------------------
def _kinds(case, obs):
    """Model-independent classification of every executed call: F / B (combined) / S (split gradient)."""
    out, cache = [], None
    for k, co in enumerate(obs["A"]["calls"]):
        ek = _expected_kind(case, k, cache)
        out.append(ek)
        if co["outcome"] != "ok":
            break
        if ek == "F":
            cache = case["calls"][k][1][0]
        elif ek == "B":
            cache = None
    return out


def _has_inactive(obs):
    for co in obs["A"]["calls"]:
        for rq in co["requests"]:
            for m in (rq["ao"], rq["ac"]):
                if m is not None and any(not v for row in m for v in row):
                    return True
    return False


def nontrivial(case, obs):
    """An evaluation with >= 2 rows was requested and answered, and either some entry was flagged inactive
    (garbage was really injected) or the history has >= 2 calls (snapshots / memoisation exercised)."""
    calls = obs["A"]["calls"]
    if not calls or calls[0]["outcome"] != "ok" or not calls[0]["requests"]:
        return False
    if len(calls[0]["requests"][0]["rows"]) < 2:
        return False
    return _has_inactive(obs) or len(calls) >= 2


def features(case, obs):
    kinds = _kinds(case, obs)
    outcomes = [co["outcome"].split(":")[0] for co in obs["A"]["calls"]]
    filt = "none"
    if case["filters"]:
        o, c = case["ofil"] is not None and any(i >= 0 for i in case["ofil"]), \
            case["cfil"] is not None and any(i >= 0 for i in case["cfil"])
        filt = {(True, True): "obj+con", (True, False): "obj-only", (False, True): "con-only",
                (False, False): "configured-unused"}[(o, c)]
    return {
        "R": case["R"], "P": case["P"], "B": max([len(a) for k_, a in case["calls"] if k_ == "F"] or [0]),
        "calls": len(case["calls"]), "kinds": "".join(kinds), "split": "S" in kinds,
        "zero_weights": min(3, sum(1 for w in case["weights"] if w == 0)), "inactive_flagged": _has_inactive(obs),
        "negative_weight": any(w < 0 for w in case["weights"]), "route": case.get("route", "direct"),
        "mask": case.get("mask") is not None, "info_keys": 2 if case.get("info2") else 1,
        "user_copies": any(co.get("user") is not None for co in obs["A"]["calls"]),
        "aggregate_skips": any(rq.get("active") is not None and not all(rq["active"])
                               for co in obs["A"]["calls"] for rq in co["requests"]),
        "ro_input": any((case["vseed"] + 2 * k) % 3 == 0 for k in range(len(obs["A"]["calls"]))),
        "filters": filt, "est": case["est"], "merge": case["merge"], "mode": case["mode"], "garbage": case.get("garb", "std"),
        "transforms": "".join(t for t, v in (("v", case["vt"]), ("o", case["ot"]), ("c", case["ct"])) if v) or "-",
        "nan_failures": bool(case["fails"]), "aborted": "abort" in outcomes, "raised": "raise" in outcomes,
        "memo_hit": any(rq.get("memo_hit") for co in obs["A"]["calls"] for rq in co["requests"]),
    }


def _leaves(v, path=""):
    if isinstance(v, dict):
        for k in v:
            yield from _leaves(v[k], f"{path}.{k}")
    elif isinstance(v, list):
        for i, e in enumerate(v):
            yield from _leaves(e, f"{path}[{i}]")
    else:
        yield path, v


def known_signature(case, obs, violation):
    """C06:huge-garbage-overflow -- only when garbage >= 1e150 was returned for inactive entries (separate
    stream), the failing clause is inertness, and EVERY reported value that differs between the two runs is
    NaN/inf in the huge-garbage run (constraint_info is a function of functions.constraints and is accepted
    only together with NaN constraints)."""
    if violation is None or violation.get("clause") != "inert":
        return None
    if case.get("garb") != "big" or min(BIG_GARBAGE) < 1e150 or not _has_inactive(obs):
        return None
    diffs = inert_diffs(obs["A"], obs["B"])
    if not diffs:
        return None
    for d in diffs:
        if d.get("field") not in ("functions", "gradients", "cinfo") or d.get("A") is None or d.get("B") is None:
            return None
        la, lb = dict(_leaves(d["A"])), dict(_leaves(d["B"]))
        if la.keys() != lb.keys():
            return None
        if d["field"] == "cinfo":
            same_res = [e for e in diffs if e.get("call") == d["call"] and e.get("result") == d["result"]
                        and e.get("field") == "functions"]
            if not same_res or not any(isinstance(v, float) and math.isnan(v)
                                       for p_, v in _leaves(same_res[0]["B"]) if p_.startswith(".c")):
                return None
            continue
        for p_ in la:
            a, b = la[p_], lb[p_]
            if _same(a, b):
                continue
            if not (isinstance(b, float) and (math.isnan(b) or math.isinf(b))):
                return None
    return KNOWN_HUGE


def shrink(case):
    calls = case["calls"]
    for k in range(len(calls) - 1, -1, -1):
        if len(calls) > 1:
            yield {**case, "calls": calls[:k] + calls[k + 1:], "fails": [f for f in case["fails"] if f[0] < k]}
    if case["fails"]:
        yield {**case, "fails": []}
        for k in range(len(case["fails"])):
            yield {**case, "fails": case["fails"][:k] + case["fails"][k + 1:]}
    for key in ("vt", "ot", "ct"):
        if case[key] is not None:
            yield {**case, key: None}
    if case["filters"]:
        yield {**case, "filters": [], "ofil": None, "cfil": None}
    if case["est"] != "mean":
        yield {**case, "est": "mean"}
    if case["merge"]:
        yield {**case, "merge": False}
    if case["mode"] != "memo":
        yield {**case, "mode": "memo"}
    if case.get("mask") is not None:
        yield {**case, "mask": None}
    if case.get("info2"):
        yield {**case, "info2": False}
    if case.get("route", "direct") != "direct":
        yield {**case, "route": "direct"}
    for k, (kind, arg) in enumerate(calls):
        if kind == "F" and len(arg) > 1:
            yield {**case, "calls": calls[:k] + [["F", arg[:-1]]] + calls[k + 1:]}
    if case["P"] > 1:
        yield {**case, "P": case["P"] - 1}
    if case["R"] > 1 and case["R"] == len(case["weights"]) and any(case["weights"][:-1]):
        ok = True
        for f in case["filters"]:
            o = f["options"]
            if "last" in o and o["last"] >= case["R"] - 1:
                ok = False
        if ok:
            yield {**case, "R": case["R"] - 1, "weights": case["weights"][:-1]}


def search(rng, case):
    if case is None:
        for i in range(600):
            yield gen_one(rng, small=(i % 3 == 0), region=(None, "objfilter", "confilter", "twosplit")[i % 4])
        return
    yield from shrink(case)
    for i in range(300):
        c = gen_one(rng, small=(i % 2 == 0))
        for key in ("filters", "ofil", "cfil", "est", "merge", "vt", "ot", "ct", "mode"):
            if rng.random() < 0.6:
                c[key] = case[key]
        if c["filters"]:
            ok = all(("last" not in f["options"] or f["options"]["last"] < c["R"]) and
                     (isinstance(f["options"]["sort"], list) and max(f["options"]["sort"]) < c["nobj"]
                      or isinstance(f["options"]["sort"], int) and f["options"]["sort"] < c["ncon"])
                     for f in c["filters"])
            nf = len(c["filters"])
            if not ok or (c["ofil"] is not None and (len(c["ofil"]) != c["nobj"] or max(c["ofil"]) >= nf)) \
                    or (c["cfil"] is not None and (len(c["cfil"]) != c["ncon"] or max(c["cfil"]) >= nf)):
                c["filters"], c["ofil"], c["cfil"] = [], None, None
        else:
            c["ofil"], c["cfil"] = None, None
        if c["vt"] is not None and len(c["vt"]["scales"]) != c["V"]:
            c["vt"] = None
        if c["ot"] is not None and len(c["ot"]) != c["nobj"]:
            c["ot"] = None
        if c["ct"] is not None and len(c["ct"]) != c["ncon"]:
            c["ct"] = None
        if c["est"] == "stddev" and (c["merge"] or sum(1 for w in c["weights"] if w) < 2):
            c["est"] = "mean"
        yield c


RULE = ("structured random: ensemble R<=6, perturbations P<=5, batches B<=4, 1-3 variables (optionally masked), 1-2 objectives, "
        "0-2 constraints, integer realization weights with zeros and (without filters) negative entries, 0-2 realization filters "
        "(sort/cvar on objectives/constraints, applied to any subset, incl. the two 'only one kind filtered' regions), mean/stddev "
        "estimators, merged gradients, optional variable/objective/constraint scalers (powers of two), NaN failures, histories of "
        "1-4 requests (function batches, combined calls, gradient-only calls hitting or missing the function cache) issued either "
        "directly to EnsembleEvaluator.calculate, or through a real optimizer step of a Plan (scripted optimizer plug-in) or a real "
        "evaluator step, where the results are what a FINISHED_EVALUATION observer receives; evaluator modes memo / reuse / "
        "reuse-ro (read-only views of re-used buffers) / fresh, one or two evaluation_info keys; variable vectors passed as "
        "writable arrays or read-only views and overwritten by the caller after every call; every case is executed twice with "
        "different finite garbage in the entries the implementation flagged inactive and in every realization the aggregate flag "
        "skips (run A small, run B 2^40..2^100; a separate small stream uses 1e200 / finfo.max/2 = region of the known finding); "
        "thorough adds the exhaustive grid R,P,B<=3 x all weight-zero patterns x all evaluation kinds. Non-trivial = a request "
        "with >= 2 rows was answered and (some entry was flagged inactive or the history has >= 2 calls); distinct = distinct case.")
ASSUMPTIONS = [
    "the user evaluator is a function of (variable row, realization, function index) plus scripted NaN failures; garbage is finite and only placed in entries the implementation itself flagged inactive (per entry or through the aggregate flag)",
    "garbage magnitudes <= 2^100 in the main stream (products and squares stay finite); larger garbage overflows in ropt's arithmetic: known finding C06:huge-garbage-overflow, exercised by a separate stream",
    "perturbations come from an injected deterministic sampler plug-in; variable bounds are infinite (truncation is C10's subject)",
    "scaler transforms use power-of-two scales so that transformed values are exact and provenance can be compared exactly",
    "function estimates are tied to the model's small mean/variance definitions; gradients are tied only through the two-run comparison (the least-squares solve is a black box of C02)",
    "the evaluator does not write into the arrays it is handed while the call is in progress (it may afterwards: the monitor does)",
    "gradient requests never use a vector within 1e-15 of, but different from, the cached one (the model's cache test is exact equality)",
]
TRUSTED = [
    "the run-time monitor of the harness (result subclass recording __setattr__, buffer shadow copies, np.shares_memory against every array the evaluator returned or was handed and against the caller's vector, writability of every delivered array and of its base, digests of everything reachable from delivered results - arrays, dict key sets, scalars - re-taken after later calls, after the caller re-uses its vector and after the evaluator overwrites its buffers and edits its evaluation_info dicts) is what ties Model/Store.v to CPython object identity; (d) is therefore partial",
    "numpy semantics of repeat/tile/reshape/vsplit are modelled (np_repeat/np_tile/chunk) and compared on every case, not verified from numpy's source",
    "the scripted optimizer plug-in and the FINISHED_EVALUATION observer of the step routes are harness code; the steps, EnsembleOptimizer and the event delivery are the real ropt code",
]

MANIFEST = {
    "level_text": ("Machine-checked Coq proofs about the executable model of ropt's evaluator requests (Model/Layout.v, Model/Store.v): "
                   "for all R, P, B the label lists of the three request kinds are exactly the full product, each label once, unperturbed "
                   "rows labelled -1, and row i carries the (user-domain) vector of label i; every reported per-realization value is the "
                   "(transformed, NaN-propagated) value returned for the row with that label, also per batch; entries are flagged inactive "
                   "only at zero weight and, for split gradient evaluations, exactly at zero weight in force; the aggregate flag "
                   "EvaluatorContext.active skips a realization iff every objective and constraint entry of it is flagged inactive; outputs "
                   "that differ only at flagged entries give the same mean/variance estimates under the weights in force, and mean/stddev "
                   "gradient sums are invariant under arbitrary changes of zero-weight entries (non-interference); in the store model (three "
                   "owners: evaluator, caller, ropt) no operation of any history writes a location ropt does not own, every delivered array - "
                   "also of the user-domain copies handed to event handlers - is a fresh ropt-owned buffer that nobody writes after delivery, "
                   "although the evaluator overwrites its buffers and every matrix it was handed and the caller overwrites its vector. The "
                   "model is tied to the code on every run by an in-Coq correspondence on real histories (direct calls of "
                   "EnsembleEvaluator.calculate, real optimizer and evaluator steps) with a recording, memoising, monitored evaluator, each "
                   "run twice with different garbage."),
    "level_note": ("(d) no-mutation/snapshots is PARTIAL: the theorem is about the explicit store model; CPython aliasing is outside a pure "
                   "model and is tied only by the harness's run-time monitor (setattr recorder, buffer shadows, shares_memory, writability of "
                   "arrays and their bases, re-hashing of everything reachable from delivered results after later calls, after the caller "
                   "re-uses its vector and after buffer reuse), whose observed foreign writes are compared in Coq with the model's (empty) "
                   "list. Inertness of gradients is proved for an abstract least-squares solve and tied to the code by the two-run comparison "
                   "only; function estimates are tied to the model's mean/variance definitions (stddev via its square). The cache test of "
                   "the model is exact equality (the code uses allclose with atol 1e-15). Trusted: Coq kernel + VM, the Python "
                   "driver/monitor and Gallina printer, numpy layout primitives as modelled. Known finding C06:huge-garbage-overflow (garbage "
                   ">= 1e150 overflows to NaN) is confirmed by a separate stream. All theorems print 'Closed under the global context'."),
    "technique": "Coq proof (list/permutation induction, store-typing soundness) on an executable Gallina model + in-Coq differential correspondence with the real EnsembleEvaluator (direct and through plan steps) + run-time aliasing monitor",
    "design_ref": "DESIGN.md section 4, C06",
}
