"""C09 -- fixed (masked-out) variables never move and never receive a gradient.

Correspondence: a real Plan runs a real optimizer step whose optimizer is (a) a scripted plug-in registered through
PluginManager.add_plugin that issues arbitrary function / gradient / batch requests with free-vector arguments through
the OptimizerCallback, or (b) the real SciPy plug-in (slsqp, nelder-mead, differential_evolution serial and
vectorised) behind a recording wrapper; optionally with a nested plan whose inner optimization owns the complementary
variables, a VariableScaler (non-nested only), an explicit `variables=` start vector, a previous run of the same step
object, scripted or built-in samplers on disjoint variable sets.  Every row the
evaluator callable receives, every reported result (variables, perturbed variables, all gradient arrays), what the
optimizer was handed (initial vector, x0/bounds for SciPy, shapes of returned functions/gradients) and every nested
hand-over are recorded per optimizer run and compared inside Coq with Model/Mask.v (+ Model/Bounds.v for the perturbed
rows): full prediction where the samples are scripted, the property predicate (bit-identical fixed entries, exact zero
gradient entries, free-length vectors only) everywhere.
"""
from __future__ import annotations

import math
from fractions import Fraction as Fr

import coqio as cq

ID = "C09"
THEOREM_FILE = "Props/C09.v"
CHK_MODULE = "Check.Chk_C09"
CASE_TYPE = "Chk_C09.case"
CHECK_FN = "Chk_C09.check_case"
HEADER = "From Ropt Require Import Model.Bounds Model.Mask Gen.Generated."
SHARD_SIZE = 40
PARALLEL = True
CASE_TIMEOUT = 120
RULE = ("one case = one outer optimizer step on a real Plan (plus all inner optimizer runs of its nested plan). Masks: every "
        "mask with at least one free variable for V <= 4 in rotation (incl. no mask, all-free, single-free), sampled masks for "
        "V in 5..8; the mask is written as booleans, as 0/1 integers or as an integer / boolean ndarray. The step starts from the configured initial values or (40% of the runs without a scaler) from an explicit "
        "variables= vector inside the bounds that differs from them also on the fixed positions; in 22% the same step object "
        "has already run once on the same plan (in 60% of these with the SAME configuration dict object in another state -- "
        "complementary mask or other initial values -- that is changed back in place before the recorded run); in 60% of the scripted, non-nested explicit-start runs with a differing fixed "
        "entry ONE EnsembleOptimizer object is driven directly through two start() calls (configured initial values, then "
        "the explicit vector; the second run is the observation). Optimizer: scripted plug-in (1-6 requests: function, gradient, both, batches of "
        "1-3 rows, gradient-only requests at the point of an earlier function request or of the first/last row of an earlier "
        "batch, repeated; free values inside the bounds, without nesting also outside; in 40% it overwrites in place every array "
        "it was handed or passed) or the real SciPy plug-in (slsqp, nelder-mead, differential_evolution serial and vectorised, "
        "1-2 iterations). Samplers: 1-3 on disjoint variable sets with -1 entries, unused samplers and sets containing only "
        "fixed variables; scripted dyadic samples (from small steps to many bound widths) or "
        "norm/uniform/truncnorm/sobol/halton/lhs. Boundary types NONE/TRUNCATE/MIRROR per variable, finite/one-sided/infinite "
        "bounds, 0-2 non-linear constraints, 1-2 objectives, 1-3 realizations. Nested: inner plan with the complementary mask "
        "and its own scripted requests, delivering one of its results (or none), also between a function request and the "
        "gradient-only request at the same free point. VariableScaler with power-of-two scales (non-nested, no explicit "
        "variables=). Perturbation types per variable: RELATIVE on 30% of the variables with finite bounds; in 7% of the masked "
        "runs a FIXED variable is RELATIVE with an infinite bound (must be rejected at configuration time: outcome kind compared, "
        "counted as trivial). Non-trivial = the mask fixes at least one variable and at least one evaluation happened; distinct "
        "= distinct case hash.")
ASSUMPTIONS = [
    "initial values and explicit start vectors are inside the bounds, and so are the values a nested optimization delivers for the outer optimization's fixed variables (the scripted inner optimizer requests only points inside the bounds)",
    "nested plans and explicit variables= start vectors are run without variable transforms (with them the run hits known finding C11:explicit-step-variables); VariableScaler is exercised in non-nested runs without an explicit variables= argument, with power-of-two scales and dyadic offsets so that the user/optimizer round trip is exact",
    "samplers obey the contract of ropt.plugins.sampler.base (zeros outside their variable set); this is checked for the built-in SciPy samplers through the perturbed rows (every position no sampler owns) and for the scripted sampler by construction",
    "the nested plan's function returns a FunctionResults produced by the inner optimizer step of the same call (the harness does not reuse a tracker across inner runs)",
    "the evaluator returns finite values (no failed realizations; failures are C03/C14)",
]
TRUSTED = [
    "the recording layer of the harness (evaluator callable, FINISHED_EVALUATION observer, wrapper around the optimizer callback and around scipy.optimize.minimize/differential_evolution as imported by the plug-in)",
    "SciPy's algorithms and samplers are black boxes: the vectors they request and the samples they draw are observed inputs of the model",
    "gradient values on free variables are not checked here (C02); only their position, the exact zeros and the lengths are",
    "np.allclose(rtol=0, atol=1e-15) of the evaluator's function-value cache is modelled as |a-b| <= 10^-15 on the exact rational values of the recorded floats",
]

NONE, TRUNC, MIRROR = 1, 2, 3
ABSOLUTE, RELATIVE = 1, 2
INF = math.inf
BUILTIN_SAMPLERS = ["norm", "uniform", "truncnorm", "sobol", "halton", "lhs"]
SCIPY_METHODS = ["slsqp", "nelder-mead", "differential_evolution", "de-parallel"]


# ---------------------------------------------------------------------------------------------------
# generators
def _all_masks():
    out = [None]
    for V in range(1, 5):
        for bits in range(1, 2 ** V):
            out.append([bool(bits >> i & 1) for i in range(V)])
    return out


MASKS = _all_masks()


def _bounds(rng, finite=False):
    lbf = finite or rng.random() < 0.75
    ubf = finite or rng.random() < 0.75
    lb = rng.randint(-16, 8) / 4 if lbf else -INF
    ub = ((lb if lbf else rng.randint(-8, 16) / 4) + rng.choice([1, 2, 4, 8, 12]) / 4) if ubf else INF
    return lb, ub


def _inside(rng, lb, ub):
    if math.isfinite(lb) and math.isfinite(ub):
        return lb + rng.randint(0, 8) / 8 * (ub - lb)
    if math.isfinite(lb):
        return lb + rng.randint(0, 16) / 8
    if math.isfinite(ub):
        return ub - rng.randint(0, 16) / 8
    return rng.randint(-16, 16) / 8


def _free_row(rng, case_bounds, mask, outside_ok):
    row = []
    for (lb, ub), m in zip(case_bounds, mask):
        if not m:
            continue
        v = _inside(rng, lb, ub)
        if outside_ok and rng.random() < 0.15:
            v += rng.choice([-1, 1]) * rng.randint(1, 40) / 8
        row.append(v)
    return row


def _script(rng, bounds, mask, outside_ok, allow_batch, max_len=6, nested=False):
    reqs = []
    for _ in range(rng.randint(1, max_len)):
        kind = rng.choice(["f", "f", "g", "fg", "fg", "batch"] if allow_batch else ["f", "f", "g", "fg", "fg"])
        if kind == "batch":
            # with a nested plan only a one-row batch is accepted (more rows: RuntimeError, ends the run)
            nrows = (1 if rng.random() < 0.85 else 2) if nested else rng.randint(1, 3)
            rows = [_free_row(rng, bounds, mask, outside_ok) for _ in range(nrows)]
            reqs.append({"x": rows, "batch": True, "f": True, "g": False})
        else:
            reqs.append({"x": [_free_row(rng, bounds, mask, outside_ok)], "batch": False, "f": "f" in kind, "g": "g" in kind})
    if reqs and rng.random() < 0.45:     # gradient at the point of an earlier function request (cached functions)
        k = rng.randrange(len(reqs))
        if reqs[k]["f"] and not reqs[k]["g"]:
            # after a batch: the evaluator caches the FIRST row of the batch
            row = reqs[k]["x"][0] if rng.random() < 0.7 else reqs[k]["x"][-1]
            reqs.insert(k + 1, {"x": [row], "batch": False, "f": False, "g": True})
            if rng.random() < 0.3:       # ... and once more (the cache survives a cached gradient)
                reqs.insert(k + 2, {"x": [row], "batch": False, "f": False, "g": True})
    return reqs


def _samplers(rng, V, R, P, mask, scripted):
    ns = rng.choice([1, 1, 2, 3])
    if ns == 1 and rng.random() < 0.5:
        gs = None
    else:
        gs = [rng.choice(list(range(ns)) + [-1]) for _ in range(V)]
        if mask is not None and rng.random() < 0.3 and ns > 1 and not all(mask):
            # one sampler owns only fixed variables
            k = ns - 1
            gs = [k if not m else (g if g != k else 0) for g, m in zip(gs, mask)]
        if all(g < 0 for g in gs):
            gs[rng.randrange(V)] = rng.randrange(ns)
    confs = []
    for _ in range(ns):
        if scripted:
            s = [[[rng.randint(-16, 16) * rng.choice([1 / 64, 1 / 4, 1 / 4, 4]) for _ in range(V)] for _ in range(P)] for _ in range(R)]
            confs.append({"kind": "scripted", "script": s})
        else:
            confs.append({"kind": rng.choice(BUILTIN_SAMPLERS), "shared": rng.random() < 0.3})
    return gs, confs


def gen_one(rng, mask_hint=-1, force=None):
    force = force or {}
    if mask_hint >= 0:
        mask = MASKS[mask_hint % len(MASKS)]
        V = len(mask) if mask is not None else rng.randint(1, 4)
    else:
        V = rng.randint(5, 8)
        mask = [rng.random() < 0.5 for _ in range(V)]
        if not any(mask):
            mask[rng.randrange(V)] = True
    R = rng.randint(1, 3)
    P = rng.randint(1, 3)
    opt_kind = force.get("opt", rng.choice(["scripted"] * 7 + ["scipy"] * 3))
    method = rng.choice(SCIPY_METHODS) if opt_kind == "scipy" else None
    finite = method in ("differential_evolution", "de-parallel")
    bounds = [_bounds(rng, finite) for _ in range(V)]
    x0 = [_inside(rng, lb, ub) for lb, ub in bounds]
    bts = [rng.choice([NONE, TRUNC, MIRROR, MIRROR]) for _ in range(V)]
    mags = [rng.randint(1, 8) / 8 for _ in range(V)]
    # perturbation types: RELATIVE (magnitude = fraction of the bound range) only where both bounds are finite ...
    pts = [RELATIVE if (math.isfinite(lb) and math.isfinite(ub) and rng.random() < 0.3) else ABSOLUTE for lb, ub in bounds]
    # ... except in the "relative-on-fixed" region: a FIXED variable of RELATIVE type with an infinite bound.  The
    # configuration must be rejected at validation time (fix_perturbations); if it were accepted the fixed variable would get
    # an infinite magnitude and inf * 0 = NaN would replace its value in every perturbed vector
    rel_fixed = None
    if mask is not None and not all(mask) and force.get("rel_fixed", rng.random() < 0.07):
        k = rng.choice([i for i, m in enumerate(mask) if not m])
        lb, ub = bounds[k]
        if not finite:      # differential evolution needs finite bounds on every variable
            bounds[k] = (lb if math.isfinite(lb) else x0[k] - 1.0, INF) if rng.random() < 0.5 else (-INF, ub if math.isfinite(ub) else x0[k] + 1.0)
            pts[k] = RELATIVE
            rel_fixed = k
    eff_mask = mask if mask is not None else [True] * V
    can_nest = mask is not None and not all(mask) and opt_kind == "scripted"
    nested = force.get("nested", can_nest and rng.random() < 0.45)
    scaler = None
    if not nested and force.get("scaler", rng.random() < 0.25):
        scaler = {"scales": [rng.choice([0.25, 0.5, 2.0, 4.0]) for _ in range(V)],
                  "offsets": [rng.randint(-8, 8) / 4 for _ in range(V)]}
    scripted_samplers = force.get("scripted_samplers", rng.random() < 0.6)
    gs, sconfs = _samplers(rng, V, R, P, mask, scripted_samplers)
    nc = rng.choice([0, 0, 1, 2]) if opt_kind == "scripted" else 0
    nobj = rng.choice([1, 1, 2])
    # the step is started from an explicit `variables=` vector (inside the bounds) that differs from the configured
    # initial values, also on the fixed positions; never together with a VariableScaler (known finding
    # C11:explicit-step-variables)
    start = None
    if scaler is None and force.get("start", rng.random() < 0.4):
        start = [_inside(rng, lb, ub) for lb, ub in bounds]
    case = {"V": V, "R": R, "P": P, "x0": x0, "lbs": [b[0] for b in bounds], "ubs": [b[1] for b in bounds], "mask": mask,
            "bts": bts, "mags": mags, "pts": pts, "rel_fixed": rel_fixed, "gs": gs, "samplers": sconfs, "nc": nc, "nobj": nobj,
            "scaler": scaler, "seed": rng.randint(1, 10 ** 6), "nested": None, "start": start,
            # the same step object has already run once (from the configured initial values) on the same plan
            "warmup": force.get("warmup", rng.random() < 0.22),
            # the scripted optimizer overwrites, in place, the arrays it was handed (initial values, returned functions
            # and gradients) and the request arrays it passed, as an optimizer using them as work space does
            "scribble": rng.random() < 0.4,
            # how the mask is written in the configuration: booleans, 0/1 integers (as read from JSON/YAML), or an ndarray of
            # either kind -- all of them denote the same mask
            "mask_repr": rng.choice(["bool", "bool", "int", "int", "ndarray_int", "ndarray_bool"]),
            "direct": False, "warmup_mutate": rng.random() < 0.6}
    # "direct": ONE EnsembleOptimizer object (public class of ropt.optimization) is started twice: first from the
    # configured initial values (unrecorded), then from the explicit start vector, whose fixed entries differ -- every
    # vector and result of the second run must carry the second start vector's fixed entries
    if (opt_kind == "scripted" and not nested and scaler is None and start is not None and rel_fixed is None
            and mask is not None and any((not m) and a != b for m, a, b in zip(mask, start, x0))):
        case["direct"] = force.get("direct", rng.random() < 0.6)
        if case["direct"]:
            case["warmup"] = False
    if opt_kind == "scripted":
        case["opt"] = {"kind": "scripted",
                       "script": _script(rng, bounds, eff_mask, outside_ok=not nested, allow_batch=True,
                                         max_len=4 if nested else 6, nested=bool(nested))}
    else:
        case["opt"] = {"kind": "scipy", "method": method, "maxiter": rng.randint(1, 2)}
    if nested:
        imask = [not m for m in mask]
        igs, isconfs = _samplers(rng, V, R, P, imask, scripted_samplers)
        iscript = _script(rng, bounds, imask, outside_ok=False, allow_batch=False, max_len=3)
        deliver = [rng.choice([0, 1, 2, 3, 5]) for _ in case["opt"]["script"]]
        if rng.random() < 0.1:
            deliver[rng.randrange(len(deliver))] = -1      # the inner optimization yields no result
        case["nested"] = {"script": iscript, "deliver": deliver, "gs": igs, "samplers": isconfs}
    return case


def gen_cases(tier, rng):
    n_rot, n_big = (480, 70) if tier == "quick" else (5600, 700)
    for i in range(n_rot):
        yield gen_one(rng, mask_hint=i)
    for _ in range(n_big):
        yield gen_one(rng)


# ---------------------------------------------------------------------------------------------------
# driver: the real code
def _to_opt(case, vals):
    """user domain -> optimizer domain (exact for the generated power-of-two scales)."""
    sc = case["scaler"]
    if sc is None:
        return list(vals)
    return [(v - o) / s for v, s, o in zip(vals, sc["scales"], sc["offsets"])]


def _mask_as(mask, how):
    import numpy as np
    if how == "int":
        return [int(m) for m in mask]
    if how == "ndarray_int":
        return np.array([int(m) for m in mask], dtype=np.int64)
    if how == "ndarray_bool":
        return np.array(mask, dtype=np.bool_)
    return [bool(m) for m in mask]


def _config_dict(case, mask, script, tag, gs, sconfs):
    V = case["V"]
    opt = case["opt"]
    if tag == "inner" or opt["kind"] == "scripted":
        optimizer = {"method": "verif/scripted", "options": {"tag": tag, "script": script, "scribble": bool(case.get("scribble"))}}
    else:
        m = opt["method"]
        optimizer = {"method": "verifscipy/" + ("differential_evolution" if m == "de-parallel" else m),
                     "max_iterations": opt["maxiter"], "options": {"tag": tag}}
        if m in ("differential_evolution", "de-parallel"):
            optimizer["options"].update({"popsize": 2, "seed": case["seed"]})
            optimizer["parallel"] = m == "de-parallel"
    d = {
        "variables": {"initial_values": case["x0"], "lower_bounds": case["lbs"], "upper_bounds": case["ubs"]},
        "objectives": {"weights": [1.0] if case["nobj"] == 1 else [0.75, 0.25]},
        "realizations": {"weights": [1.0] * case["R"]},
        "gradient": {"number_of_perturbations": case["P"], "perturbation_magnitudes": case["mags"],
                     "perturbation_types": case.get("pts", [ABSOLUTE] * V),
                     "boundary_types": case["bts"], "seed": case["seed"]},
        "optimizer": optimizer,
        "samplers": [({"method": "verif/scripted", "options": {"script": s["script"]}} if s["kind"] == "scripted"
                      else {"method": s["kind"], "shared": s["shared"]}) for s in sconfs],
    }
    if mask is not None:
        d["variables"]["mask"] = _mask_as(mask, case.get("mask_repr", "bool"))
    if gs is not None:
        d["gradient"]["samplers"] = gs
    if case["nc"]:
        d["nonlinear_constraints"] = {"lower_bounds": [-100.0] * case["nc"], "upper_bounds": [100.0] * case["nc"]}
    return d


def run_impl(case):  # noqa: C901, PLR0915
    import warnings
    from unittest import mock

    import numpy as np
    import ropt.plugins.optimizer.scipy as rscipy
    from ropt.enums import EventType
    from ropt.evaluator import EvaluatorResult
    from ropt.plan import OptimizerContext, Plan
    from ropt.plugins import PluginManager
    from ropt.plugins.optimizer.base import Optimizer, OptimizerPlugin
    from ropt.plugins.sampler.base import Sampler, SamplerPlugin
    from ropt.results import FunctionResults, GradientResults
    from ropt.transforms import OptModelTransforms
    from ropt.transforms.variable_scaler import VariableScaler

    runs = []          # per optimizer run
    stack = []         # ids of the runs whose callback is executing

    def fl(a):
        return [float(v) for v in np.asarray(a, dtype=np.float64).ravel()]

    def rows(a):
        a = np.asarray(a, dtype=np.float64)
        return [fl(r) for r in a.reshape(-1, a.shape[-1])]

    def new_run(config, tag):
        v = config.variables
        runs.append({"tag": tag, "mask": None if v.mask is None else [bool(b) for b in v.mask],
                     "lbs": fl(v.lower_bounds), "ubs": fl(v.upper_bounds),
                     "bts": [int(t) for t in config.gradient.boundary_types],
                     "mags": fl(config.gradient.perturbation_magnitudes),
                     "gs": None if config.gradient.samplers is None else [int(g) for g in config.gradient.samplers],
                     "seen_start": None, "x0": None, "nbounds": None, "cbs": [], "exc": None})
        return len(runs) - 1

    def wrap_callback(rid, cb):
        def wrapped(variables, *, return_functions, return_gradients):
            variables = np.asarray(variables, dtype=np.float64)
            rec = {"x": rows(variables), "batch": variables.ndim > 1, "f": bool(return_functions), "g": bool(return_gradients),
                   "nested_in": None, "nested_out": None, "inner": None, "evals": [], "res": [], "out": None,
                   "ret_f": None, "ret_g": None}
            runs[rid]["cbs"].append(rec)
            stack.append(rid)
            try:
                f, g = cb(variables, return_functions=return_functions, return_gradients=return_gradients)
                rec["out"] = "ok"
                rec["ret_f"] = list(np.shape(f))
                rec["ret_g"] = list(np.shape(g))
                return f, g
            except BaseException as e:
                rec["out"] = type(e).__name__ + (":" + str(getattr(e, "exit_code", "")) if hasattr(e, "exit_code") else "")
                raise
            finally:
                stack.pop()
        return wrapped

    def _scribble(a):
        """overwrite an array the optimizer owns (or was handed) in place; read-only arrays are left alone"""
        try:
            if isinstance(a, np.ndarray) and a.size and a.flags.writeable:
                a[...] = 1000.0 + np.arange(a.size, dtype=np.float64).reshape(a.shape)
        except ValueError:
            pass

    class ScriptedOptimizer(Optimizer):
        def __init__(self, config, cb):
            self._rid = new_run(config, config.optimizer.options["tag"])
            self._script = config.optimizer.options["script"]
            self._scribble = bool(config.optimizer.options.get("scribble"))
            self._cb = wrap_callback(self._rid, cb)

        def start(self, initial_values):
            # a second start() of the same optimizer object: only the latest run is the observation
            runs[self._rid]["cbs"] = []
            runs[self._rid]["seen_start"] = fl(initial_values)
            scribble = self._scribble
            if scribble:
                _scribble(initial_values)
            for req in self._script:
                x = np.array(req["x"] if req["batch"] else req["x"][0], dtype=np.float64)
                f, g = self._cb(x, return_functions=req["f"], return_gradients=req["g"])
                if scribble:
                    _scribble(x), _scribble(f), _scribble(g)

        @property
        def allow_nan(self):
            return False

        @property
        def is_parallel(self):
            return False

    class ScriptedOptimizerPlugin(OptimizerPlugin):
        def create(self, config, cb):
            return ScriptedOptimizer(config, cb)

        def is_supported(self, method):
            return method.lower() == "scripted"

    class RecordingSciPy(rscipy.SciPyOptimizer):
        def __init__(self, config, cb):
            self._rid = new_run(config, config.optimizer.options["tag"])
            super().__init__(config, wrap_callback(self._rid, cb))
            self._options.pop("tag", None)

        def start(self, initial_values):
            runs[self._rid]["seen_start"] = fl(initial_values)
            rid = self._rid

            def rec_min(*a, **k):
                runs[rid]["x0"] = fl(k["x0"])
                b = k.get("bounds")
                runs[rid]["nbounds"] = None if b is None else [len(np.atleast_1d(b.lb)), len(np.atleast_1d(b.ub))]
                return real_min(*a, **k)

            def rec_de(*a, **k):
                runs[rid]["x0"] = fl(k["x0"])
                b = k.get("bounds")
                runs[rid]["nbounds"] = None if b is None else [len(np.atleast_1d(b.lb)), len(np.atleast_1d(b.ub))]
                return real_de(*a, **k)

            real_min, real_de = rscipy.minimize, rscipy.differential_evolution
            with mock.patch.object(rscipy, "minimize", rec_min), mock.patch.object(rscipy, "differential_evolution", rec_de):
                super().start(initial_values)

    class RecordingSciPyPlugin(OptimizerPlugin):
        def create(self, config, cb):
            return RecordingSciPy(config, cb)

        def is_supported(self, method):
            return method.lower() in ("slsqp", "nelder-mead", "differential_evolution")

    class ScriptedSampler(Sampler):
        def __init__(self, cfg, idx, mask, rng):
            self._mask = mask
            self._script = np.array(cfg.samplers[idx].options["script"], dtype=np.float64)

        def generate_samples(self):
            s = self._script.copy()
            if self._mask is not None:
                s = np.where(self._mask, s, 0.0)
            return s

    class ScriptedSamplerPlugin(SamplerPlugin):
        def create(self, cfg, idx, mask, rng):
            return ScriptedSampler(cfg, idx, mask, rng)

        def is_supported(self, method):
            return method.lower() == "scripted"

    V = case["V"]
    targets = np.linspace(-0.5, 0.75, V)

    def evaluator(variables, ctx):
        if stack:
            runs[stack[-1]]["cbs"][-1]["evals"].append(rows(variables))
        real = np.asarray(ctx.realizations, dtype=np.float64)
        base = ((variables - targets) ** 2).sum(axis=1) + 0.125 * real
        nobj = ctx.config.objectives.weights.size
        obj = np.stack([base * (j + 1) + j for j in range(nobj)], axis=1)
        con = None
        if ctx.config.nonlinear_constraints is not None:
            nc = ctx.config.nonlinear_constraints.lower_bounds.size
            con = np.stack([variables.sum(axis=1) * (j + 1) - j for j in range(nc)], axis=1)
        return EvaluatorResult(objectives=obj, constraints=con)

    def observer(event):
        if not stack:
            return
        rec = runs[stack[-1]]["cbs"][-1]
        user = event.data["results"]
        optd = event.data.get("transformed_results", user)
        for ru, ro in zip(user, optd):
            if isinstance(ro, FunctionResults):
                rec["res"].append({"kind": "F", "vars": fl(ro.evaluations.variables), "uvars": fl(ru.evaluations.variables)})
            elif isinstance(ro, GradientResults):
                def grows(g):
                    if g is None:
                        return []
                    return [fl(g.weighted_objective)] + rows(g.objectives) + ([] if g.constraints is None else rows(g.constraints))
                rec["res"].append({"kind": "G", "vars": fl(ro.evaluations.variables), "uvars": fl(ru.evaluations.variables),
                                   "pert": rows(ro.evaluations.perturbed_variables),
                                   "upert": rows(ru.evaluations.perturbed_variables),
                                   "grads": grows(ro.gradients), "ugrads": grows(ru.gradients)})

    pm = PluginManager()
    pm.add_plugin("optimizer", "verif", ScriptedOptimizerPlugin())
    pm.add_plugin("optimizer", "verifscipy", RecordingSciPyPlugin())
    pm.add_plugin("sampler", "verif", ScriptedSamplerPlugin())
    ctx = OptimizerContext(evaluator=evaluator, plugin_manager=pm).add_observer(EventType.FINISHED_EVALUATION, observer)

    transforms = None
    if case["scaler"] is not None:
        transforms = OptModelTransforms(variables=VariableScaler(np.array(case["scaler"]["scales"]),
                                                                 np.array(case["scaler"]["offsets"])))
    outer_cfg = _config_dict(case, case["mask"], case["opt"].get("script"), "outer", case["gs"], case["samplers"])
    inner_plan = None
    if case["nested"] is not None:
        nst = case["nested"]
        inner_cfg = _config_dict(case, [not m for m in case["mask"]], nst["script"], "inner", nst["gs"], nst["samplers"])
        inner_plan = Plan(ctx)
        inner_step = inner_plan.add_step("optimizer")

        def inner_fn(plan, variables):
            outer_rec = runs[stack[-1]]["cbs"][-1]
            outer_rec["nested_in"] = fl(variables)
            k = len(runs[stack[-1]]["cbs"]) - 1
            first = len(runs)
            plan.run_step(inner_step, config=inner_cfg, variables=variables)
            outer_rec["inner"] = first if len(runs) > first else None
            pick = nst["deliver"][k] if k < len(nst["deliver"]) else 0
            produced = [r for i in range(first, len(runs)) for cb in runs[i]["cbs"] for r in cb["res"] if r["kind"] == "F"]
            if pick < 0 or not produced:
                outer_rec["nested_out"] = "none"
                return None
            chosen = produced[pick % len(produced)]
            outer_rec["nested_out"] = chosen["vars"]
            return chosen["_obj"]

        # keep the real result objects next to their recorded form
        def observer_keep(event):
            if not stack:
                return
            rec = runs[stack[-1]]["cbs"][-1]
            objs = [r for r in event.data["results"]]
            for d, o in zip(rec["res"][-len(objs):], objs):
                d["_obj"] = o
        ctx.add_observer(EventType.FINISHED_EVALUATION, observer_keep)
        inner_plan.add_function(inner_fn)

    outer = Plan(ctx)
    step = outer.add_step("optimizer")
    exc = None
    exit_code = None
    if case.get("direct"):
        import types

        from ropt.config.enopt import EnOptConfig
        from ropt.ensemble_evaluator import EnsembleEvaluator
        from ropt.optimization import EnsembleOptimizer

        def signal(results=None):
            if results is not None:
                observer(types.SimpleNamespace(data={"results": results}))

        with warnings.catch_warnings():
            warnings.simplefilter("ignore")
            try:
                cfg = EnOptConfig.model_validate(outer_cfg)
                eo = EnsembleOptimizer(cfg, EnsembleEvaluator(cfg, None, evaluator, pm), pm, signal_evaluation=signal)
                eo.start(np.array(cfg.variables.initial_values, dtype=np.float64))
                exit_code = eo.start(np.array(case["start"], dtype=np.float64))
            except Exception as e:  # noqa: BLE001 - the exception class is the observation
                exc = type(e).__name__
        return {"runs": runs, "exit": None if exit_code is None else int(exit_code), "exc": exc}
    with warnings.catch_warnings():
        warnings.simplefilter("ignore")
        try:
            kw = {"config": outer_cfg}
            if transforms is not None:
                kw["transforms"] = transforms
            if inner_plan is not None:
                kw["nested_optimization"] = inner_plan
            if case.get("warmup"):
                # the same step object runs once from the configured initial values; nothing of it is recorded.  In the
                # "mutate" variant that first run sees the SAME dict object in another state (complementary mask, or other
                # initial values); the dict is then changed back in place, as in alternating optimization over subsets
                saved = None
                if case.get("warmup_mutate"):
                    v = outer_cfg["variables"]
                    saved = (v.get("mask"), v["initial_values"])
                    if case["mask"] is not None and any(case["mask"]) and not all(case["mask"]):
                        v["mask"] = _mask_as([not m for m in case["mask"]], case.get("mask_repr", "bool"))
                    else:
                        v["initial_values"] = [lb if math.isfinite(lb) else ub if math.isfinite(ub) else x + 1.0
                                               for x, lb, ub in zip(case["x0"], case["lbs"], case["ubs"])]
                try:
                    outer.run_step(step, **kw)
                except Exception:  # noqa: BLE001 - only the second run is the observation
                    pass
                if saved is not None:
                    v = outer_cfg["variables"]
                    v["initial_values"] = saved[1]
                    if saved[0] is None:
                        v.pop("mask", None)
                    else:
                        v["mask"] = saved[0]
                del runs[:], stack[:]
            if case.get("start") is not None:
                kw["variables"] = np.array(case["start"], dtype=np.float64)
            exit_code = outer.run_step(step, **kw)
        except Exception as e:  # noqa: BLE001 - the exception class is the observation
            exc = type(e).__name__
    for r in runs:
        for cb in r["cbs"]:
            for d in cb["res"]:
                d.pop("_obj", None)
    return {"runs": runs, "exit": None if exit_code is None else int(exit_code), "exc": exc}


# ---------------------------------------------------------------------------------------------------
# Gallina printer
def _spawner(runs, k):
    """the outer callback that started inner run k"""
    for cb in runs[0]["cbs"]:
        if cb["inner"] == k:
            return cb
    return None


def _out_code(out):
    if out == "ok":
        return 0
    if out is None:
        return 9
    if out.startswith("OptimizationAborted"):
        return 2 if out.endswith(":4") else 1
    if out == "TypeError":          # DefaultOptimizerStep turns "no result" into a TypeError (reported to C14)
        return 1
    if out == "RuntimeError":
        return 3
    return 9


def _finite_abs(vals):
    return [abs(v) for v in vals if isinstance(v, (int, float)) and math.isfinite(v)]


def _rows(rs):
    return cq.lst(cq.qs(r) for r in rs)


def _arr3(a):
    return cq.lst(cq.lst(cq.qs(row) for row in mat) for mat in a)


def _run_term(case, obs, k):
    runs = obs["runs"]
    run = runs[k]
    V = case["V"]
    outer = k == 0
    sconfs = case["samplers"] if outer else case["nested"]["samplers"]
    scripted_s = all(s["kind"] == "scripted" for s in sconfs)
    scripted_o = (not outer) or case["opt"]["kind"] == "scripted"
    exact = scripted_s and scripted_o
    if outer:
        start = _to_opt(case, case["x0"]) if case.get("start") is None else list(case["start"])
        sc = case["scaler"] or {"scales": [1.0] * V, "offsets": [0.0] * V}
    else:
        start = _spawner(runs, k)["nested_in"]
        sc = {"scales": [1.0] * V, "offsets": [0.0] * V}
    mags = [1.0] + _finite_abs(start + run["lbs"] + run["ubs"])
    cbs = []
    for i, cb in enumerate(run["cbs"]):
        nested = "None"
        if outer and case["nested"] is not None:
            no = cb["nested_out"]
            nested = f"(Some (NDeliver {cq.qs(no)}))" if isinstance(no, list) else "(Some NNone)"
        evals = [r for call in cb["evals"] for r in call]
        for r in evals:
            mags += _finite_abs(r)
        res = []
        for d in cb["res"]:
            if d["kind"] == "F":
                res.append(f"(Build_resrec false {cq.qs(d['vars'])} [] [] {cq.qs(d['uvars'])} [] [])")
            else:
                res.append("(Build_resrec true {} {} {} {} {} {})".format(
                    cq.qs(d["vars"]), _rows(d["pert"]), _rows(d["grads"]), cq.qs(d["uvars"]), _rows(d["upert"]),
                    _rows(d.get("ugrads", d["grads"]))))
        cbs.append("(Build_cbrec {} {} {} {} {} {} {} {} {} {} {} {})".format(
            _rows(cb["x"]), cq.b(cb["batch"]), cq.b(cb["f"]), cq.b(cb["g"]), nested,
            cq.opt(cb["nested_in"], cq.qs), cq.opt(cb["inner"], cq.nat), _rows(evals), cq.lst(res),
            cq.z(_out_code(cb["out"])), cq.nats(cb["ret_f"] or []), cq.nats(cb["ret_g"] or [])))
    scripts = f"(Some {cq.lst(_arr3(s['script']) for s in sconfs)})" if scripted_s else "None"
    nb = "None" if run["nbounds"] is None else f"(Some ({cq.nat(run['nbounds'][0])}, {cq.nat(run['nbounds'][1])}))"
    return ("(Build_runrec {} {} {} {} {} {} {} {} {} {} {} {} {} {} {} {} {} {})".format(
        cq.b(exact), cq.q(max(mags)), cq.opt(run["mask"], cq.bs), cq.qs(start), cq.nat(case["R"]),
        cq.ers(run["lbs"]), cq.ers(run["ubs"]), cq.zs(run["bts"]), cq.qs(run["mags"]), cq.opt(run["gs"], cq.zs),
        scripts, cq.qs(sc["scales"]), cq.qs(sc["offsets"]), cq.nat(1 + case["nc"]),
        cq.qs(run["seen_start"] or []), cq.opt(run["x0"], cq.qs), nb, cq.lst(cbs)))


_SENTINEL = {"nan": 2.0 ** 90, "inf": 2.0 ** 89, "-inf": -(2.0 ** 89)}


def _finite_obs(o):
    """observations may contain NaN / inf on a broken tree; Q has neither: print a huge sentinel (the comparison then
    fails inside Coq and the oracle names the clause)"""
    if isinstance(o, float) and not math.isfinite(o):
        return _SENTINEL["nan" if math.isnan(o) else "inf" if o > 0 else "-inf"]
    if isinstance(o, list):
        return [_finite_obs(v) for v in o]
    if isinstance(o, dict):
        return {k: (v if k in ("lbs", "ubs") else _finite_obs(v)) for k, v in o.items()}
    return o


def _rejected(obs):
    return not obs["runs"] and obs.get("exc") in ("ValidationError", "ValueError")


def coq_case(case, obs):
    V = case["V"]
    obs = {**obs, "runs": [_finite_obs(r) for r in obs["runs"]]}
    return "(Build_case {} {} {} {} {} {})".format(
        cq.zs(case.get("pts", [ABSOLUTE] * V)), cq.ers(case["lbs"]), cq.ers(case["ubs"]), cq.qs(case["mags"]),
        cq.b(_rejected(obs)), cq.lst(_run_term(case, obs, k) for k in range(len(obs["runs"]))))


# ---------------------------------------------------------------------------------------------------
# oracle: the property text evaluated on the recorded run (no model)
def _must_reject(case):
    """a RELATIVE variable (free or fixed) with an infinite bound: there is no bound range to take a fraction of"""
    return any(p == RELATIVE and not (math.isfinite(lb) and math.isfinite(ub))
               for p, lb, ub in zip(case.get("pts", []), case["lbs"], case["ubs"]))


def oracle(case, obs):  # noqa: C901, PLR0912
    runs = obs["runs"]
    if _must_reject(case) and _rejected(obs):
        return None      # rejected at configuration time, nothing ran: the property holds vacuously
    # (if such a configuration is accepted the run is judged like any other: the fixed variable must keep its value)
    if not runs:
        return {"clause": "no-optimizer-run", "detail": obs.get("exc")}
    V = case["V"]
    for k, run in enumerate(runs):
        mask = run["mask"]
        fixed = [i for i in range(V) if mask is not None and not mask[i]]
        nfree = V - len(fixed)
        if k == 0 and case.get("start") is not None:
            cur_user = cur_opt = list(case["start"])
        elif k == 0:
            cur_user, cur_opt = list(case["x0"]), _to_opt(case, case["x0"])
        else:
            sp = _spawner(runs, k)
            if sp is None:
                return {"clause": "inner-run-without-outer-request", "detail": k}
            cur_user = cur_opt = list(sp["nested_in"])
        where = {"run": k, "tag": run["tag"], "mask": mask}

        def moved(vec, ref):
            return [i for i in fixed if not (vec[i] == ref[i])]      # NaN counts as moved

        if run["seen_start"] is not None and (len(run["seen_start"]) != V or run["seen_start"] != cur_opt):
            return {"clause": "optimizer-started-from-another-vector", "detail": {**where, "got": run["seen_start"], "want": cur_opt}}
        if run["x0"] is not None and len(run["x0"]) != nfree:
            return {"clause": "algorithm-sees-only-free-variables", "detail": {**where, "x0": run["x0"]}}
        if run["x0"] is not None and run["x0"] != [v for v, i in zip(cur_opt, range(V)) if i not in fixed]:
            return {"clause": "algorithm-sees-only-free-variables", "detail": {**where, "x0": run["x0"], "start": cur_opt}}
        if run["nbounds"] is not None and run["nbounds"] != [nfree, nfree]:
            return {"clause": "algorithm-sees-only-free-variables", "detail": {**where, "bounds": run["nbounds"]}}
        for j, cb in enumerate(run["cbs"]):
            w = {**where, "callback": j}
            if cb["nested_in"] is not None:
                if len(cb["nested_in"]) != V or moved(cb["nested_in"], cur_opt):
                    return {"clause": "nested-start-keeps-last-delivered", "detail": {**w, "got": cb["nested_in"], "want": cur_opt}}
            if isinstance(cb["nested_out"], list):
                cur_user = cur_opt = list(cb["nested_out"])
            for call in cb["evals"]:
                for row in call:
                    if len(row) != V or moved(row, cur_user):
                        return {"clause": "fixed-variable-moved-in-evaluator-request", "detail": {**w, "row": row, "want": cur_user}}
            for d in cb["res"]:
                if moved(d["vars"], cur_opt) or moved(d["uvars"], cur_user):
                    return {"clause": "fixed-variable-moved-in-result", "detail": {**w, "vars": d["uvars"], "want": cur_user}}
                if d["kind"] == "G":
                    for p, up in zip(d["pert"], d["upert"]):
                        if moved(p, cur_opt) or moved(up, cur_user):
                            return {"clause": "fixed-variable-perturbed", "detail": {**w, "perturbed": up, "want": cur_user}}
                    for g in d["grads"] + d.get("ugrads", []):
                        if len(g) != V or any(g[i] != 0.0 for i in fixed):
                            return {"clause": "gradient-nonzero-on-fixed-variable", "detail": {**w, "gradient": g}}
            if cb["out"] == "ok":
                if cb["g"] and (len(cb["ret_g"]) != 2 or cb["ret_g"][1] != nfree):
                    return {"clause": "algorithm-sees-only-free-variables", "detail": {**w, "gradient_shape": cb["ret_g"]}}
                if any(len(r) != nfree for r in cb["x"]):
                    return {"clause": "algorithm-sees-only-free-variables", "detail": {**w, "request": cb["x"]}}
    return None


# ---------------------------------------------------------------------------------------------------
def nontrivial(case, obs):
    if _rejected(obs):
        return False
    return case["mask"] is not None and not all(case["mask"]) and any(cb["evals"] for r in obs["runs"] for cb in r["cbs"])


def features(case, obs):
    mask = case["mask"]
    kind = "none" if mask is None else "all-free" if all(mask) else "single-free" if sum(mask) == 1 else "mixed"
    o = case["opt"]
    ncb = sum(len(r["cbs"]) for r in obs["runs"])
    return {"V": case["V"], "mask": kind, "optimizer": o["kind"] if o["kind"] == "scripted" else o["method"],
            "nested": case["nested"] is not None, "scaler": case["scaler"] is not None,
            "start": "explicit" if case.get("start") is not None else "configured", "warmup": bool(case.get("warmup")),
            "mask_written_as": case.get("mask_repr", "bool") if mask is not None else "-",
            "one_optimizer_object_started_twice": bool(case.get("direct")),
            "same_dict_mutated_between_runs": bool(case.get("warmup")) and bool(case.get("warmup_mutate")),
            "relative": RELATIVE in case.get("pts", []), "relative_on_fixed_infinite": case.get("rel_fixed") is not None,
            "rejected": _rejected(obs),
            "scribble": bool(case.get("scribble")) and o["kind"] == "scripted",
            "explicit_start_batch": case.get("start") is not None and (
                o.get("method") == "de-parallel" or any(r["batch"] for r in o.get("script", []))),
            "cached_gradient": any((not r["f"]) and r["g"] and i > 0 and o["script"][i - 1]["f"] and not o["script"][i - 1]["g"]
                                   for i, r in enumerate(o.get("script", []))),
            "samplers": len(case["samplers"]), "sampler_kind": "scripted" if case["samplers"][0]["kind"] == "scripted" else "builtin",
            "gs": case["gs"] is not None, "nc": case["nc"], "runs": min(len(obs["runs"]), 5), "callbacks": min(ncb // 4 * 4, 40),
            "exc": obs["exc"], "exit": obs["exit"]}


def known_signature(case, obs, violation):
    return None


def shrink(case):
    o = case["opt"]
    if o["kind"] == "scripted" and len(o["script"]) > 1:
        for k in range(len(o["script"])):
            c = {**case, "opt": {**o, "script": o["script"][:k] + o["script"][k + 1:]}}
            if case["nested"] is not None:
                d = case["nested"]["deliver"]
                c["nested"] = {**case["nested"], "deliver": d[:k] + d[k + 1:]}
            yield c
    if case["nested"] is not None and len(case["nested"]["script"]) > 1:
        s = case["nested"]["script"]
        for k in range(len(s)):
            yield {**case, "nested": {**case["nested"], "script": s[:k] + s[k + 1:]}}
    if case["scaler"] is not None:
        yield {**case, "scaler": None}
    if case.get("warmup"):
        yield {**case, "warmup": False}
    if case.get("scribble"):
        yield {**case, "scribble": False}
    if case["nc"]:
        yield {**case, "nc": 0}
    if case["nobj"] > 1:
        yield {**case, "nobj": 1}


def search(rng, case):
    for i in range(400):
        yield gen_one(rng, mask_hint=i)


MANIFEST = {
    "level_text": ("Machine-checked Coq proof, for every mask, vector length, request sequence (vector and batch requests) and every "
                   "interleaving of nested deliveries, that the executable model of EnsembleOptimizer's callback "
                   "(_get_completed_variables + the _fixed_variables state), of sampler masks, of what _perturb_variables builds from "
                   "several samplers, of the evaluator's function-value cache and of _expand_gradients keeps every vector sent on for "
                   "evaluation equal, on masked positions, to the starting vector or the last nested delivery; that perturbed vectors "
                   "equal the current vector on every position no sampler owns (every masked-out position and every free position "
                   "with a negative sampler index; the samplers' variable sets are pairwise disjoint and inside the mask) when the "
                   "current vector is inside the bounds; that cached function values are used for a gradient only when the cached "
                   "full vector -- fixed positions included -- coincides with the requested one; that expanded gradients are literal "
                   "zeros on masked positions and the optimizer gets back exactly the free entries. The model is tied to the code on "
                   "every run by an in-Coq comparison with recorded real Plan/optimizer-step runs (scripted optimizer plug-in that "
                   "may scribble over every array it sees, SciPy slsqp / nelder-mead / differential_evolution, explicit start "
                   "vectors, re-used step objects, nested plans, several samplers, VariableScaler): every evaluator row (their "
                   "number predicted by the cache model), every reported result in both domains, every gradient array in both "
                   "domains, every nested hand-over."),
    "level_note": ("Black boxes (observed inputs of the model, not verified): the vectors a SciPy algorithm requests, the samples of the "
                   "built-in samplers, the gradient values on free variables (C02), what the inner optimization delivers. Nested runs "
                   "and explicit start vectors use no variable transform (known finding C11:explicit-step-variables is reported by "
                   "C11); VariableScaler runs use power-of-two scales so that 'unchanged' can be compared bit-exactly. The premise "
                   "'inside the bounds' is needed: _apply_bounds clips fixed variables too. A gradient computed from stale cached "
                   "function values at the right vector is not a violation of the property text; the check reports it as a "
                   "model disagreement (no-failing-input-found). Not exercised: linear constraints with a mask (C08), objective / "
                   "constraint transforms (none is built in). Trusted: Coq kernel + VM, the recording harness, the literal printer. "
                   "All theorems print 'Closed under the global context'."),
    "technique": "Coq proof (induction over masks and request sequences on an executable Gallina state machine) + in-Coq differential correspondence with recorded Plan/optimizer-step runs using injected optimizer and sampler plug-ins",
    "design_ref": "DESIGN.md section 4, C09",
}
