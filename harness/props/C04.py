"""C04 -- CVaR filter weights realize the tail expectation over the worst fraction.

Correspondence (all compared inside Coq with Model/Filters.v through Check/Chk_C04.v):
  helper : ropt.plugins.realization_filter.default._get_cvar_weights_from_percentile on (ranking values,
           failure mask) for a list of percentiles;
  filt   : DefaultRealizationFilter(config, 0).get_realization_weights with cvar-objective (one or several
           objectives) and cvar-constraint (every bound kind), incl. all-failed, invalid percentiles, percentiles with
           p*n within 2 ulp of an integer, and the same filter object called before/after on other values;
  e2e    : EnsembleEvaluator(...).calculate (functions only) with 1-3 filters mapped onto 1-3 objectives and 0-3
           constraints: weight rows reported in the results and the function values (tail mean);
  seq    : request sequences on ONE EnsembleEvaluator (function-only, gradient-only re-using the cached function
           result, function+gradient, over 1-3 points, continuing after aborts), or issued by a scripted optimizer
           inside an optimizer step, or a single evaluator step: weight matrices of function AND gradient results,
           function values, gradients (affine table evaluator: exact slopes), delivered results and exit codes.

This module also hosts the drivers / Gallina printers / oracles shared with C05 (props/C05.py imports them).
"""
from __future__ import annotations

import itertools
import math
from fractions import Fraction

import coqio as cq

ID = "C04"
THEOREM_FILE = "Props/C04.v"
CHK_MODULE = "Check.Chk_C04"
CASE_TYPE = "Chk_C04.case"
CHECK_FN = "Chk_C04.check_case"
HEADER = "From Ropt Require Import Model.Filters."
SHARD_SIZE = 150
PARALLEL = True
EXHAUSTIVE = {"quick": True, "thorough": True}

TOL_ABS = Fraction(1, 10 ** 12)
TOL_REL = Fraction(1, 10 ** 9)


# =====================================================================================
# shared: running the real code
# =====================================================================================
def _np(a):
    import numpy as np
    return np.array(a, dtype=np.float64)


def _fl(a):
    """numpy array -> nested lists of python floats (NaN/inf kept)."""
    return a.tolist()


def method_config(m):
    # "alias": the same method written in upper case / with the plug-in prefix (both are documented spellings)
    name = {"upper": m["name"].upper(), "prefixed": "default/" + m["name"]}.get(m.get("alias"), m["name"])
    if m["name"] in ("sort-objective", "sort-constraint"):
        return {"method": name, "options": {"sort": m["sort"], "first": m["first"], "last": m["last"]}}
    return {"method": name, "options": {"sort": m["sort"], "percentile": m["p"]}}


def build_config(case, filters):
    """EnOptConfig of a filt/e2e case; returns (config, inputs-in-force dict)."""
    import numpy as np
    from ropt.config.enopt import EnOptConfig
    cfg = {"variables": {"initial_values": [0.0]},
           "realizations": {"weights": case["rw"]},
           "objectives": {"weights": case["ow"]},
           "realization_filters": [method_config(m) for m in filters]}
    if case.get("rmin") is not None:
        cfg["realizations"]["realization_min_success"] = case["rmin"]
    if case.get("ofm") is not None:
        cfg["objectives"]["realization_filters"] = case["ofm"]
    if case.get("lower"):
        cfg["nonlinear_constraints"] = {"lower_bounds": case["lower"], "upper_bounds": case["upper"]}
        if case.get("cfm") is not None:
            cfg["nonlinear_constraints"]["realization_filters"] = case["cfm"]
    config = EnOptConfig.model_validate(cfg)
    nlc = config.nonlinear_constraints
    force = {"rw_n": _fl(config.realizations.weights), "ow_n": _fl(config.objectives.weights),
             "lower_n": [] if nlc is None else _fl(nlc.lower_bounds),
             "upper_n": [] if nlc is None else _fl(nlc.upper_bounds),
             "rmin_n": int(config.realizations.realization_min_success)}
    return config, force


def run_filt(case):
    from pydantic import ValidationError
    from ropt.exceptions import ConfigError, OptimizationAborted
    from ropt.plugins.realization_filter.default import DefaultRealizationFilter
    config, obs = build_config(case, [case["method"]])
    objs = _np(case["objs"])
    cons = None if case.get("cons") is None else _np(case["cons"])
    try:
        flt = DefaultRealizationFilter(config, 0)
        if case.get("warm") is not None:
            # the same filter object is used for every evaluation of a run: call it first on other values and
            # scribble over whatever it hands back, as a careless caller might
            try:
                w0 = flt.get_realization_weights(_np(case["warm"]["objs"]),
                                                 None if case["warm"].get("cons") is None else _np(case["warm"]["cons"]))
                try:
                    w0[...] = 7.0
                except (ValueError, TypeError):
                    pass
            except OptimizationAborted:
                pass
        w = flt.get_realization_weights(objs, cons)
        if case.get("warm") is not None and case["warm"].get("after"):
            # ... and once more afterwards: the vector handed out before must not change under the caller's feet
            try:
                flt.get_realization_weights(_np(case["warm"]["objs"]),
                                            None if case["warm"].get("cons") is None else _np(case["warm"]["cons"]))
            except OptimizationAborted:
                pass
        obs["outcome"] = ["ok", _fl(_np(w))]
    except OptimizationAborted as e:
        obs["outcome"] = ["abort", int(e.exit_code.value)]
    except (ConfigError, ValidationError, ZeroDivisionError, IndexError, AssertionError, ValueError) as e:
        obs["outcome"] = ["raise", type(e).__name__]
    return obs


def run_e2e(case):
    import warnings
    import numpy as np
    from pydantic import ValidationError
    from ropt.ensemble_evaluator import EnsembleEvaluator
    from ropt.evaluator import EvaluatorResult
    from ropt.exceptions import ConfigError, OptimizationAborted
    from ropt.plugins import PluginManager
    config, obs = build_config(case, case["filters"])
    O = _np(case["objs"])
    C = None if case.get("cons") is None else _np(case["cons"])

    def ev(variables, ctx):
        return EvaluatorResult(objectives=O[ctx.realizations].copy(),
                               constraints=None if C is None else C[ctx.realizations].copy())

    try:
        with warnings.catch_warnings():
            warnings.simplefilter("ignore")
            ee = EnsembleEvaluator(config, None, ev, PluginManager())
            res = ee.calculate(np.zeros(1), compute_functions=True, compute_gradients=False)
        r = res[0]
        rz = r.realizations
        out = {"failed": [bool(b) for b in rz.failed_realizations],
               "ow": None if rz.objective_weights is None else _fl(rz.objective_weights),
               "cw": None if rz.constraint_weights is None else _fl(rz.constraint_weights),
               "functions": None}
        if r.functions is not None:
            out["functions"] = {"objectives": _fl(r.functions.objectives),
                                "constraints": None if r.functions.constraints is None else _fl(r.functions.constraints)}
        obs["outcome"] = ["ok", out]
    except OptimizationAborted as e:
        obs["outcome"] = ["abort", int(e.exit_code.value)]
    except (ConfigError, ValidationError, ZeroDivisionError, IndexError, AssertionError, ValueError) as e:
        obs["outcome"] = ["raise", type(e).__name__]
    return obs


def run_cvar_helper(case):
    import numpy as np
    from ropt.plugins.realization_filter.default import _get_cvar_weights_from_percentile
    values = _np(case["values"])
    failed = np.array(case["failed"], dtype=bool)
    answers = []
    for p in case["percentiles"]:
        try:
            answers.append(["ok", _fl(_np(_get_cvar_weights_from_percentile(values.copy(), failed.copy(), float(p))))])
        except (ZeroDivisionError, IndexError, ValueError) as e:
            answers.append(["raise", type(e).__name__])
    return {"answers": answers}


# ---- request sequences on one EnsembleEvaluator / through plan steps ---------------------------------
_SEQ_ENV = None
EXC_CLASSES = None


def _seq_env():
    """Scripted optimizer plug-in (built once per process / per imported ropt)."""
    global _SEQ_ENV
    import ropt
    if _SEQ_ENV is not None and _SEQ_ENV["ropt"] is ropt:
        return _SEQ_ENV
    import numpy as np
    from ropt.plugins.optimizer.base import Optimizer, OptimizerPlugin

    class Scripted(Optimizer):
        spec = None          # {"requests": [...], "allow_nan": bool, "evaluator": TableEvaluator}

        def __init__(self, config, cb):
            self.cb = cb
            self.spec = Scripted.spec

        def start(self, x0):
            for kind, k in self.spec["requests"]:
                if kind == "B":        # a batch of vectors (what a population-based / parallel method sends)
                    self.cb(np.array([[0.25 * i] for i in k]), return_functions=True, return_gradients=False)
                    continue
                self.spec["evaluator"].current = k
                self.cb(np.array([0.25 * k]), return_functions="F" in kind, return_gradients="G" in kind)

        @property
        def allow_nan(self):
            return bool(self.spec["allow_nan"])

        @property
        def is_parallel(self):
            return False

    class ScriptedPlugin(OptimizerPlugin):
        def create(self, config, cb):
            return Scripted(config, cb)

        def is_supported(self, method):
            return method.lower() == "run"

    _SEQ_ENV = {"ropt": ropt, "Scripted": Scripted, "ScriptedPlugin": ScriptedPlugin}
    return _SEQ_ENV


class TableEvaluator:
    """Affine around each point: value(r, j) = base[k][r][j] + slope[k][r][j] * (x - x_k); `current` (set by the
    driver / the scripted optimizer before every request) names the point the request is about.  Perturbed rows
    flagged in pfail get one NaN (objective or constraint entry); in lazy mode every entry the context flags
    inactive is replaced by finite garbage (what an evaluator that skips inactive work returns)."""

    def __init__(self, case):
        self.case = case
        self.current = 0
        self.calls = 0

    def __call__(self, variables, ctx):
        import numpy as np
        from ropt.evaluator import EvaluatorResult
        self.calls += 1
        reals = np.asarray(ctx.realizations)
        perts = None if ctx.perturbations is None else np.asarray(ctx.perturbations)
        pt0 = self.case["points"][0]
        has_c = pt0.get("cons") is not None
        n = variables.shape[0]
        no = len(pt0["objs"][0])
        nc = len(pt0["cons"][0]) if has_c else 0
        obj = np.zeros((n, no))
        con = np.zeros((n, nc)) if has_c else None
        ao = getattr(ctx, "active_objectives", None) if self.case.get("lazy") else None
        ac = getattr(ctx, "active_constraints", None) if self.case.get("lazy") else None
        for row in range(n):
            r = int(reals[row])
            p = -1 if perts is None else int(perts[row])
            # unperturbed rows name their point themselves (a batch holds several points), perturbed rows belong to
            # the point of the current request
            k = self.current if p >= 0 else int(round(float(variables[row, 0]) * 4))
            pt = self.case["points"][k]
            x0 = 0.25 * k
            O, OS = _np(pt["objs"]), _np(pt["oslope"])
            C, CS = (_np(pt["cons"]), _np(pt["cslope"])) if has_c else (None, None)
            dx = float(variables[row, 0]) - x0
            obj[row] = O[r] + OS[r] * dx
            if has_c:
                con[row] = C[r] + CS[r] * dx
            if p >= 0 and pt["pfail"][r][p]:
                if has_c and (r + p) % 2 == 1:
                    con[row, (r + p) % nc] = np.nan
                else:
                    obj[row, (r + p) % no] = np.nan
            if ao is not None:
                for j in range(no):
                    if not ao[j, r] and np.isfinite(obj[row, j]):
                        obj[row, j] = 97.0 + r + j
            if ac is not None and has_c:
                for j in range(nc):
                    if not ac[j, r] and np.isfinite(con[row, j]):
                        con[row, j] = -83.0 - r - j
        return EvaluatorResult(objectives=obj, constraints=con)


def _res_obs(r):
    from ropt.results import FunctionResults
    rz = r.realizations
    d = {"failed": [bool(b) for b in rz.failed_realizations],
         "ow": None if rz.objective_weights is None else _fl(rz.objective_weights),
         "cw": None if rz.constraint_weights is None else _fl(rz.constraint_weights)}
    if isinstance(r, FunctionResults):
        d["t"] = "F"
        d["functions"] = None
        if r.functions is not None:
            d["functions"] = {"objectives": _fl(r.functions.objectives),
                              "constraints": None if r.functions.constraints is None else _fl(r.functions.constraints)}
    else:
        d["t"] = "G"
        d["gradients"] = None
        if r.gradients is not None:
            g = r.gradients
            d["gradients"] = {"objectives": [float(v[0]) for v in g.objectives],
                              "constraints": None if g.constraints is None else [float(v[0]) for v in g.constraints]}
    return d


def _scribble(res):
    """What a careless caller does with the arrays of a result it was handed: try to overwrite them in place."""
    for r in res:
        for a in (r.realizations.objective_weights, r.realizations.constraint_weights, r.realizations.failed_realizations,
                  r.evaluations.variables, getattr(r.evaluations, "objectives", None)):
            if a is not None:
                try:
                    a[...] = 1 if a.dtype == bool else 123.0
                except (ValueError, TypeError):
                    pass


def seq_config(case):
    P = case["P"]
    from ropt.config.enopt import EnOptConfig
    cfg = {"variables": {"initial_values": [0.0]},
           "realizations": {"weights": case["rw"], "realization_min_success": case["rmin"]},
           "objectives": {"weights": case["ow"]},
           "gradient": {"number_of_perturbations": P, "perturbation_magnitudes": 1.0,
                        "perturbation_min_success": case["pmin"]},
           # perturbations in [0.5, 1]: the one-variable least-squares slope is then exact up to ~1e-15 (a Gaussian
           # sample can be arbitrarily close to 0, which amplifies the rounding of base + slope * dx)
           "samplers": [{"method": "uniform", "options": {"loc": 0.5, "scale": 0.5}}],
           "realization_filters": [method_config(m) for m in case["filters"]]}
    if case.get("ofm") is not None:
        cfg["objectives"]["realization_filters"] = case["ofm"]
    if case.get("lower"):
        cfg["nonlinear_constraints"] = {"lower_bounds": case["lower"], "upper_bounds": case["upper"]}
        if case.get("cfm") is not None:
            cfg["nonlinear_constraints"]["realization_filters"] = case["cfm"]
    if case["via"] == "step":
        cfg["optimizer"] = {"method": "verifseq/run"}
    config = EnOptConfig.model_validate(cfg)
    nlc = config.nonlinear_constraints
    force = {"rw_n": _fl(config.realizations.weights), "ow_n": _fl(config.objectives.weights),
             "lower_n": [] if nlc is None else _fl(nlc.lower_bounds),
             "upper_n": [] if nlc is None else _fl(nlc.upper_bounds),
             "rmin_n": int(config.realizations.realization_min_success),
             "pmin_n": int(config.gradient.perturbation_min_success)}
    return config, force


def run_seq(case):
    import warnings
    import numpy as np
    from pydantic import ValidationError
    from ropt.ensemble_evaluator import EnsembleEvaluator
    from ropt.enums import EventType
    from ropt.exceptions import ConfigError, OptimizationAborted
    from ropt.plugins import PluginManager
    errors = (ConfigError, ValidationError, ZeroDivisionError, IndexError, AssertionError, ValueError, TypeError,
              AttributeError, KeyError)
    ev = TableEvaluator(case)
    with warnings.catch_warnings():
        warnings.simplefilter("ignore")
        config, obs = seq_config(case)     # (the filter options are validated when the filter objects are built)
        obs.update({"answers": None, "delivered": [], "exit": None})
        if case["via"] == "calculate":
            try:
                ee = EnsembleEvaluator(config, None, ev, PluginManager())
            except errors as e:
                obs["answers"] = ["raise", type(e).__name__]
                return obs
            answers = []
            for kind, k in case["requests"]:
                if kind == "B":
                    x = np.array([[0.25 * i] for i in k])
                else:
                    ev.current = k
                    x = np.array([0.25 * k])
                try:
                    res = ee.calculate(x, compute_functions=kind in ("F", "FG", "B"), compute_gradients="G" in kind)
                    answers.append(["ok", [_res_obs(r) for r in res]])
                    if case.get("scribble"):
                        _scribble(res)
                        x[...] = 55.0
                except OptimizationAborted as e:
                    answers.append(["abort", int(e.exit_code.value)])
                except errors as e:
                    answers.append(["raise", type(e).__name__])
            obs["answers"] = ["ok", answers]
            return obs
        # through a plan step
        from ropt.plan import OptimizerContext, Plan
        env = _seq_env()
        pm = PluginManager()
        pm.add_plugin("optimizer", "verifseq", env["ScriptedPlugin"]())
        ctx = OptimizerContext(evaluator=ev, plugin_manager=pm)
        delivered = []

        def on_results(e):
            res = e.data["results"]
            delivered.append([_res_obs(r) for r in res])
            if case.get("scribble"):
                _scribble(res)

        ctx.add_observer(EventType.FINISHED_EVALUATION, on_results)
        plan = Plan(ctx)
        try:
            if case["via"] == "step":
                env["Scripted"].spec = {"requests": case["requests"], "allow_nan": case.get("allow_nan", False), "evaluator": ev}
                st = plan.add_step("optimizer")
                code = plan.run_step(st, config=config)
            else:
                kind, k = case["requests"][0]
                st = plan.add_step("evaluator")
                if kind == "B":
                    code = plan.run_step(st, config=config, variables=[[0.25 * i] for i in k])
                else:
                    ev.current = k
                    code = plan.run_step(st, config=config, variables=[0.25 * k])
            obs["exit"] = ["ok", int(code.value)]
        except OptimizationAborted as e:
            obs["exit"] = ["raise", "OptimizationAborted"]
        except errors as e:
            obs["exit"] = ["raise", type(e).__name__]
        obs["delivered"] = delivered
        return obs


def run_impl(case):
    k = case["kind"]
    if k == "helper":
        return run_cvar_helper(case)
    if k == "filt":
        return run_filt(case)
    if k == "seq":
        return run_seq(case)
    return run_e2e(case)


# =====================================================================================
# shared: Gallina printers
# =====================================================================================
# Rationals are printed with hexadecimal numerals: Coq parses a 53-bit hexadecimal literal about twice as fast as
# the decimal one, and the case files are parsing-bound.
def q(x) -> str:
    """exact rational value of a finite float / int / Fraction as `(Q_ n d)`"""
    if isinstance(x, Fraction):
        f = x
    else:
        x = float(x)
        if math.isnan(x) or math.isinf(x):
            raise ValueError(f"not finite: {x}")
        f = Fraction(x)
    n, d = f.numerator, f.denominator
    return f"(Q_ (-{hex(-n)}) {hex(d)})" if n < 0 else f"(Q_ {hex(n)} {hex(d)})"


def oq(x) -> str:
    x = float(x)
    return "None" if math.isnan(x) else f"(Some {q(x)})"


def er(x) -> str:
    x = float(x)
    if math.isnan(x):
        raise ValueError("nan is not an extended real")
    if math.isinf(x):
        return "PInf" if x > 0 else "NInf"
    return f"(Fin {q(x)})"


def qs(xs) -> str:
    return cq.lst(q(x) for x in xs)


def oqs(xs) -> str:
    return cq.lst(oq(x) for x in xs)


def ers(xs) -> str:
    return cq.lst(er(x) for x in xs)


def qmat(m) -> str:
    return cq.lst(qs(r) for r in m)


def oqmat(m) -> str:
    return cq.lst(oqs(r) for r in m)


def method_term(m):
    n = m["name"]
    if n == "sort-objective":
        return f"(SortObjective {cq.nats(m['sort'])} {cq.nat(m['first'])} {cq.nat(m['last'])})"
    if n == "sort-constraint":
        return f"(SortConstraint {cq.nat(m['sort'])} {cq.nat(m['first'])} {cq.nat(m['last'])})"
    if n == "cvar-objective":
        return f"(CvarObjective {cq.nats(m['sort'])} {q(m['p'])})"
    return f"(CvarConstraint {cq.nat(m['sort'])} {q(m['p'])})"


def config_term(obs):
    return f"(Build_config {qs(obs['rw_n'])} {qs(obs['ow_n'])} {ers(obs['lower_n'])} {ers(obs['upper_n'])})"


def omat(m):
    return "None" if m is None else f"(Some {oqmat(m)})"


def outcome_term(o, ok_printer):
    if o[0] == "ok":
        return f"(Ok {ok_printer(o[1])})"
    if o[0] == "abort":
        return f"(Abort {cq.z(o[1])})"
    return f"(Raise {cq.s(o[1])})"


def finite_or_raise(xs):
    for x in xs:
        if not math.isfinite(x):
            raise ValueError("non-finite weight in an Ok answer")
    return xs


def filt_term(case, obs):
    out = outcome_term(obs["outcome"], lambda w: qs(finite_or_raise(w)))
    return f"(Filt {config_term(obs)} {method_term(case['method'])} {oqmat(case['objs'])} {omat(case.get('cons'))} {out})"


def _evaluation_term(o):
    def qm(m):
        return "None" if m is None else f"(Some {qmat([finite_or_raise(r) for r in m])})"
    fn = o["functions"]
    if fn is None:
        fterm = "None"
    else:
        c = fn["constraints"]
        fterm = f"(Some ({oqs(fn['objectives'])}, {'None' if c is None else '(Some ' + oqs(c) + ')'}))"
    return f"(Build_evaluation {cq.bs(o['failed'])} {qm(o['ow'])} {qm(o['cw'])} {fterm})"


def magnitude(case):
    m = 1.0
    for mat in (case["objs"], case.get("cons") or []):
        for row in mat:
            for x in row:
                if math.isfinite(x):
                    m = max(m, abs(x))
    return m


def e2e_term(case, obs):
    zopt = lambda l: "None" if l is None else f"(Some {cq.zs(l)})"
    out = outcome_term(obs["outcome"], _evaluation_term)
    return (f"(E2E (Build_e2e_case {config_term(obs)} {cq.lst(method_term(m) for m in case['filters'])} "
            f"{zopt(case.get('ofm'))} {zopt(case.get('cfm'))} {cq.nat(obs['rmin_n'])} {oqmat(case['objs'])} "
            f"{omat(case.get('cons'))} {q(magnitude(case))} {out}))")


def _result_term(r):
    def qm(m):
        return "None" if m is None else f"(Some {qmat([finite_or_raise(x) for x in m])})"

    def vals(d):
        if d is None:
            return "None"
        c = d["constraints"]
        return f"(Some ({oqs(d['objectives'])}, {'None' if c is None else '(Some ' + oqs(c) + ')'}))"
    if r["t"] == "F":
        return f"(RFun (Build_evaluation {cq.bs(r['failed'])} {qm(r['ow'])} {qm(r['cw'])} {vals(r['functions'])}))"
    return f"(RGrad (Build_gresult {cq.bs(r['failed'])} {qm(r['ow'])} {qm(r['cw'])} {vals(r['gradients'])}))"


def _point_term(pt):
    bm = cq.lst(cq.bs(row) for row in pt["pfail"])
    cs = pt["cslope"] if pt.get("cons") is not None else []
    return f"(Build_point {oqmat(pt['objs'])} {omat(pt.get('cons'))} {qmat(pt['oslope'])} {qmat(cs)} {bm})"


def seq_magnitude(case):
    m = 1.0
    for pt in case["points"]:
        for mat in (pt["objs"], pt.get("cons") or [], pt["oslope"], pt.get("cslope") or []):
            for row in mat:
                for x in row:
                    if math.isfinite(x):
                        m = max(m, abs(x))
    return m


REQ_CTOR = {"F": "ReqF", "G": "ReqG", "FG": "ReqFG"}


def seq_term(case, obs):
    zopt = lambda l: "None" if l is None else f"(Some {cq.zs(l)})"
    env = (f"(Build_senv {config_term(obs)} {cq.lst(method_term(m) for m in case['filters'])} {zopt(case.get('ofm'))} "
           f"{zopt(case.get('cfm') if case.get('lower') else None)} {cq.nat(obs['rmin_n'])} {cq.nat(obs['pmin_n'])} "
           f"{cq.lst(_point_term(pt) for pt in case['points'])})")
    via = {"calculate": "ViaCalculate", "evalstep": "ViaEvalStep"}.get(case["via"]) or f"(ViaStep {cq.b(case.get('allow_nan', False))})"
    reqs = cq.lst((f"(ReqB {cq.nats(i)})" if k == "B" else f"({REQ_CTOR[k]} {cq.nat(i)})") for k, i in case["requests"])
    res_list = lambda rs: cq.lst(_result_term(r) for r in rs)
    if case["via"] == "calculate":
        a = obs["answers"]
        if a[0] == "ok":
            answers = "(Ok " + cq.lst(outcome_term(x, res_list) for x in a[1]) + ")"
        else:
            answers = outcome_term(a, lambda x: "[]")
        delivered, ex = "[]", "(Ok 0%Z)"
    else:
        answers = "(Ok [])"
        delivered = cq.lst(res_list(rs) for rs in obs["delivered"])
        ex = outcome_term(obs["exit"], cq.z)
    return f"(Seq (Build_seq_case {env} {via} {reqs} {q(seq_magnitude(case))} {answers} {delivered} {ex}))"


def coq_case(case, obs):
    k = case["kind"]
    if k == "seq":
        return seq_term(case, obs)
    if k == "helper":
        ans = []
        for p, a in zip(case["percentiles"], obs["answers"]):
            if a[0] != "ok":
                raise ValueError("helper raised " + a[1])
            ans.append(f"({q(p)}, {qs(finite_or_raise(a[1]))})")
        return f"(Helper {qs(case['values'])} {cq.bs(case['failed'])} {cq.lst(ans)})"
    if k == "filt":
        return filt_term(case, obs)
    return e2e_term(case, obs)


# =====================================================================================
# shared: independent oracles (property predicates on the implementation's output, exact rationals)
# =====================================================================================
F = Fraction


def _close(x, m, S=1):
    return abs(F(x) - F(m)) <= TOL_ABS * F(S) + TOL_REL * abs(F(m))


def nan_rows(mat):
    return [any(math.isnan(x) for x in row) for row in mat]


def propagate(objs, cons):
    f = nan_rows(objs)
    if cons is not None:
        f = [a or b for a, b in zip(f, nan_rows(cons))]
    return f


def objective_keys(objs, ow_n, sort, failed):
    """weighted sum of the chosen objectives (exact), None for failed realizations"""
    keys = []
    for row, f in zip(objs, failed):
        if f:
            keys.append(None)
        elif len(ow_n) > 1:
            keys.append(sum(F(row[j]) * F(ow_n[j]) for j in sort))
        else:
            keys.append(F(row[sort[0]]))
    return keys


def cvar_constraint_keys(cons, lo, up, sort, failed):
    """ascending = worst first.  upper-bounded: largest value worst; lower-bounded: smallest worst; equality:
    farthest from the target worst; two-sided / unbounded: the text does not fix an order -> total tie."""
    keys = []
    l, u = lo[sort], up[sort]
    for row, f in zip(cons, failed):
        if f:
            keys.append(None)
            continue
        c = F(row[sort])
        if math.isinf(l) and math.isinf(u):
            keys.append(F(0))
        elif math.isinf(l):
            keys.append(-c)
        elif math.isinf(u):
            keys.append(c)
        elif l == u:
            keys.append(-abs(c - F(l)))
        else:
            keys.append(F(0))
    return keys


def oracle_sort(keys, cfgw, first, last, w):
    """keys: list of Fraction | None (failed).  w: observed weights.  Tie-robust rank-window predicate."""
    n = len(keys)
    if len(w) != n:
        return {"clause": "shape", "detail": [len(w), n]}
    S = [r for r in range(n) if keys[r] is not None]
    for r in range(n):
        if keys[r] is None and w[r] != 0:
            return {"clause": "failed-realization-has-weight", "detail": [r, w[r]]}
        if w[r] != 0 and w[r] != cfgw[r]:
            return {"clause": "weight-neither-configured-nor-zero", "detail": [r, w[r], cfgw[r]]}
    for r in S:
        lo = sum(1 for s in S if keys[s] < keys[r])
        ge = sum(1 for s in S if keys[s] <= keys[r])
        quota = max(0, min(ge, last + 1) - max(lo, first))
        grp = [s for s in S if keys[s] == keys[r]]
        sel = sum(1 for s in grp if w[s] != 0)
        amb = sum(1 for s in grp if cfgw[s] == 0)
        if not (sel <= quota <= sel + amb):
            return {"clause": "rank-window", "detail": {"realization": r, "ranks": [lo, ge - 1], "window": [first, last],
                                                        "must_select": quota, "selected": sel, "zero_weight_members": amb}}
    return None


def sort_may_abort(keys, cfgw, first, last):
    S = [r for r in range(len(keys)) if keys[r] is not None]
    for r in S:
        lo = sum(1 for s in S if keys[s] < keys[r])
        ge = sum(1 for s in S if keys[s] <= keys[r])
        quota = max(0, min(ge, last + 1) - max(lo, first))
        if quota > sum(1 for s in S if keys[s] == keys[r] and cfgw[s] <= 0):
            return False
    return True


def oracle_cvar(keys, p, w):
    """keys ascending = worst first (None = failed).  Staircase predicate with ties in the implementation's favour."""
    n_all = len(keys)
    if len(w) != n_all:
        return {"clause": "shape", "detail": [len(w), n_all]}
    for r in range(n_all):
        if not math.isfinite(w[r]):
            return {"clause": "weight-not-finite", "detail": [r, w[r]]}
        if w[r] < 0:
            return {"clause": "negative-weight", "detail": [r, w[r]]}
        if keys[r] is None and w[r] != 0:
            return {"clause": "failed-realization-has-weight", "detail": [r, w[r]]}
    S = [r for r in range(n_all) if keys[r] is not None]
    n = len(S)
    if n == 0:
        return None
    order = sorted(S, key=lambda r: (keys[r], -F(w[r])))
    v = [F(w[r]) for r in order]
    u = F(1, n)
    last_nz = max((i for i, x in enumerate(v) if x != 0), default=-1)
    if last_nz < 0:
        return {"clause": "total-mass-not-p", "detail": "all weights zero"}
    for i in range(last_nz):
        if not _close(v[i], u):
            return {"clause": "staircase", "detail": {"rank": i, "weight": float(v[i]), "expected": float(u),
                                                      "note": "a worse (or equally bad) realization than a weighted one must carry 1/n"}}
    if not (0 <= v[last_nz] <= u + TOL_ABS + TOL_REL * u):
        return {"clause": "staircase", "detail": {"rank": last_nz, "weight": float(v[last_nz]), "max": float(u)}}
    if not _close(sum(v), F(p)):
        return {"clause": "total-mass-not-p", "detail": [float(sum(v)), p]}
    return None


def method_keys(m, obs, objs, cons):
    """(keys, failed-by-row) the property ranks by for this method; keys None where failed."""
    name = m["name"]
    if name.endswith("objective"):
        failed = [math.isnan(row[0]) for row in objs]
        keys = objective_keys(objs, obs["ow_n"], m["sort"], failed)
        if name.startswith("cvar"):
            keys = [None if k is None else -k for k in keys]
        return keys
    if cons is None:
        return None
    failed = [math.isnan(row[0]) for row in cons]
    if name == "sort-constraint":
        return [None if f else F(row[m["sort"]]) for row, f in zip(cons, failed)]
    return cvar_constraint_keys(cons, obs["lower_n"], obs["upper_n"], m["sort"], failed)


def oracle_weights(m, obs, objs, cons, w):
    """property predicate for one weight vector produced by filter m"""
    keys = method_keys(m, obs, objs, cons)
    if keys is None:
        return {"clause": "constraint-filter-without-constraints-returned-weights", "detail": m}
    if m["name"].startswith("sort"):
        v = oracle_sort(keys, obs["rw_n"], m["first"], m["last"], w)
    else:
        v = oracle_cvar(keys, m["p"], w)
    if v is None and not any(x > 0 for x in w):
        v = {"clause": "no-positive-weight-but-no-TOO_FEW_REALIZATIONS", "detail": w}
    return v


def method_valid(m, R):
    if m["name"].startswith("sort"):
        return m["first"] <= m["last"] < R
    return 0.0 < m["p"] <= 1.0


def oracle_filter_outcome(m, obs, objs, cons, outcome):
    R = len(obs["rw_n"])
    if not method_valid(m, R):
        if outcome[0] != "raise":
            return {"clause": "invalid-window-or-percentile-not-rejected-at-construction", "detail": [m, outcome[0]]}
        return None
    if outcome[0] == "raise":
        if cons is None and m["name"].endswith("constraint"):
            return None
        return {"clause": "exception-instead-of-weights-or-TOO_FEW_REALIZATIONS", "detail": outcome[1]}
    keys = method_keys(m, obs, objs, cons)
    if outcome[0] == "abort":
        if outcome[1] != 1:
            return {"clause": "wrong-exit-code", "detail": outcome[1]}
        if keys is None:
            return {"clause": "abort-without-constraints", "detail": m}
        if m["name"].startswith("sort"):
            if not sort_may_abort(keys, obs["rw_n"], m["first"], m["last"]):
                return {"clause": "TOO_FEW_REALIZATIONS-although-window-selects-positive-weight", "detail": m}
        elif any(k is not None for k in keys):
            return {"clause": "TOO_FEW_REALIZATIONS-although-a-realization-succeeded", "detail": m}
        return None
    return oracle_weights(m, obs, objs, cons, outcome[1])


def oracle_e2e(case, obs):
    """rows of the reported weight matrices belong to the mapped filter; values are the normalised weighted means"""
    out = obs["outcome"]
    filters = case["filters"]
    R = len(obs["rw_n"])
    if any(not method_valid(m, R) for m in filters):
        if out[0] != "raise":
            return {"clause": "invalid-window-or-percentile-not-rejected-at-construction", "detail": out[0]}
        return None
    if out[0] == "raise":
        return {"clause": "exception-instead-of-result-or-TOO_FEW_REALIZATIONS", "detail": out[1]}
    failed = propagate(case["objs"], case.get("cons"))
    nanrow = lambda mat: None if mat is None else [[math.nan] * len(row) if f else row for row, f in zip(mat, failed)]
    objs, cons = nanrow(case["objs"]), nanrow(case.get("cons"))
    used = sorted({k for fm in (case.get("ofm"), case.get("cfm") if case.get("lower") else None) if fm is not None
                   for k in fm if 0 <= k < len(filters)})
    if out[0] == "abort":
        if out[1] != 1:
            return {"clause": "wrong-exit-code", "detail": out[1]}
        for k in used:
            if oracle_filter_outcome(filters[k], obs, objs, cons, out) is None:
                return None
        return {"clause": "TOO_FEW_REALIZATIONS-although-every-filter-selects-positive-weight", "detail": used}
    o = out[1]
    if o["failed"] != failed:
        return {"clause": "failed-flags", "detail": [o["failed"], failed]}
    for label, fm, mat, count in (("objective", case.get("ofm"), o["ow"], len(obs["ow_n"])),
                                  ("constraint", case.get("cfm") if case.get("lower") else None, o["cw"], len(obs["lower_n"]))):
        rows_used = fm is not None and any(0 <= k < len(filters) for k in fm)
        if mat is None:
            if rows_used:
                return {"clause": "rows", "detail": f"{label} weights missing although a filter is mapped"}
            continue
        if len(mat) != count:
            return {"clause": "rows", "detail": f"{label} weight matrix has {len(mat)} rows, expected {count}"}
        for j, row in enumerate(mat):
            k = fm[j] if fm is not None else -1
            if 0 <= k < len(filters):
                v = oracle_weights(filters[k], obs, objs, cons, row)
                if v is not None:
                    return {"clause": "rows:" + v["clause"], "detail": {"function": f"{label} {j}", "filter": k, "inner": v["detail"]}}
            elif row != obs["rw_n"]:
                return {"clause": "rows", "detail": {"function": f"{label} {j}", "note": "unfiltered row differs from the configured weights",
                                                     "row": row}}
    fn = o["functions"]
    ns = sum(1 for f in failed if not f)
    if ns < obs["rmin_n"]:
        if fn is not None:
            return {"clause": "value-produced-below-min-success", "detail": ns}
        return None
    if fn is None:
        return {"clause": "no-value", "detail": ns}
    if ns == 0:
        return None
    S = magnitude(case)
    for label, vals, mat, data in (("objective", fn["objectives"], o["ow"], objs), ("constraint", fn["constraints"], o["cw"], cons)):
        if vals is None:
            continue
        for j, x in enumerate(vals):
            w = [F(0) if f else F(a) for a, f in zip(mat[j] if mat is not None else obs["rw_n"], failed)]
            tot = sum(w)
            if tot == 0:
                continue
            m = sum(wr * F(data[r][j]) for r, wr in enumerate(w) if not failed[r]) / tot
            if math.isnan(x) or not _close(x, m, S):
                return {"clause": "value-not-tail-mean", "detail": {"function": f"{label} {j}", "value": x, "expected": float(m)}}
    return None


def _as_e2e(case, obs, pt, outcome):
    """one function evaluation of a request sequence, in the shape oracle_e2e judges"""
    c = {"filters": case["filters"], "ofm": case.get("ofm"), "cfm": case.get("cfm"), "lower": case.get("lower"),
         "objs": pt["objs"], "cons": pt.get("cons")}
    return c, {**obs, "outcome": outcome}


def oracle_gradient(case, obs, pt, g):
    """GradientResults at a point: the rows are the mapped filters' vectors for the FUNCTION values of that point, the
    failure flags add the realizations with too few successful perturbations, and each gradient is the normalised
    weighted mean (weights in force = the reported rows, failed realizations zeroed) of the realizations' slopes."""
    filters = case["filters"]
    failed_f = propagate(pt["objs"], pt.get("cons"))
    nanrow = lambda mat: None if mat is None else [[math.nan] * len(row) if f else row for row, f in zip(mat, failed_f)]
    objs, cons = nanrow(pt["objs"]), nanrow(pt.get("cons"))
    failed_g = [f or sum(1 for x in pf if not x) < obs["pmin_n"] for f, pf in zip(failed_f, pt["pfail"])]
    if g["failed"] != failed_g:
        return {"clause": "gradient:failed-flags", "detail": [g["failed"], failed_g]}
    has_c = bool(case.get("lower"))
    for label, fm, mat, count in (("objective", case.get("ofm"), g["ow"], len(obs["ow_n"])),
                                  ("constraint", case.get("cfm") if has_c else None, g["cw"], len(obs["lower_n"]))):
        rows_used = fm is not None and any(0 <= k < len(filters) for k in fm)
        if mat is None:
            if rows_used:
                return {"clause": "gradient:rows", "detail": f"{label} weights missing in the gradient results although a filter is mapped"}
            continue
        if len(mat) != count:
            return {"clause": "gradient:rows", "detail": f"{label} weight matrix has {len(mat)} rows, expected {count}"}
        for j, row in enumerate(mat):
            k = fm[j] if fm is not None else -1
            if 0 <= k < len(filters):
                v = oracle_weights(filters[k], obs, objs, cons, row)
                if v is not None:
                    return {"clause": "gradient:rows:" + v["clause"],
                            "detail": {"function": f"{label} {j}", "filter": k, "inner": v["detail"]}}
            elif row != obs["rw_n"]:
                return {"clause": "gradient:rows", "detail": {"function": f"{label} {j}", "row": row,
                                                              "note": "unfiltered row differs from the configured weights"}}
    ns = sum(1 for f in failed_g if not f)
    gr = g["gradients"]
    if ns < obs["rmin_n"]:
        if gr is not None:
            return {"clause": "gradient-produced-below-min-success", "detail": ns}
        return None
    if gr is None:
        return {"clause": "no-gradient", "detail": ns}
    S = seq_magnitude(case)
    for label, vals, mat, slopes in (("objective", gr["objectives"], g["ow"], pt["oslope"]),
                                     ("constraint", gr["constraints"], g["cw"], pt.get("cslope"))):
        if vals is None:
            continue
        for j, x in enumerate(vals):
            w = [F(0) if f else F(a) for a, f in zip(mat[j] if mat is not None else obs["rw_n"], failed_g)]
            tot = sum(w)
            if tot == 0:
                continue
            m = sum(wr * F(slopes[r][j]) for r, wr in enumerate(w)) / tot
            if math.isnan(x) or not _close(x, m, S):
                return {"clause": "gradient-not-weighted-mean-of-slopes",
                        "detail": {"function": f"{label} {j}", "value": x, "expected": float(m)}}
    return None


def _oracle_results(case, obs, k, rs):
    for i, r in enumerate(rs):
        pt = case["points"][k[i] if isinstance(k, list) else k]
        if r["t"] == "F":
            c, o = _as_e2e(case, obs, pt, ["ok", r])
            v = oracle_e2e(c, o)
        else:
            v = oracle_gradient(case, obs, pt, r)
        if v is not None:
            return {"clause": v["clause"], "detail": {"point": k, "result": r["t"], "inner": v["detail"]}}
    return None


def _abort_justified(case, obs, k):
    """an aborted request: some filter in use may find no positive weight at (one of) the point(s) of the request"""
    v = None
    for i in (k if isinstance(k, list) else [k]):
        c, o = _as_e2e(case, obs, case["points"][i], ["abort", 1])
        v = oracle_e2e(c, o)
        if v is None:
            return None
    return v


def _shape_ok(kind, rs, k=None):
    t = [r["t"] for r in rs]
    if kind == "B":
        return t == ["F"] * len(k)
    return t == ["F"] if kind == "F" else t == ["F", "G"] if kind == "FG" else t in (["G"], ["F", "G"])


def _stops(case, obs, r):
    chk = obs["rmin_n"] < 1 and not case.get("allow_nan", False)
    val = r["functions"] if r["t"] == "F" else r["gradients"]
    return val is None or (chk and all(r["failed"]))


def oracle_seq(case, obs):
    R = len(obs["rw_n"])
    invalid = any(not method_valid(m, R) for m in case["filters"])
    via = case["via"]
    if via == "calculate":
        a = obs["answers"]
        if invalid:
            return None if a[0] == "raise" else {"clause": "invalid-window-or-percentile-not-rejected-at-construction", "detail": a[0]}
        if a[0] != "ok":
            return {"clause": "exception-at-construction", "detail": a[1]}
        if len(a[1]) != len(case["requests"]):
            return {"clause": "answers", "detail": len(a[1])}
        for (kind, k), ans in zip(case["requests"], a[1]):
            if ans[0] == "raise":
                return {"clause": "exception-instead-of-result-or-TOO_FEW_REALIZATIONS", "detail": [kind, k, ans[1]]}
            if ans[0] == "abort":
                if ans[1] != 1:
                    return {"clause": "wrong-exit-code", "detail": ans[1]}
                v = _abort_justified(case, obs, k)
                if v is not None:
                    return {"clause": v["clause"], "detail": {"request": [kind, k], "inner": v["detail"]}}
                continue
            if not _shape_ok(kind, ans[1], k):
                return {"clause": "results-shape", "detail": [kind, [r["t"] for r in ans[1]]]}
            v = _oracle_results(case, obs, k, ans[1])
            if v is not None:
                return v
        return None
    ex = obs["exit"]
    if invalid:
        return None if ex[0] == "raise" else {"clause": "invalid-window-or-percentile-not-rejected-at-construction", "detail": ex}
    if ex[0] != "ok":
        return {"clause": "exception-instead-of-exit-code", "detail": ex[1]}
    code, delivered = ex[1], obs["delivered"]
    finished = 5 if via == "step" else 6
    if len(delivered) > len(case["requests"]):
        return {"clause": "more-evaluations-than-requests", "detail": len(delivered)}
    for i, ((kind, k), rs) in enumerate(zip(case["requests"], delivered)):
        if not _shape_ok(kind, rs, k):
            return {"clause": "results-shape", "detail": [kind, [r["t"] for r in rs]]}
        v = _oracle_results(case, obs, k, rs)
        if v is not None:
            return v
        stops = any(_stops(case, obs, r) for r in rs) if via == "step" else any(r["functions"] is None for r in rs)
        if stops:
            if code != 1:
                return {"clause": "exit-code-not-TOO_FEW_REALIZATIONS-after-a-result-without-value", "detail": [i, code]}
            if len(delivered) != i + 1:
                return {"clause": "evaluation-after-TOO_FEW_REALIZATIONS", "detail": [i, len(delivered)]}
            return None
    if len(delivered) == len(case["requests"]):
        if code != finished:
            return {"clause": "exit-code", "detail": {"exit": code, "expected": finished,
                                                      "note": "every request produced values, nothing justifies another exit code"}}
        return None
    # the step ended before the next request delivered anything: only a filter without positive weight justifies that
    kind, k = case["requests"][len(delivered)]
    if code != 1:
        return {"clause": "exit-code", "detail": {"exit": code, "expected": 1, "request": [kind, k]}}
    v = _abort_justified(case, obs, k)
    if v is not None:
        return {"clause": v["clause"], "detail": {"request": [kind, k], "inner": v["detail"]}}
    return None


def oracle(case, obs):
    k = case["kind"]
    if k == "seq":
        return oracle_seq(case, obs)
    if k == "helper":
        keys = [None if f else F(v) for v, f in zip(case["values"], case["failed"])]
        for p, a in zip(case["percentiles"], obs["answers"]):
            if a[0] != "ok":
                return {"clause": "exception-instead-of-weights", "detail": [p, a[1]]}
            v = oracle_cvar(keys, p, a[1])
            if v is not None:
                v["detail"] = {"percentile": p, "inner": v["detail"]}
                return v
        return None
    if k == "filt":
        return oracle_filter_outcome(case["method"], obs, case["objs"], case.get("cons"), obs["outcome"])
    return oracle_e2e(case, obs)


# =====================================================================================
# shared: generator pieces
# =====================================================================================
# negative entries are valid (a maximised objective): normalisation only needs a positive sum; "worst" is then the
# largest WEIGHTED value, i.e. the smallest raw value of that objective (seeded change C04_c)
OW_CHOICES = {1: [[1.0]], 2: [[1, 1], [1, 3], [3, 1], [5, 3], [1, 7], [1, 0], [0, 1], [3, -1], [-1, 3], [5, -3]],
              3: [[1, 1, 2], [2, 1, 1], [1, 2, 1], [1, 4, 3], [3, 0, 1], [5, 2, 1], [3, -1, 2], [-1, 4, 1], [2, 3, -1]]}
RW_POOL = [0, 0, 1, 1, 2, 3, 4, 5, 6, 7]


def dyadic(rng, lo=-4, hi=4, den=16):
    return rng.randint(lo * den, hi * den) / den


def gen_rw(rng, R):
    while True:
        w = [rng.choice(RW_POOL) for _ in range(R)]
        if rng.random() < 0.3:
            w = [x or 1 for x in w]
        if sum(w) > 0:
            return [float(x) for x in w]


def gen_matrix(rng, R, cols, ties=False):
    if ties:
        return [[float(rng.randint(0, 2)) for _ in range(cols)] for _ in range(R)]
    return [[dyadic(rng) for _ in range(cols)] for _ in range(R)]


def inject_failures(rng, objs, cons, rate):
    """NaN in one entry of a failed realization (the evaluator propagates it), or whole rows (filter level)."""
    R = len(objs)
    failed = [rng.random() < rate for _ in range(R)]
    return failed


def gen_bounds(rng, nc):
    lo, up = [], []
    for _ in range(nc):
        kind = rng.choice(["upper", "lower", "eq", "two", "none"]) if rng.random() < 0.9 else "none"
        t = dyadic(rng, -2, 2, 4)
        if kind == "upper":
            lo.append(-math.inf); up.append(t)
        elif kind == "lower":
            lo.append(t); up.append(math.inf)
        elif kind == "eq":
            lo.append(t); up.append(t)
        elif kind == "two":
            lo.append(t); up.append(t + rng.randint(1, 8) / 4)
        else:
            lo.append(-math.inf); up.append(math.inf)
    return lo, up


PCT_NICE = [0.5, 0.25, 0.75, 1.0, 0.125, 0.375, 0.3, 0.1, 0.9, 0.7, 0.2, 0.6, 1 / 3, 2 / 3, 0.05, 0.95]


def gen_method(rng, kinds, R, no, nc, wild=False):
    choices = [k for k in kinds if nc > 0 or not k.endswith("constraint")]
    name = rng.choice(choices)
    m = {"name": name}
    if rng.random() < 0.15:
        m["alias"] = rng.choice(["upper", "prefixed"])
    if name.endswith("objective"):
        if no == 1:
            m["sort"] = [0]
        else:
            m["sort"] = sorted(rng.sample(range(no), rng.randint(1, no)))
    else:
        m["sort"] = rng.randrange(nc)
    if name.startswith("sort"):
        if wild and rng.random() < 0.5:
            m["first"], m["last"] = rng.choice([(0, R), (R, R), (1, 0), (R - 1, R + 2), (R + 1, R + 1), (2, 1)])
        else:
            f = rng.randrange(R)
            m["first"], m["last"] = f, rng.randint(f, R - 1)
    else:
        if wild and rng.random() < 0.5:
            m["p"] = rng.choice([0.0, -0.25, 1.5, 1.0000000000000002])
        else:
            m["p"] = rng.choice(PCT_NICE) if rng.random() < 0.7 else rng.randint(1, 64) / 64
    return m


def gen_filt(rng, kinds, wild_rate=0.08, max_R=8):
    R = rng.randint(1, max_R)
    no = rng.choice([1, 1, 2, 2, 3])
    nc = rng.choice([0, 1, 2, 3]) if any(k.endswith("constraint") for k in kinds) else 0
    if all(k.endswith("constraint") for k in kinds):
        nc = max(nc, 1)
    ties = rng.random() < 0.25
    objs = gen_matrix(rng, R, no, ties)
    cons = gen_matrix(rng, R, nc, ties) if nc else None
    lo, up = gen_bounds(rng, nc)
    rate = rng.choice([0, 0, 0.2, 0.5, 1.0]) if rng.random() < 0.9 else 1.0
    for r in range(R):
        if rng.random() < rate:
            objs[r] = [math.nan] * no
            if cons is not None:
                cons[r] = [math.nan] * nc
    m = gen_method(rng, kinds, R, no, nc, wild=rng.random() < wild_rate)
    ns = sum(1 for row in objs if not math.isnan(row[0]))
    if m["name"].startswith("cvar") and 0.0 < m["p"] <= 1.0 and ns > 0 and rng.random() < 0.3:
        # p * n within a few ulp of an integer (n = number of successful realizations)
        p = ulp_step(rng.randint(1, ns) / ns, rng.choice([-2, -1, 0, 1, 2]))
        if 0.0 < p <= 1.0:
            m["p"] = p
    case = {"kind": "filt", "rw": gen_rw(rng, R), "ow": [float(x) for x in rng.choice(OW_CHOICES[no])],
            "lower": lo, "upper": up, "method": m, "objs": objs, "cons": cons}
    if rng.random() < 0.35:
        wo = gen_matrix(rng, R, no)
        wc = gen_matrix(rng, R, nc) if nc else None
        for r in range(R):
            if rng.random() < 0.3:
                wo[r] = [math.nan] * no
                if wc is not None:
                    wc[r] = [math.nan] * nc
        case["warm"] = {"objs": wo, "cons": wc, "after": rng.random() < 0.5}
    return case


def gen_e2e(rng, kinds, max_R=6):
    R = rng.randint(1, max_R)
    no = rng.choice([1, 2, 2, 3])
    nc = rng.choice([0, 1, 2, 3])
    nf = rng.choice([1, 2, 2, 3])
    objs = gen_matrix(rng, R, no, ties=rng.random() < 0.08)
    cons = gen_matrix(rng, R, nc) if nc else None
    lo, up = gen_bounds(rng, nc)
    rate = rng.choice([0, 0, 0.15, 0.4, 1.0]) if rng.random() < 0.95 else 1.0
    for r in range(R):
        if rng.random() < rate:
            # the user's evaluator reports a failure through a single NaN; the evaluator must propagate it
            if cons is not None and rng.random() < 0.4:
                cons[r][rng.randrange(nc)] = math.nan
            else:
                objs[r][rng.randrange(no)] = math.nan
    wild = rng.random() < 0.05
    filters = [gen_method(rng, kinds, R, no, nc, wild=wild and i == 0) for i in range(nf)]
    ofm = [rng.randint(-1, nf - 1) for _ in range(no)] if rng.random() < 0.9 else None
    cfm = [rng.randint(-1, nf - 1) for _ in range(nc)] if nc and rng.random() < 0.85 else None
    rw = gen_rw(rng, R)
    if rng.random() < 0.7:
        rw = [x or 1.0 for x in rw]
    return {"kind": "e2e", "rw": rw, "ow": [float(x) for x in rng.choice(OW_CHOICES[no])],
            "lower": lo, "upper": up, "filters": filters, "ofm": ofm, "cfm": cfm,
            "rmin": rng.choice([0, 1, 1, 1, 2, R]), "objs": objs, "cons": cons}


def distinct_column(rng, R, den=16, lo=-4, hi=4):
    """R pairwise distinct few-bit dyadic values"""
    return [x / den for x in rng.sample(range(lo * den, hi * den + 1), R)]


def gen_point(rng, R, no, nc, P, fail_rate, pfail_rate, ties=False):
    if ties:
        objs = [[float(rng.randint(0, 2)) for _ in range(no)] for _ in range(R)]
        cons = [[float(rng.randint(0, 2)) for _ in range(nc)] for _ in range(R)] if nc else None
    else:
        cols = [distinct_column(rng, R) for _ in range(no)]
        objs = [[cols[j][r] for j in range(no)] for r in range(R)]
        ccols = [distinct_column(rng, R) for _ in range(nc)]
        cons = [[ccols[j][r] for j in range(nc)] for r in range(R)] if nc else None
    for r in range(R):
        if rng.random() < fail_rate:
            if cons is not None and rng.random() < 0.4:
                cons[r][rng.randrange(nc)] = math.nan
            else:
                objs[r][rng.randrange(no)] = math.nan
    return {"objs": objs, "cons": cons,
            "oslope": [[dyadic(rng, -4, 4, 8) for _ in range(no)] for _ in range(R)],
            "cslope": [[dyadic(rng, -4, 4, 8) for _ in range(nc)] for _ in range(R)] if nc else None,
            "pfail": [[rng.random() < pfail_rate for _ in range(P)] for _ in range(R)]}


def gen_filters(rng, kinds, R, no, nc, mode):
    """mode: mixed | same-method (all filters share one method name) | past-success (sort windows reaching the top
    ranks, cvar percentiles near 1) | wild (one invalid window / percentile)"""
    nf = rng.choice([1, 2, 2, 3, 3])
    if mode == "same-method":
        nf = rng.choice([2, 3, 3, 4])
        name = rng.choice([k for k in kinds if nc > 0 or not k.endswith("constraint")])
        fs = [gen_method(rng, [name], R, no, nc) for _ in range(nf)]
    else:
        fs = [gen_method(rng, kinds, R, no, nc, wild=(mode == "wild" and i == 0)) for i in range(nf)]
    if mode == "past-success":
        for m in fs:
            if m["name"].startswith("sort"):
                m["last"] = R - 1 if rng.random() < 0.7 else rng.randint(max(0, R - 2), R - 1)
                m["first"] = rng.randint(max(0, m["last"] - 1), m["last"])
            elif rng.random() < 0.5:
                m["p"] = rng.choice([1.0, 0.9375, 0.875])
    return fs


def gen_maps(rng, nf, no, nc, mode):
    """filter-index maps; mode objectives-only / constraints-only leave the other kind unfiltered (None or all -1)"""
    ofm = [rng.randint(-1, nf - 1) for _ in range(no)]
    cfm = [rng.randint(-1, nf - 1) for _ in range(nc)] if nc else None
    if mode == "objectives-only":
        ofm = [rng.randrange(nf) for _ in range(no)]
        cfm = None if (cfm is None or rng.random() < 0.5) else [-1] * nc
    elif mode == "constraints-only" and nc:
        cfm = [rng.randrange(nf) for _ in range(nc)]
        ofm = None if rng.random() < 0.5 else [-1] * no
    elif mode == "all":
        ofm = [rng.randrange(nf) for _ in range(no)]
        cfm = [rng.randrange(nf) for _ in range(nc)] if nc else None
    else:
        if rng.random() < 0.1:
            ofm = None
        if cfm is not None and rng.random() < 0.15:
            cfm = None
    return ofm, cfm


REQUEST_PATTERNS = [["F0", "G0"], ["F0", "G0", "G0"], ["FG0"], ["G0"], ["F0", "G1"], ["F0", "F1", "G1"], ["F0", "F1", "G0"],
                    ["F0", "G0", "F1", "G1"], ["FG0", "G0"], ["F0", "FG0", "G0"], ["F0", "G0", "F0", "G0"], ["G0", "G0"],
                    ["F0", "F1", "F2"], ["F1", "G1", "G0", "F0", "G0"], ["F0", "G1", "G0"], ["F0"], ["F0", "G0", "G1", "G1"],
                    ["B01"], ["B012"], ["B10", "G1"], ["B01", "G0", "G1"], ["F0", "B10", "G0"], ["B00", "F1"], ["B0"]]
EVALSTEP_PATTERNS = [["F0"], ["F0"], ["B01"], ["B012"]]


def _parse_request(x):
    return ["B", [int(c) for c in x[1:]]] if x[0] == "B" else [x[:-1], int(x[-1])]


def gen_seq(rng, kinds, max_R=6):
    R = rng.randint(2, max_R)
    no = rng.choice([1, 2, 2, 3])
    nc = rng.choice([0, 1, 2, 2, 3])
    P = rng.choice([1, 2, 3, 3])
    fmode = rng.choice(["mixed", "mixed", "same-method", "same-method", "past-success", "past-success"]) \
        if rng.random() < 0.95 else "wild"
    mmode = rng.choice(["any", "any", "objectives-only", "constraints-only", "all"])
    filters = gen_filters(rng, kinds, R, no, nc, fmode)
    ofm, cfm = gen_maps(rng, len(filters), no, nc, mmode)
    lo, up = gen_bounds(rng, nc)
    via = rng.choice(["calculate"] * 6 + ["step"] * 3 + ["evalstep"])
    pat = rng.choice(REQUEST_PATTERNS) if via != "evalstep" else rng.choice(EVALSTEP_PATTERNS)
    npts = 1 + max(int(c) for x in pat for c in x if c.isdigit())
    ties = rng.random() < 0.06
    fail_rate = rng.choice([0, 0, 0.15, 0.3, 0.5, 1.0]) if rng.random() < 0.97 else 1.0
    points = [gen_point(rng, R, no, nc, P, fail_rate if rng.random() < 0.8 else 0.0, rng.choice([0, 0, 0.15, 0.4]), ties)
              for _ in range(npts)]
    rw = gen_rw(rng, R)
    if rng.random() < 0.6:
        rw = [x or 1.0 for x in rw]
    return {"kind": "seq", "via": via, "rw": rw, "ow": [float(x) for x in rng.choice(OW_CHOICES[no])],
            "lower": lo, "upper": up, "filters": filters, "ofm": ofm, "cfm": cfm,
            "rmin": rng.choice([0, 1, 1, 1, 2, R]), "pmin": rng.randint(1, P), "P": P,
            "lazy": rng.random() < 0.5, "scribble": rng.random() < 0.5, "allow_nan": rng.random() < 0.3,
            "points": points, "requests": [_parse_request(x) for x in pat],
            "_mode": fmode + "/" + mmode}


def perm_values(perm):
    """distinct small dyadic values realising a permutation"""
    return [float(x) - 1.5 for x in perm]


def ulp_step(x, k):
    for _ in range(abs(k)):
        x = math.nextafter(x, math.inf if k > 0 else -math.inf)
    return x


# =====================================================================================
# C04 generators
# =====================================================================================
CVAR_KINDS = ["cvar-objective", "cvar-constraint"]
SEQ_QUICK, SEQ_THOROUGH = 500, 7000
MIXED_KINDS = ["cvar-objective", "cvar-constraint", "cvar-objective", "cvar-constraint", "sort-objective", "sort-constraint"]


def pct_grid(n):
    g = {k / (2 * n) for k in range(1, 2 * n + 1)} | {k / 10 for k in range(1, 11)} | {k / 7 for k in range(1, 8)}
    return sorted(p for p in g if 0.0 < p <= 1.0)


def gen_helper_exhaustive(tier, rng):
    full_n = 5 if tier == "quick" else 6
    for n in range(1, full_n + 1):
        grid = pct_grid(n)
        for mask in itertools.product([False, True], repeat=n):
            for perm in itertools.permutations(range(n)):
                if n <= (4 if tier == "quick" else 5):
                    ps = grid
                else:
                    ps = sorted(rng.sample(grid, 6 if tier == "quick" else 8))
                yield {"kind": "helper", "values": perm_values(perm), "failed": list(mask), "percentiles": ps,
                       "_stream": "exhaustive"}
    if tier == "thorough":
        # n = 7: every mask x every ordering of the successful values; the (never ranked) failed values are
        # filled in two ways (all better / all worse than every success)
        n = 7
        grid = pct_grid(n)
        for mask in itertools.product([False, True], repeat=n):
            ok = [i for i in range(n) if not mask[i]]
            for perm in itertools.permutations(range(len(ok))):
                for fill in (-9.0, 9.0):
                    vals = [fill] * n
                    for i, v in zip(ok, perm):
                        vals[i] = float(v) - 1.5
                    yield {"kind": "helper", "values": vals, "failed": list(mask),
                           "percentiles": sorted(rng.sample(grid, 6)), "_stream": "exhaustive7"}


def gen_helper_ties(tier, rng):
    count = 500 if tier == "quick" else 8000
    for _ in range(count):
        n = rng.randint(2, 6)
        vals = [float(rng.randint(0, 2)) for _ in range(n)]
        rate = rng.choice([0, 0.2, 0.5])
        failed = [rng.random() < rate for _ in range(n)]
        yield {"kind": "helper", "values": vals, "failed": failed,
               "percentiles": sorted(rng.sample(pct_grid(n), 5)), "_stream": "ties"}


def gen_helper_sampled(tier, rng):
    count = 350 if tier == "quick" else 7000
    for i in range(count):
        n = rng.randint(1, 40)
        vals = [dyadic(rng, -8, 8, 64) for _ in range(n)]
        rate = rng.choice([0, 0, 0.1, 0.3, 0.7])
        failed = [rng.random() < rate for _ in range(n)]
        ns = failed.count(False)
        ps = []
        for _ in range(4):
            mode = rng.random()
            if mode < 0.35 or ns == 0:
                p = rng.random() or 1.0                                     # full-precision percentile
            elif mode < 0.85:
                p = ulp_step(rng.randint(1, ns) / ns, rng.choice([-2, -1, 0, 0, 1, 2]))   # p*n within ulps of an integer
            else:
                p = rng.choice(PCT_NICE)
            if 0.0 < p <= 1.0:
                ps.append(p)
        if rng.random() < 0.1:
            ps.append(1.0)
        if ps:
            yield {"kind": "helper", "values": vals, "failed": failed, "percentiles": ps, "_stream": "sampled"}


def gen_cases(tier, rng):
    yield from gen_helper_exhaustive(tier, rng)
    yield from gen_helper_ties(tier, rng)
    yield from gen_helper_sampled(tier, rng)
    for _ in range(700 if tier == "quick" else 14000):
        c = gen_filt(rng, CVAR_KINDS)
        c["_stream"] = "filt"
        yield c
    for _ in range(200 if tier == "quick" else 6000):
        c = gen_e2e(rng, MIXED_KINDS)
        c["_stream"] = "e2e"
        yield c
    for _ in range(SEQ_QUICK if tier == "quick" else SEQ_THOROUGH):
        c = gen_seq(rng, MIXED_KINDS)
        c["_stream"] = "seq"
        yield c


# =====================================================================================
# evidence helpers
# =====================================================================================
def _has_ties(vals):
    v = [x for x in vals if x is not None]
    return len(set(v)) < len(v)


def nontrivial(case, obs):
    k = case["kind"]
    if k == "helper":
        return case["failed"].count(False) >= 2
    if k == "filt":
        return obs["outcome"][0] == "ok" and sum(1 for x in obs["outcome"][1] if x != 0) >= 1 and len(case["rw"]) >= 2
    if k == "seq":
        if case["via"] == "calculate":
            a = obs["answers"]
            return a[0] == "ok" and any(x[0] == "ok" and any(r["ow"] is not None or r["cw"] is not None for r in x[1]) for x in a[1])
        return any(r["ow"] is not None or r["cw"] is not None for rs in obs["delivered"] for r in rs)
    return obs["outcome"][0] == "ok" and (obs["outcome"][1]["ow"] is not None or obs["outcome"][1]["cw"] is not None)


def seq_features(case, obs):
    f = {"kind": "seq/" + case["via"], "seq_filters": case.get("_mode", "?").split("/")[0],
         "seq_maps": case.get("_mode", "?/?").split("/")[-1], "seq_requests": "".join(k for k, _ in case["requests"])[:8], "seq_batch": any(k == "B" for k, _ in case["requests"]),
         "seq_same_method": len({m["name"] for m in case["filters"]}) < len(case["filters"])}
    if case["via"] == "calculate":
        a = obs["answers"]
        if a[0] != "ok":
            f["seq_outcome"] = "raise:" + a[1]
        else:
            kinds = {x[0] + (":" + str(x[1]) if x[0] != "ok" else "") for x in a[1]}
            f["seq_outcome"] = "+".join(sorted(kinds))
            f["seq_gradient_only_reuse"] = any(x[0] == "ok" and [r["t"] for r in x[1]] == ["G"] for x in a[1])
    else:
        f["seq_exit"] = str(obs["exit"][1])
    return f


def features(case, obs):
    k = case["kind"]
    if k == "seq":
        return seq_features(case, obs)
    if k == "helper":
        n = len(case["values"])
        keys = [None if f else v for v, f in zip(case["values"], case["failed"])]
        return {"kind": "helper/" + case.get("_stream", "?"), "n": n if n <= 7 else "8-40",
                "failed": min(case["failed"].count(True), 4), "ties": _has_ties(keys)}
    if k == "filt":
        m = case["method"]
        f = {"kind": "filt", "method": m["name"], "outcome": obs["outcome"][0] + (":" + str(obs["outcome"][1]) if obs["outcome"][0] != "ok" else ""),
             "R": len(case["rw"])}
        if m["name"].endswith("constraint") and case.get("lower"):
            l, u = case["lower"][m["sort"]], case["upper"][m["sort"]]
            f["bounds"] = ("none" if math.isinf(l) and math.isinf(u) else "upper" if math.isinf(l) else "lower" if math.isinf(u)
                           else "eq" if l == u else "two-sided")
        if m["name"].endswith("objective"):
            f["sort_len"] = len(m["sort"])
        return f
    out = obs["outcome"]
    return {"kind": "e2e", "filters": len(case["filters"]), "objectives": len(case["ow"]), "constraints": len(case["lower"]),
            "outcome": out[0] + (":" + str(out[1]) if out[0] != "ok" else "")}


def known_signature(case, obs, violation):
    return None


def _drop_realization(case, r):
    c = {k: v for k, v in case.items() if not k.startswith("_")}
    if case["kind"] == "helper":
        c["values"] = case["values"][:r] + case["values"][r + 1:]
        c["failed"] = case["failed"][:r] + case["failed"][r + 1:]
        if "cfgw" in case:
            c["cfgw"] = case["cfgw"][:r] + case["cfgw"][r + 1:]
        return c
    c["rw"] = case["rw"][:r] + case["rw"][r + 1:]
    if sum(c["rw"]) <= 0:
        return None
    c["objs"] = case["objs"][:r] + case["objs"][r + 1:]
    if case.get("cons") is not None:
        c["cons"] = case["cons"][:r] + case["cons"][r + 1:]
    if case.get("warm") is not None:
        w = case["warm"]
        c["warm"] = {"objs": w["objs"][:r] + w["objs"][r + 1:], "after": w.get("after", False),
                     "cons": None if w.get("cons") is None else w["cons"][:r] + w["cons"][r + 1:]}
    return c


def _clean(case):
    return {a: b for a, b in case.items() if not a.startswith("_")}


def shrink_seq(case):
    base = _clean(case)
    reqs = case["requests"]
    for flag in ("lazy", "scribble"):
        if case.get(flag):
            yield {**base, flag: False}
    if case["via"] != "evalstep":
        for i in range(len(reqs) - 1, 0, -1):
            yield {**base, "requests": reqs[:i]}
        for i in range(len(reqs)):
            if len(reqs) > 1:
                yield {**base, "requests": reqs[:i] + reqs[i + 1:]}
    if len(case["filters"]) > 1:
        for i in range(len(case["filters"])):
            remap = lambda fm: None if fm is None else [(-1 if x == i else x - 1 if x > i else x) for x in fm]
            yield {**base, "filters": case["filters"][:i] + case["filters"][i + 1:], "ofm": remap(case.get("ofm")),
                   "cfm": remap(case.get("cfm"))}
    R = len(case["rw"])
    if R > 2:
        for r in range(R):
            rw = case["rw"][:r] + case["rw"][r + 1:]
            if sum(rw) <= 0:
                continue
            cut = lambda m: None if m is None else m[:r] + m[r + 1:]
            pts = [{**pt, "objs": cut(pt["objs"]), "cons": cut(pt.get("cons")), "oslope": cut(pt["oslope"]),
                    "cslope": cut(pt.get("cslope")), "pfail": cut(pt["pfail"])} for pt in case["points"]]
            fs = []
            for m in case["filters"]:
                if m["name"].startswith("sort") and m["first"] <= m["last"] < R:
                    m = {**m, "first": min(m["first"], R - 2), "last": min(m["last"], R - 2)}
                fs.append(m)
            yield {**base, "rw": rw, "points": pts, "filters": fs, "rmin": min(case["rmin"], R - 1)}


def shrink(case):
    k = case["kind"]
    if k == "seq":
        yield from shrink_seq(case)
        return
    if k == "helper":
        key = "percentiles" if "percentiles" in case else "windows"
        if len(case[key]) > 1:
            for x in case[key]:
                yield {**{a: b for a, b in case.items() if not a.startswith("_")}, key: [x]}
        n = len(case["values"])
    else:
        n = len(case["rw"])
        if k == "e2e" and len(case["filters"]) > 1:
            for i in range(len(case["filters"])):
                remap = lambda fm: None if fm is None else [(-1 if x == i else x - 1 if x > i else x) for x in fm]
                yield {**{a: b for a, b in case.items() if not a.startswith("_")},
                       "filters": case["filters"][:i] + case["filters"][i + 1:], "ofm": remap(case.get("ofm")), "cfm": remap(case.get("cfm"))}
    if n > 1:
        for r in range(n):
            c = _drop_realization(case, r)
            if c is not None:
                yield c


def search(rng, case):
    if case is None:
        yield from itertools.islice(gen_cases("quick", rng), 0, 1500)
        return
    yield from shrink(case)
    if case["kind"] == "helper":
        for _ in range(200):
            n = rng.randint(1, 10)
            yield {"kind": "helper", "values": [dyadic(rng) for _ in range(n)], "failed": [rng.random() < 0.2 for _ in range(n)],
                   "percentiles": [rng.choice(PCT_NICE) for _ in range(4)]}
    else:
        for _ in range(300):
            yield gen_filt(rng, CVAR_KINDS)
        for _ in range(200):
            yield gen_e2e(rng, MIXED_KINDS)
        for _ in range(300):
            yield gen_seq(rng, MIXED_KINDS)


RULE = ("helper/exhaustive: every failure mask x every permutation of n distinct values for n <= 5 (quick) / n <= 6 (thorough; plus n = 7 "
        "as every mask x every ordering of the successful values with the failed values filled below/above all others) on the rational "
        "percentile grid {k/(2n), k/10, k/7} in (0,1] (whole grid for n <= 4 / n <= 5, a random 6-8 point subset per case beyond); helper/ties: values from "
        "{0,1,2}; helper/sampled: n <= 40 with full-precision percentiles and the adversarial stream p = fl(k/n) +- {0,1,2} ulp; filt: "
        "DefaultRealizationFilter.get_realization_weights for cvar-objective (1-3 objectives, weighted keys) and cvar-constraint (upper, "
        "lower, equality, two-sided, unbounded; non-zero targets), all-failed and invalid percentiles included, 30% of the valid ones with p*n within 2 ulp "
        "of an integer, 35% with the same filter object called on other values before (and half of those again after) the judged call, method names also "
        "in upper case / with the plug-in prefix; e2e: EnsembleEvaluator.calculate (functions) with 1-3 filters mapped onto 1-3 objectives and 0-3 "
        "constraints; seq: 1-3 points x 17 request patterns (F, G, FG; gradient-only re-use of the cached function result, stale cache, repeated "
        "requests) on one EnsembleEvaluator (60%), through an optimizer step driven by a scripted optimizer (30%) or an evaluator step (10%); filter sets "
        "mixed / 2-4 filters of the SAME method / windows and percentiles reaching past the successful ranks; maps any / objectives only / constraints only / "
        "all functions; function failures 0-100%, perturbation failures 0-40% with perturbation_min_success 1..P; half of the cases with a lazy evaluator "
        "(garbage in every entry flagged inactive) and with a caller that overwrites every writable array it is handed. Non-trivial = at least two "
        "successful realizations (helper), an Ok answer with a non-zero weight on an ensemble of >= 2 (filt), an Ok result with a filtered weight matrix "
        "(e2e, seq); distinct = distinct case inputs.")
ASSUMPTIONS = [
    "percentile in (0,1] (pydantic rejects the rest, which is checked); ranking values are finite; the configured objective weights are "
    "normalised by the configuration (their stored values are the model's inputs); sort indices are within the number of objectives / constraints "
    "(the code raises IndexError otherwise, the model totalises)",
    "np.argsort puts NaN last and returns a permutation consistent with the values; the order of tied values is unspecified (every tie order is accepted; "
    "C04_tie_robust states the staircase for every such order)",
    "generators draw few-bit dyadic values and dyadic normalised objective weights so that the implementation's float keys are exact; "
    "percentiles are arbitrary doubles",
    "seq cases: one optimisation variable, the user's evaluator is affine around each point, perturbation magnitude 1, uniform sampler on [0.5, 1], "
    "perturbation_min_success >= 1: the per-realization least-squares gradient is then the slope up to rounding; mean estimator, no merge_realizations",
]
TRUSTED = [
    "NumPy (argsort/where/count_nonzero/maximum/dot, SVD in the 1-variable gradient estimate) as executed by the real code; pydantic validation of the option models",
    "for percentiles with p*n within 1e-12*(1+n) of an integer the implementation is judged by the staircase predicate only (exact >= 0, exact "
    "zeros, steps 1/n and total p within tolerance), not by the model's exact zero pattern (DESIGN C04 Reading)",
    "end-to-end / sequence cases in which a filter in use ranks tied values are judged by the Python oracle only (the outcome may depend on the tie order)",
    "the scripted optimizer plug-in and the table evaluator of the seq cases (harness code); EnsembleOptimizer/plan steps as executed by the real code",
    "gradient entries whose row keeps at most 1e-9 of its mass after the realizations lost to perturbation failures are zeroed are not compared with the "
    "model (whether a staircase remainder of rounding size is 0 or 1e-17 -- NaN or a slope after normalisation -- is decided by the rounding of p*n); "
    "the Python oracle still judges them against the weights the implementation reports",
]

MANIFEST = {
    "level_text": ("Machine-checked Coq proofs about the executable model of ropt's CVaR filters and of the evaluator around them (Model/Filters.v, structured like "
                   "_get_cvar_weights_from_percentile / _cvar_objectives / _cvar_constraint / get_realization_weights / _calculate_filtered_realization_weights / "
                   "calculate with its gradient cache / the exit-code test of an optimizer step), for all ensemble sizes, failure masks, value vectors, tie orders, "
                   "percentiles in (0,1] and request sequences; the model is tied to the code on every run by an in-Coq correspondence (exhaustive small-n "
                   "enumeration, sampled and ulp-adversarial percentiles, function level, through EnsembleEvaluator.calculate for functions and gradients, "
                   "and through optimizer / evaluator steps)."),
    "level_note": ("Later proof items (Proofs/FiltersStair.v): the tolerance-based predicate `stair_ok` that judges the implementation near p*n-integers is proved sound and complete - C04_checker_sound, C04_checker_near_staircase, C04_checker_rank_exact, C04_checker_accepts_every_tie_order, C04_checker_accepts_model, C04_checker_exact. Proved (Props/C04.v, 21 theorems, all 'Closed under the global context'): C04_staircase, C04_exact_zeros, C04_failed_zero, C04_fraction_bounds, "
                   "C04_nonneg, C04_sum_p, C04_tail_mean, C04_worst_objective, C04_worst_constraint, C04_worst_direction, C04_empty_is_too_few_objective/_constraint, "
                   "C04_unique, C04_unique_distinct, C04_tie_robust + C04_model_is_along (the code along ANY ranking argsort may return), C04_tail_mean_tie_invariant, "
                   "C04_reported_value (the value the evaluator reports is the tail mean), C04_gradient_tail_mean, C04_abort_is_too_few, C04_checker_sound_exact.  "
                   "Not proved: that the tolerance-based staircase predicate of the checker (stair_ok) accepts every tie order / only staircases (it is compared with "
                   "the model on all cases with distinct keys and mirrored by the independent Python oracle).  Trusted / modelled, not verified: np.argsort (any order "
                   "consistent with the keys; ties accepted in the implementation's favour), float rounding of int(p*n) (for p*n within 1e-12(1+n) of an integer the "
                   "implementation is judged by the staircase predicate only), the least-squares gradient of one affine realization (= its slope), pydantic option "
                   "validation; Coq kernel + VM; the Python drivers."),
    "technique": "Coq proof (induction over lists, sorting/counting facts, Q arithmetic, request-sequence invariant) on an executable Gallina model + in-Coq differential correspondence with the real filter/evaluator code",
    "design_ref": "DESIGN.md section 4, C04",
}
