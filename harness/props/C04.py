"""C04 -- CVaR filter weights realize the tail expectation over the worst fraction.

Correspondence (all compared inside Coq with Model/Filters.v through Check/Chk_C04.v):
  helper : ropt.plugins.realization_filter.default._get_cvar_weights_from_percentile on (ranking values,
           failure mask) for a list of percentiles;
  filt   : DefaultRealizationFilter(config, 0).get_realization_weights with cvar-objective (one or several
           objectives) and cvar-constraint (every bound kind), incl. all-failed and invalid percentiles;
  e2e    : EnsembleEvaluator(...).calculate with 1-3 filters mapped onto 1-3 objectives and 0-3 constraints:
           weight rows reported in the results and the function values (tail mean).

This module also hosts the drivers / Gallina printers / oracles shared with C05 (props/C05.py imports them).
"""
from __future__ import annotations

import itertools
import math
from fractions import Fraction

import coqio as cq

ID = "C04"
THEOREM_FILE = "Props/C04.v"
CHK_MODULE = "Check.Chk_C04"
CASE_TYPE = "Chk_C04.case"
CHECK_FN = "Chk_C04.check_case"
HEADER = "From Ropt Require Import Model.Filters."
SHARD_SIZE = 150
PARALLEL = True
EXHAUSTIVE = {"quick": True, "thorough": True}

TOL_ABS = Fraction(1, 10 ** 12)
TOL_REL = Fraction(1, 10 ** 9)


# =====================================================================================
# shared: running the real code
# =====================================================================================
def _np(a):
    import numpy as np
    return np.array(a, dtype=np.float64)


def _fl(a):
    """numpy array -> nested lists of python floats (NaN/inf kept)."""
    return a.tolist()


def method_config(m):
    if m["name"] in ("sort-objective", "sort-constraint"):
        return {"method": m["name"], "options": {"sort": m["sort"], "first": m["first"], "last": m["last"]}}
    return {"method": m["name"], "options": {"sort": m["sort"], "percentile": m["p"]}}


def build_config(case, filters):
    """EnOptConfig of a filt/e2e case; returns (config, inputs-in-force dict)."""
    import numpy as np
    from ropt.config.enopt import EnOptConfig
    cfg = {"variables": {"initial_values": [0.0]},
           "realizations": {"weights": case["rw"]},
           "objectives": {"weights": case["ow"]},
           "realization_filters": [method_config(m) for m in filters]}
    if case.get("rmin") is not None:
        cfg["realizations"]["realization_min_success"] = case["rmin"]
    if case.get("ofm") is not None:
        cfg["objectives"]["realization_filters"] = case["ofm"]
    if case.get("lower"):
        cfg["nonlinear_constraints"] = {"lower_bounds": case["lower"], "upper_bounds": case["upper"]}
        if case.get("cfm") is not None:
            cfg["nonlinear_constraints"]["realization_filters"] = case["cfm"]
    config = EnOptConfig.model_validate(cfg)
    nlc = config.nonlinear_constraints
    force = {"rw_n": _fl(config.realizations.weights), "ow_n": _fl(config.objectives.weights),
             "lower_n": [] if nlc is None else _fl(nlc.lower_bounds),
             "upper_n": [] if nlc is None else _fl(nlc.upper_bounds),
             "rmin_n": int(config.realizations.realization_min_success)}
    return config, force


def run_filt(case):
    from pydantic import ValidationError
    from ropt.exceptions import ConfigError, OptimizationAborted
    from ropt.plugins.realization_filter.default import DefaultRealizationFilter
    config, obs = build_config(case, [case["method"]])
    objs = _np(case["objs"])
    cons = None if case.get("cons") is None else _np(case["cons"])
    try:
        flt = DefaultRealizationFilter(config, 0)
        w = flt.get_realization_weights(objs, cons)
        obs["outcome"] = ["ok", _fl(_np(w))]
    except OptimizationAborted as e:
        obs["outcome"] = ["abort", int(e.exit_code.value)]
    except (ConfigError, ValidationError, ZeroDivisionError, IndexError, AssertionError, ValueError) as e:
        obs["outcome"] = ["raise", type(e).__name__]
    return obs


def run_e2e(case):
    import warnings
    import numpy as np
    from pydantic import ValidationError
    from ropt.ensemble_evaluator import EnsembleEvaluator
    from ropt.evaluator import EvaluatorResult
    from ropt.exceptions import ConfigError, OptimizationAborted
    from ropt.plugins import PluginManager
    config, obs = build_config(case, case["filters"])
    O = _np(case["objs"])
    C = None if case.get("cons") is None else _np(case["cons"])

    def ev(variables, ctx):
        return EvaluatorResult(objectives=O[ctx.realizations].copy(),
                               constraints=None if C is None else C[ctx.realizations].copy())

    try:
        with warnings.catch_warnings():
            warnings.simplefilter("ignore")
            ee = EnsembleEvaluator(config, None, ev, PluginManager())
            res = ee.calculate(np.zeros(1), compute_functions=True, compute_gradients=False)
        r = res[0]
        rz = r.realizations
        out = {"failed": [bool(b) for b in rz.failed_realizations],
               "ow": None if rz.objective_weights is None else _fl(rz.objective_weights),
               "cw": None if rz.constraint_weights is None else _fl(rz.constraint_weights),
               "functions": None}
        if r.functions is not None:
            out["functions"] = {"objectives": _fl(r.functions.objectives),
                                "constraints": None if r.functions.constraints is None else _fl(r.functions.constraints)}
        obs["outcome"] = ["ok", out]
    except OptimizationAborted as e:
        obs["outcome"] = ["abort", int(e.exit_code.value)]
    except (ConfigError, ValidationError, ZeroDivisionError, IndexError, AssertionError, ValueError) as e:
        obs["outcome"] = ["raise", type(e).__name__]
    return obs


def run_cvar_helper(case):
    import numpy as np
    from ropt.plugins.realization_filter.default import _get_cvar_weights_from_percentile
    values = _np(case["values"])
    failed = np.array(case["failed"], dtype=bool)
    answers = []
    for p in case["percentiles"]:
        try:
            answers.append(["ok", _fl(_np(_get_cvar_weights_from_percentile(values.copy(), failed.copy(), float(p))))])
        except (ZeroDivisionError, IndexError, ValueError) as e:
            answers.append(["raise", type(e).__name__])
    return {"answers": answers}


def run_impl(case):
    k = case["kind"]
    if k == "helper":
        return run_cvar_helper(case)
    if k == "filt":
        return run_filt(case)
    return run_e2e(case)


# =====================================================================================
# shared: Gallina printers
# =====================================================================================
# Rationals are printed with hexadecimal numerals: Coq parses a 53-bit hexadecimal literal about twice as fast as
# the decimal one, and the case files are parsing-bound.
def q(x) -> str:
    """exact rational value of a finite float / int / Fraction as `(Q_ n d)`"""
    if isinstance(x, Fraction):
        f = x
    else:
        x = float(x)
        if math.isnan(x) or math.isinf(x):
            raise ValueError(f"not finite: {x}")
        f = Fraction(x)
    n, d = f.numerator, f.denominator
    return f"(Q_ (-{hex(-n)}) {hex(d)})" if n < 0 else f"(Q_ {hex(n)} {hex(d)})"


def oq(x) -> str:
    x = float(x)
    return "None" if math.isnan(x) else f"(Some {q(x)})"


def er(x) -> str:
    x = float(x)
    if math.isnan(x):
        raise ValueError("nan is not an extended real")
    if math.isinf(x):
        return "PInf" if x > 0 else "NInf"
    return f"(Fin {q(x)})"


def qs(xs) -> str:
    return cq.lst(q(x) for x in xs)


def oqs(xs) -> str:
    return cq.lst(oq(x) for x in xs)


def ers(xs) -> str:
    return cq.lst(er(x) for x in xs)


def qmat(m) -> str:
    return cq.lst(qs(r) for r in m)


def oqmat(m) -> str:
    return cq.lst(oqs(r) for r in m)


def method_term(m):
    n = m["name"]
    if n == "sort-objective":
        return f"(SortObjective {cq.nats(m['sort'])} {cq.nat(m['first'])} {cq.nat(m['last'])})"
    if n == "sort-constraint":
        return f"(SortConstraint {cq.nat(m['sort'])} {cq.nat(m['first'])} {cq.nat(m['last'])})"
    if n == "cvar-objective":
        return f"(CvarObjective {cq.nats(m['sort'])} {q(m['p'])})"
    return f"(CvarConstraint {cq.nat(m['sort'])} {q(m['p'])})"


def config_term(obs):
    return f"(Build_config {qs(obs['rw_n'])} {qs(obs['ow_n'])} {ers(obs['lower_n'])} {ers(obs['upper_n'])})"


def omat(m):
    return "None" if m is None else f"(Some {oqmat(m)})"


def outcome_term(o, ok_printer):
    if o[0] == "ok":
        return f"(Ok {ok_printer(o[1])})"
    if o[0] == "abort":
        return f"(Abort {cq.z(o[1])})"
    return f"(Raise {cq.s(o[1])})"


def finite_or_raise(xs):
    for x in xs:
        if not math.isfinite(x):
            raise ValueError("non-finite weight in an Ok answer")
    return xs


def filt_term(case, obs):
    out = outcome_term(obs["outcome"], lambda w: qs(finite_or_raise(w)))
    return f"(Filt {config_term(obs)} {method_term(case['method'])} {oqmat(case['objs'])} {omat(case.get('cons'))} {out})"


def _evaluation_term(o):
    def qm(m):
        return "None" if m is None else f"(Some {qmat([finite_or_raise(r) for r in m])})"
    fn = o["functions"]
    if fn is None:
        fterm = "None"
    else:
        c = fn["constraints"]
        fterm = f"(Some ({oqs(fn['objectives'])}, {'None' if c is None else '(Some ' + oqs(c) + ')'}))"
    return f"(Build_evaluation {cq.bs(o['failed'])} {qm(o['ow'])} {qm(o['cw'])} {fterm})"


def magnitude(case):
    m = 1.0
    for mat in (case["objs"], case.get("cons") or []):
        for row in mat:
            for x in row:
                if math.isfinite(x):
                    m = max(m, abs(x))
    return m


def e2e_term(case, obs):
    zopt = lambda l: "None" if l is None else f"(Some {cq.zs(l)})"
    out = outcome_term(obs["outcome"], _evaluation_term)
    return (f"(E2E (Build_e2e_case {config_term(obs)} {cq.lst(method_term(m) for m in case['filters'])} "
            f"{zopt(case.get('ofm'))} {zopt(case.get('cfm'))} {cq.nat(obs['rmin_n'])} {oqmat(case['objs'])} "
            f"{omat(case.get('cons'))} {q(magnitude(case))} {out}))")


def coq_case(case, obs):
    k = case["kind"]
    if k == "helper":
        ans = []
        for p, a in zip(case["percentiles"], obs["answers"]):
            if a[0] != "ok":
                raise ValueError("helper raised " + a[1])
            ans.append(f"({q(p)}, {qs(finite_or_raise(a[1]))})")
        return f"(Helper {qs(case['values'])} {cq.bs(case['failed'])} {cq.lst(ans)})"
    if k == "filt":
        return filt_term(case, obs)
    return e2e_term(case, obs)


# =====================================================================================
# shared: independent oracles (property predicates on the implementation's output, exact rationals)
# =====================================================================================
F = Fraction


def _close(x, m, S=1):
    return abs(F(x) - F(m)) <= TOL_ABS * F(S) + TOL_REL * abs(F(m))


def nan_rows(mat):
    return [any(math.isnan(x) for x in row) for row in mat]


def propagate(objs, cons):
    f = nan_rows(objs)
    if cons is not None:
        f = [a or b for a, b in zip(f, nan_rows(cons))]
    return f


def objective_keys(objs, ow_n, sort, failed):
    """weighted sum of the chosen objectives (exact), None for failed realizations"""
    keys = []
    for row, f in zip(objs, failed):
        if f:
            keys.append(None)
        elif len(ow_n) > 1:
            keys.append(sum(F(row[j]) * F(ow_n[j]) for j in sort))
        else:
            keys.append(F(row[sort[0]]))
    return keys


def cvar_constraint_keys(cons, lo, up, sort, failed):
    """ascending = worst first.  upper-bounded: largest value worst; lower-bounded: smallest worst; equality:
    farthest from the target worst; two-sided / unbounded: the text does not fix an order -> total tie."""
    keys = []
    l, u = lo[sort], up[sort]
    for row, f in zip(cons, failed):
        if f:
            keys.append(None)
            continue
        c = F(row[sort])
        if math.isinf(l) and math.isinf(u):
            keys.append(F(0))
        elif math.isinf(l):
            keys.append(-c)
        elif math.isinf(u):
            keys.append(c)
        elif l == u:
            keys.append(-abs(c - F(l)))
        else:
            keys.append(F(0))
    return keys


def oracle_sort(keys, cfgw, first, last, w):
    """keys: list of Fraction | None (failed).  w: observed weights.  Tie-robust rank-window predicate."""
    n = len(keys)
    if len(w) != n:
        return {"clause": "shape", "detail": [len(w), n]}
    S = [r for r in range(n) if keys[r] is not None]
    for r in range(n):
        if keys[r] is None and w[r] != 0:
            return {"clause": "failed-realization-has-weight", "detail": [r, w[r]]}
        if w[r] != 0 and w[r] != cfgw[r]:
            return {"clause": "weight-neither-configured-nor-zero", "detail": [r, w[r], cfgw[r]]}
    for r in S:
        lo = sum(1 for s in S if keys[s] < keys[r])
        ge = sum(1 for s in S if keys[s] <= keys[r])
        quota = max(0, min(ge, last + 1) - max(lo, first))
        grp = [s for s in S if keys[s] == keys[r]]
        sel = sum(1 for s in grp if w[s] != 0)
        amb = sum(1 for s in grp if cfgw[s] == 0)
        if not (sel <= quota <= sel + amb):
            return {"clause": "rank-window", "detail": {"realization": r, "ranks": [lo, ge - 1], "window": [first, last],
                                                        "must_select": quota, "selected": sel, "zero_weight_members": amb}}
    return None


def sort_may_abort(keys, cfgw, first, last):
    S = [r for r in range(len(keys)) if keys[r] is not None]
    for r in S:
        lo = sum(1 for s in S if keys[s] < keys[r])
        ge = sum(1 for s in S if keys[s] <= keys[r])
        quota = max(0, min(ge, last + 1) - max(lo, first))
        if quota > sum(1 for s in S if keys[s] == keys[r] and cfgw[s] <= 0):
            return False
    return True


def oracle_cvar(keys, p, w):
    """keys ascending = worst first (None = failed).  Staircase predicate with ties in the implementation's favour."""
    n_all = len(keys)
    if len(w) != n_all:
        return {"clause": "shape", "detail": [len(w), n_all]}
    for r in range(n_all):
        if not math.isfinite(w[r]):
            return {"clause": "weight-not-finite", "detail": [r, w[r]]}
        if w[r] < 0:
            return {"clause": "negative-weight", "detail": [r, w[r]]}
        if keys[r] is None and w[r] != 0:
            return {"clause": "failed-realization-has-weight", "detail": [r, w[r]]}
    S = [r for r in range(n_all) if keys[r] is not None]
    n = len(S)
    if n == 0:
        return None
    order = sorted(S, key=lambda r: (keys[r], -F(w[r])))
    v = [F(w[r]) for r in order]
    u = F(1, n)
    last_nz = max((i for i, x in enumerate(v) if x != 0), default=-1)
    if last_nz < 0:
        return {"clause": "total-mass-not-p", "detail": "all weights zero"}
    for i in range(last_nz):
        if not _close(v[i], u):
            return {"clause": "staircase", "detail": {"rank": i, "weight": float(v[i]), "expected": float(u),
                                                      "note": "a worse (or equally bad) realization than a weighted one must carry 1/n"}}
    if not (0 <= v[last_nz] <= u + TOL_ABS + TOL_REL * u):
        return {"clause": "staircase", "detail": {"rank": last_nz, "weight": float(v[last_nz]), "max": float(u)}}
    if not _close(sum(v), F(p)):
        return {"clause": "total-mass-not-p", "detail": [float(sum(v)), p]}
    return None


def method_keys(m, obs, objs, cons):
    """(keys, failed-by-row) the property ranks by for this method; keys None where failed."""
    name = m["name"]
    if name.endswith("objective"):
        failed = [math.isnan(row[0]) for row in objs]
        keys = objective_keys(objs, obs["ow_n"], m["sort"], failed)
        if name.startswith("cvar"):
            keys = [None if k is None else -k for k in keys]
        return keys
    if cons is None:
        return None
    failed = [math.isnan(row[0]) for row in cons]
    if name == "sort-constraint":
        return [None if f else F(row[m["sort"]]) for row, f in zip(cons, failed)]
    return cvar_constraint_keys(cons, obs["lower_n"], obs["upper_n"], m["sort"], failed)


def oracle_weights(m, obs, objs, cons, w):
    """property predicate for one weight vector produced by filter m"""
    keys = method_keys(m, obs, objs, cons)
    if keys is None:
        return {"clause": "constraint-filter-without-constraints-returned-weights", "detail": m}
    if m["name"].startswith("sort"):
        v = oracle_sort(keys, obs["rw_n"], m["first"], m["last"], w)
    else:
        v = oracle_cvar(keys, m["p"], w)
    if v is None and not any(x > 0 for x in w):
        v = {"clause": "no-positive-weight-but-no-TOO_FEW_REALIZATIONS", "detail": w}
    return v


def method_valid(m, R):
    if m["name"].startswith("sort"):
        return m["first"] <= m["last"] < R
    return 0.0 < m["p"] <= 1.0


def oracle_filter_outcome(m, obs, objs, cons, outcome):
    R = len(obs["rw_n"])
    if not method_valid(m, R):
        if outcome[0] != "raise":
            return {"clause": "invalid-window-or-percentile-not-rejected-at-construction", "detail": [m, outcome[0]]}
        return None
    if outcome[0] == "raise":
        if cons is None and m["name"].endswith("constraint"):
            return None
        return {"clause": "exception-instead-of-weights-or-TOO_FEW_REALIZATIONS", "detail": outcome[1]}
    keys = method_keys(m, obs, objs, cons)
    if outcome[0] == "abort":
        if outcome[1] != 1:
            return {"clause": "wrong-exit-code", "detail": outcome[1]}
        if keys is None:
            return {"clause": "abort-without-constraints", "detail": m}
        if m["name"].startswith("sort"):
            if not sort_may_abort(keys, obs["rw_n"], m["first"], m["last"]):
                return {"clause": "TOO_FEW_REALIZATIONS-although-window-selects-positive-weight", "detail": m}
        elif any(k is not None for k in keys):
            return {"clause": "TOO_FEW_REALIZATIONS-although-a-realization-succeeded", "detail": m}
        return None
    return oracle_weights(m, obs, objs, cons, outcome[1])


def oracle_e2e(case, obs):
    """rows of the reported weight matrices belong to the mapped filter; values are the normalised weighted means"""
    out = obs["outcome"]
    filters = case["filters"]
    R = len(obs["rw_n"])
    if any(not method_valid(m, R) for m in filters):
        if out[0] != "raise":
            return {"clause": "invalid-window-or-percentile-not-rejected-at-construction", "detail": out[0]}
        return None
    if out[0] == "raise":
        return {"clause": "exception-instead-of-result-or-TOO_FEW_REALIZATIONS", "detail": out[1]}
    failed = propagate(case["objs"], case.get("cons"))
    nanrow = lambda mat: None if mat is None else [[math.nan] * len(row) if f else row for row, f in zip(mat, failed)]
    objs, cons = nanrow(case["objs"]), nanrow(case.get("cons"))
    used = sorted({k for fm in (case.get("ofm"), case.get("cfm") if case.get("lower") else None) if fm is not None
                   for k in fm if 0 <= k < len(filters)})
    if out[0] == "abort":
        if out[1] != 1:
            return {"clause": "wrong-exit-code", "detail": out[1]}
        for k in used:
            if oracle_filter_outcome(filters[k], obs, objs, cons, out) is None:
                return None
        return {"clause": "TOO_FEW_REALIZATIONS-although-every-filter-selects-positive-weight", "detail": used}
    o = out[1]
    if o["failed"] != failed:
        return {"clause": "failed-flags", "detail": [o["failed"], failed]}
    for label, fm, mat, count in (("objective", case.get("ofm"), o["ow"], len(obs["ow_n"])),
                                  ("constraint", case.get("cfm") if case.get("lower") else None, o["cw"], len(obs["lower_n"]))):
        rows_used = fm is not None and any(0 <= k < len(filters) for k in fm)
        if mat is None:
            if rows_used:
                return {"clause": "rows", "detail": f"{label} weights missing although a filter is mapped"}
            continue
        if len(mat) != count:
            return {"clause": "rows", "detail": f"{label} weight matrix has {len(mat)} rows, expected {count}"}
        for j, row in enumerate(mat):
            k = fm[j] if fm is not None else -1
            if 0 <= k < len(filters):
                v = oracle_weights(filters[k], obs, objs, cons, row)
                if v is not None:
                    return {"clause": "rows:" + v["clause"], "detail": {"function": f"{label} {j}", "filter": k, "inner": v["detail"]}}
            elif row != obs["rw_n"]:
                return {"clause": "rows", "detail": {"function": f"{label} {j}", "note": "unfiltered row differs from the configured weights",
                                                     "row": row}}
    fn = o["functions"]
    ns = sum(1 for f in failed if not f)
    if ns < obs["rmin_n"]:
        if fn is not None:
            return {"clause": "value-produced-below-min-success", "detail": ns}
        return None
    if fn is None:
        return {"clause": "no-value", "detail": ns}
    if ns == 0:
        return None
    S = magnitude(case)
    for label, vals, mat, data in (("objective", fn["objectives"], o["ow"], objs), ("constraint", fn["constraints"], o["cw"], cons)):
        if vals is None:
            continue
        for j, x in enumerate(vals):
            w = [F(0) if f else F(a) for a, f in zip(mat[j] if mat is not None else obs["rw_n"], failed)]
            tot = sum(w)
            if tot == 0:
                continue
            m = sum(wr * F(data[r][j]) for r, wr in enumerate(w) if not failed[r]) / tot
            if math.isnan(x) or not _close(x, m, S):
                return {"clause": "value-not-tail-mean", "detail": {"function": f"{label} {j}", "value": x, "expected": float(m)}}
    return None


def oracle(case, obs):
    k = case["kind"]
    if k == "helper":
        keys = [None if f else F(v) for v, f in zip(case["values"], case["failed"])]
        for p, a in zip(case["percentiles"], obs["answers"]):
            if a[0] != "ok":
                return {"clause": "exception-instead-of-weights", "detail": [p, a[1]]}
            v = oracle_cvar(keys, p, a[1])
            if v is not None:
                v["detail"] = {"percentile": p, "inner": v["detail"]}
                return v
        return None
    if k == "filt":
        return oracle_filter_outcome(case["method"], obs, case["objs"], case.get("cons"), obs["outcome"])
    return oracle_e2e(case, obs)


# =====================================================================================
# shared: generator pieces
# =====================================================================================
OW_CHOICES = {1: [[1.0]], 2: [[1, 1], [1, 3], [3, 1], [5, 3], [1, 7], [1, 0], [0, 1]],
              3: [[1, 1, 2], [2, 1, 1], [1, 2, 1], [1, 4, 3], [3, 0, 1], [5, 2, 1]]}
RW_POOL = [0, 0, 1, 1, 2, 3, 4, 5, 6, 7]


def dyadic(rng, lo=-4, hi=4, den=16):
    return rng.randint(lo * den, hi * den) / den


def gen_rw(rng, R):
    while True:
        w = [rng.choice(RW_POOL) for _ in range(R)]
        if rng.random() < 0.3:
            w = [x or 1 for x in w]
        if sum(w) > 0:
            return [float(x) for x in w]


def gen_matrix(rng, R, cols, ties=False):
    if ties:
        return [[float(rng.randint(0, 2)) for _ in range(cols)] for _ in range(R)]
    return [[dyadic(rng) for _ in range(cols)] for _ in range(R)]


def inject_failures(rng, objs, cons, rate):
    """NaN in one entry of a failed realization (the evaluator propagates it), or whole rows (filter level)."""
    R = len(objs)
    failed = [rng.random() < rate for _ in range(R)]
    return failed


def gen_bounds(rng, nc):
    lo, up = [], []
    for _ in range(nc):
        kind = rng.choice(["upper", "lower", "eq", "two", "none"]) if rng.random() < 0.9 else "none"
        t = dyadic(rng, -2, 2, 4)
        if kind == "upper":
            lo.append(-math.inf); up.append(t)
        elif kind == "lower":
            lo.append(t); up.append(math.inf)
        elif kind == "eq":
            lo.append(t); up.append(t)
        elif kind == "two":
            lo.append(t); up.append(t + rng.randint(1, 8) / 4)
        else:
            lo.append(-math.inf); up.append(math.inf)
    return lo, up


PCT_NICE = [0.5, 0.25, 0.75, 1.0, 0.125, 0.375, 0.3, 0.1, 0.9, 0.7, 0.2, 0.6, 1 / 3, 2 / 3, 0.05, 0.95]


def gen_method(rng, kinds, R, no, nc, wild=False):
    choices = [k for k in kinds if nc > 0 or not k.endswith("constraint")]
    name = rng.choice(choices)
    m = {"name": name}
    if name.endswith("objective"):
        if no == 1:
            m["sort"] = [0]
        else:
            m["sort"] = sorted(rng.sample(range(no), rng.randint(1, no)))
    else:
        m["sort"] = rng.randrange(nc)
    if name.startswith("sort"):
        if wild and rng.random() < 0.5:
            m["first"], m["last"] = rng.choice([(0, R), (R, R), (1, 0), (R - 1, R + 2), (R + 1, R + 1), (2, 1)])
        else:
            f = rng.randrange(R)
            m["first"], m["last"] = f, rng.randint(f, R - 1)
    else:
        if wild and rng.random() < 0.5:
            m["p"] = rng.choice([0.0, -0.25, 1.5, 1.0000000000000002])
        else:
            m["p"] = rng.choice(PCT_NICE) if rng.random() < 0.7 else rng.randint(1, 64) / 64
    return m


def gen_filt(rng, kinds, wild_rate=0.08, max_R=8):
    R = rng.randint(1, max_R)
    no = rng.choice([1, 1, 2, 2, 3])
    nc = rng.choice([0, 1, 2, 3]) if any(k.endswith("constraint") for k in kinds) else 0
    if all(k.endswith("constraint") for k in kinds):
        nc = max(nc, 1)
    ties = rng.random() < 0.25
    objs = gen_matrix(rng, R, no, ties)
    cons = gen_matrix(rng, R, nc, ties) if nc else None
    lo, up = gen_bounds(rng, nc)
    rate = rng.choice([0, 0, 0.2, 0.5, 1.0]) if rng.random() < 0.9 else 1.0
    for r in range(R):
        if rng.random() < rate:
            objs[r] = [math.nan] * no
            if cons is not None:
                cons[r] = [math.nan] * nc
    m = gen_method(rng, kinds, R, no, nc, wild=rng.random() < wild_rate)
    return {"kind": "filt", "rw": gen_rw(rng, R), "ow": [float(x) for x in rng.choice(OW_CHOICES[no])],
            "lower": lo, "upper": up, "method": m, "objs": objs, "cons": cons}


def gen_e2e(rng, kinds, max_R=6):
    R = rng.randint(1, max_R)
    no = rng.choice([1, 2, 2, 3])
    nc = rng.choice([0, 1, 2, 3])
    nf = rng.choice([1, 2, 2, 3])
    objs = gen_matrix(rng, R, no, ties=rng.random() < 0.08)
    cons = gen_matrix(rng, R, nc) if nc else None
    lo, up = gen_bounds(rng, nc)
    rate = rng.choice([0, 0, 0.15, 0.4, 1.0]) if rng.random() < 0.95 else 1.0
    for r in range(R):
        if rng.random() < rate:
            # the user's evaluator reports a failure through a single NaN; the evaluator must propagate it
            if cons is not None and rng.random() < 0.4:
                cons[r][rng.randrange(nc)] = math.nan
            else:
                objs[r][rng.randrange(no)] = math.nan
    wild = rng.random() < 0.05
    filters = [gen_method(rng, kinds, R, no, nc, wild=wild and i == 0) for i in range(nf)]
    ofm = [rng.randint(-1, nf - 1) for _ in range(no)] if rng.random() < 0.9 else None
    cfm = [rng.randint(-1, nf - 1) for _ in range(nc)] if nc and rng.random() < 0.85 else None
    rw = gen_rw(rng, R)
    if rng.random() < 0.7:
        rw = [x or 1.0 for x in rw]
    return {"kind": "e2e", "rw": rw, "ow": [float(x) for x in rng.choice(OW_CHOICES[no])],
            "lower": lo, "upper": up, "filters": filters, "ofm": ofm, "cfm": cfm,
            "rmin": rng.choice([0, 1, 1, 1, 2, R]), "objs": objs, "cons": cons}


def perm_values(perm):
    """distinct small dyadic values realising a permutation"""
    return [float(x) - 1.5 for x in perm]


def ulp_step(x, k):
    for _ in range(abs(k)):
        x = math.nextafter(x, math.inf if k > 0 else -math.inf)
    return x


# =====================================================================================
# C04 generators
# =====================================================================================
CVAR_KINDS = ["cvar-objective", "cvar-constraint"]
MIXED_KINDS = ["cvar-objective", "cvar-constraint", "cvar-objective", "cvar-constraint", "sort-objective", "sort-constraint"]


def pct_grid(n):
    g = {k / (2 * n) for k in range(1, 2 * n + 1)} | {k / 10 for k in range(1, 11)} | {k / 7 for k in range(1, 8)}
    return sorted(p for p in g if 0.0 < p <= 1.0)


def gen_helper_exhaustive(tier, rng):
    full_n = 5 if tier == "quick" else 6
    for n in range(1, full_n + 1):
        grid = pct_grid(n)
        for mask in itertools.product([False, True], repeat=n):
            for perm in itertools.permutations(range(n)):
                if n <= (4 if tier == "quick" else 5):
                    ps = grid
                else:
                    ps = sorted(rng.sample(grid, 6 if tier == "quick" else 8))
                yield {"kind": "helper", "values": perm_values(perm), "failed": list(mask), "percentiles": ps,
                       "_stream": "exhaustive"}
    if tier == "thorough":
        # n = 7: every mask x every ordering of the successful values; the (never ranked) failed values are
        # filled in two ways (all better / all worse than every success)
        n = 7
        grid = pct_grid(n)
        for mask in itertools.product([False, True], repeat=n):
            ok = [i for i in range(n) if not mask[i]]
            for perm in itertools.permutations(range(len(ok))):
                for fill in (-9.0, 9.0):
                    vals = [fill] * n
                    for i, v in zip(ok, perm):
                        vals[i] = float(v) - 1.5
                    yield {"kind": "helper", "values": vals, "failed": list(mask),
                           "percentiles": sorted(rng.sample(grid, 6)), "_stream": "exhaustive7"}


def gen_helper_ties(tier, rng):
    count = 500 if tier == "quick" else 8000
    for _ in range(count):
        n = rng.randint(2, 6)
        vals = [float(rng.randint(0, 2)) for _ in range(n)]
        rate = rng.choice([0, 0.2, 0.5])
        failed = [rng.random() < rate for _ in range(n)]
        yield {"kind": "helper", "values": vals, "failed": failed,
               "percentiles": sorted(rng.sample(pct_grid(n), 5)), "_stream": "ties"}


def gen_helper_sampled(tier, rng):
    count = 350 if tier == "quick" else 7000
    for i in range(count):
        n = rng.randint(1, 40)
        vals = [dyadic(rng, -8, 8, 64) for _ in range(n)]
        rate = rng.choice([0, 0, 0.1, 0.3, 0.7])
        failed = [rng.random() < rate for _ in range(n)]
        ns = failed.count(False)
        ps = []
        for _ in range(4):
            mode = rng.random()
            if mode < 0.35 or ns == 0:
                p = rng.random() or 1.0                                     # full-precision percentile
            elif mode < 0.85:
                p = ulp_step(rng.randint(1, ns) / ns, rng.choice([-2, -1, 0, 0, 1, 2]))   # p*n within ulps of an integer
            else:
                p = rng.choice(PCT_NICE)
            if 0.0 < p <= 1.0:
                ps.append(p)
        if rng.random() < 0.1:
            ps.append(1.0)
        if ps:
            yield {"kind": "helper", "values": vals, "failed": failed, "percentiles": ps, "_stream": "sampled"}


def gen_cases(tier, rng):
    yield from gen_helper_exhaustive(tier, rng)
    yield from gen_helper_ties(tier, rng)
    yield from gen_helper_sampled(tier, rng)
    for _ in range(700 if tier == "quick" else 14000):
        c = gen_filt(rng, CVAR_KINDS)
        c["_stream"] = "filt"
        yield c
    for _ in range(450 if tier == "quick" else 8000):
        c = gen_e2e(rng, MIXED_KINDS)
        c["_stream"] = "e2e"
        yield c


# =====================================================================================
# evidence helpers
# =====================================================================================
def _has_ties(vals):
    v = [x for x in vals if x is not None]
    return len(set(v)) < len(v)


def nontrivial(case, obs):
    k = case["kind"]
    if k == "helper":
        return case["failed"].count(False) >= 2
    if k == "filt":
        return obs["outcome"][0] == "ok" and sum(1 for x in obs["outcome"][1] if x != 0) >= 1 and len(case["rw"]) >= 2
    return obs["outcome"][0] == "ok" and (obs["outcome"][1]["ow"] is not None or obs["outcome"][1]["cw"] is not None)


def features(case, obs):
    k = case["kind"]
    if k == "helper":
        n = len(case["values"])
        keys = [None if f else v for v, f in zip(case["values"], case["failed"])]
        return {"kind": "helper/" + case.get("_stream", "?"), "n": n if n <= 7 else "8-40",
                "failed": min(case["failed"].count(True), 4), "ties": _has_ties(keys)}
    if k == "filt":
        m = case["method"]
        f = {"kind": "filt", "method": m["name"], "outcome": obs["outcome"][0] + (":" + str(obs["outcome"][1]) if obs["outcome"][0] != "ok" else ""),
             "R": len(case["rw"])}
        if m["name"].endswith("constraint") and case.get("lower"):
            l, u = case["lower"][m["sort"]], case["upper"][m["sort"]]
            f["bounds"] = ("none" if math.isinf(l) and math.isinf(u) else "upper" if math.isinf(l) else "lower" if math.isinf(u)
                           else "eq" if l == u else "two-sided")
        if m["name"].endswith("objective"):
            f["sort_len"] = len(m["sort"])
        return f
    out = obs["outcome"]
    return {"kind": "e2e", "filters": len(case["filters"]), "objectives": len(case["ow"]), "constraints": len(case["lower"]),
            "outcome": out[0] + (":" + str(out[1]) if out[0] != "ok" else "")}


def known_signature(case, obs, violation):
    return None


def _drop_realization(case, r):
    c = {k: v for k, v in case.items() if not k.startswith("_")}
    if case["kind"] == "helper":
        c["values"] = case["values"][:r] + case["values"][r + 1:]
        c["failed"] = case["failed"][:r] + case["failed"][r + 1:]
        if "cfgw" in case:
            c["cfgw"] = case["cfgw"][:r] + case["cfgw"][r + 1:]
        return c
    c["rw"] = case["rw"][:r] + case["rw"][r + 1:]
    if sum(c["rw"]) <= 0:
        return None
    c["objs"] = case["objs"][:r] + case["objs"][r + 1:]
    if case.get("cons") is not None:
        c["cons"] = case["cons"][:r] + case["cons"][r + 1:]
    return c


def shrink(case):
    k = case["kind"]
    if k == "helper":
        key = "percentiles" if "percentiles" in case else "windows"
        if len(case[key]) > 1:
            for x in case[key]:
                yield {**{a: b for a, b in case.items() if not a.startswith("_")}, key: [x]}
        n = len(case["values"])
    else:
        n = len(case["rw"])
        if k == "e2e" and len(case["filters"]) > 1:
            for i in range(len(case["filters"])):
                remap = lambda fm: None if fm is None else [(-1 if x == i else x - 1 if x > i else x) for x in fm]
                yield {**{a: b for a, b in case.items() if not a.startswith("_")},
                       "filters": case["filters"][:i] + case["filters"][i + 1:], "ofm": remap(case.get("ofm")), "cfm": remap(case.get("cfm"))}
    if n > 1:
        for r in range(n):
            c = _drop_realization(case, r)
            if c is not None:
                yield c


def search(rng, case):
    if case is None:
        yield from itertools.islice(gen_cases("quick", rng), 0, 1500)
        return
    yield from shrink(case)
    if case["kind"] == "helper":
        for _ in range(200):
            n = rng.randint(1, 10)
            yield {"kind": "helper", "values": [dyadic(rng) for _ in range(n)], "failed": [rng.random() < 0.2 for _ in range(n)],
                   "percentiles": [rng.choice(PCT_NICE) for _ in range(4)]}
    else:
        for _ in range(300):
            yield gen_filt(rng, CVAR_KINDS)
        for _ in range(200):
            yield gen_e2e(rng, MIXED_KINDS)


RULE = ("helper/exhaustive: every failure mask x every permutation of n distinct values for n <= 5 (quick) / n <= 6 (thorough; plus n = 7 "
        "as every mask x every ordering of the successful values with the failed values filled below/above all others) on the rational "
        "percentile grid {k/(2n), k/10, k/7} in (0,1] (whole grid for n <= 4 / n <= 5, a random 6-8 point subset per case beyond); helper/ties: values from "
        "{0,1,2}; helper/sampled: n <= 40 with full-precision percentiles and the adversarial stream p = fl(k/n) +- {0,1,2} ulp; filt: "
        "DefaultRealizationFilter.get_realization_weights for cvar-objective (1-3 objectives, weighted keys) and cvar-constraint (upper, "
        "lower, equality, two-sided, unbounded), all-failed and invalid percentiles included; e2e: EnsembleEvaluator.calculate with 1-3 "
        "filters mapped onto 1-3 objectives and 0-3 constraints. Non-trivial = at least two successful realizations (helper), an Ok answer "
        "with a non-zero weight on an ensemble of >= 2 (filt), an Ok result with a filtered weight matrix (e2e); distinct = distinct case inputs.")
ASSUMPTIONS = [
    "percentile in (0,1] (pydantic rejects the rest, which is checked); ranking values are finite; the configured objective weights are "
    "normalised by the configuration (their stored values are the model's inputs)",
    "np.argsort puts NaN last and returns a permutation consistent with the values; the order of tied values is unspecified (every tie order is accepted)",
    "generators draw few-bit dyadic values and dyadic normalised objective weights so that the implementation's float keys are exact; "
    "percentiles are arbitrary doubles",
]
TRUSTED = [
    "NumPy (argsort/where/count_nonzero/maximum/dot) as executed by the real code; pydantic validation of the option models",
    "for percentiles with p*n within 1e-12*(1+n) of an integer the implementation is judged by the staircase predicate only (exact >= 0, exact "
    "zeros, steps 1/n and total p within tolerance), not by the model's exact zero pattern (DESIGN C04 Reading)",
]

MANIFEST = {
    "level_text": ("Machine-checked Coq proofs about the executable model of ropt's CVaR filters (Model/Filters.v, structured like "
                   "_get_cvar_weights_from_percentile / _cvar_objectives / _cvar_constraint / get_realization_weights), for all ensemble sizes, "
                   "failure masks, value vectors and percentiles in (0,1]; the model is tied to the code on every run by an in-Coq correspondence "
                   "(exhaustive small-n enumeration plus sampled and ulp-adversarial percentiles, function level and through EnsembleEvaluator.calculate)."),
    "level_note": ("Proved (Props/C04.v, all 'Closed under the global context'): C04_staircase, C04_exact_zeros, C04_failed_zero, C04_fraction_bounds, "
                   "C04_nonneg, C04_sum_p, C04_tail_mean, C04_worst_objective, C04_worst_constraint, C04_worst_direction, "
                   "C04_empty_is_too_few_objective/_constraint.  Trusted / modelled, not verified: np.argsort (any order consistent with the keys; "
                   "ties accepted in the implementation's favour), float rounding of int(p*n) (for p*n within 1e-12(1+n) of an integer the "
                   "implementation is judged by the staircase predicate only), pydantic option validation; Coq kernel + VM; the Python drivers."),
    "technique": "Coq proof (induction over lists, sorting facts, Q arithmetic) on an executable Gallina model + in-Coq differential correspondence with the real filter code",
    "design_ref": "DESIGN.md section 4, C04",
}
