"""C17 -- samplers obey the perturbation-sample contract, including QMC point integrity.

Correspondence: a real EnsembleEvaluator is built from a real EnOptConfig (R realizations, P
perturbations, V variables, optional variables.mask, optional gradient.samplers assignment, K sampler
configurations, seed); `generate_samples()` is called on the samplers `_init_samplers` created, in a
schedule that visits every sampler three times.  A twin generator `default_rng(seed)` and twin SciPy
objects (same distribution parameters / same engine class and dimension, constructed and called in the
same order) provide the raw draw of every call.  Coq evaluates Model/Sampler.v `generate` on the raw
draw and compares with the returned array (exactly for the stats methods, 1e-15 for the QMC scaling),
and evaluates shape, exact zeros, sharing, range and Latin-hypercube strata directly on the output.

End to end: the schedule also holds gradient evaluations through the public path
(`EnsembleEvaluator.calculate`, both the function+gradient request and the gradient-only request that
re-uses the cached function result).  The twin then draws for every sampler that has a variable, in the
order of first appearance in gradient.samplers (the property's calling order; all samplers share one
generator), and `GradientEvaluations.perturbed_variables` must equal variables + magnitudes * (sum of the
samplers' outputs) -- which Coq computes with the model of `_perturb_variables` -- and must leave every
variable that is fixed or has no sampler exactly unchanged.
"""
from __future__ import annotations

import itertools
import math
from fractions import Fraction

import coqio as cq

ID = "C17"
THEOREM_FILE = "Props/C17.v"
CHK_MODULE = "Check.Chk_C17"
CASE_TYPE = "Chk_C17.case"
CHECK_FN = "Chk_C17.check_case"
HEADER = "From Coq Require Import Uint63.\nFrom Ropt Require Import Model.Sampler.\nImport Chk_C17."
SHARD_SIZE = 40
PARALLEL = True
CASE_TIMEOUT = 60
EXHAUSTIVE = {"quick": False, "thorough": False}
RULE = ("systematic family: all six methods x shared on/off x every variables.mask for V <= 4 (single sampler), half of them "
        "expressed as gradient.samplers assignments with -1; random family: 1-4 sampler configurations of random methods, "
        "random assignment arrays (incl. -1 and samplers left without variables), random variables.mask, R <= 5, P <= 8, V <= 6 "
        "(230 cases quick / 8000 thorough; thorough also enumerates the masks of V = 5), "
        "realization weights with exact zeros in a third of the cases with R >= 2, method spellings ('scipy/Sobol', 'default'), user options for a minority of samplers, int and tuple seeds; every sampler "
        "is called three times in a (shuffled) round-robin schedule into which one to three gradient evaluations through "
        "EnsembleEvaluator.calculate are inserted (function+gradient request or function request followed by a gradient-only "
        "request; few-bit dyadic variables and per-variable magnitudes; no finite bounds); further streams: 2-4 samplers of the SAME "
        "method, assignments whose first-appearance order is not the sorted order, samplers configured but unused, sampler index "
        ">= 2, options given as {} . Non-trivial = at least one call returned an array with a "
        "non-zero entry and R*P >= 2; distinct = distinct case dictionaries.")
ASSUMPTIONS = [
    "the SciPy distributions and QMC engines are oracles: the raw draw of every call is obtained from an identically seeded twin "
    "(numpy default_rng(seed); uniform/norm/truncnorm.rvs(size=(R',P,D), random_state=rng); Sobol/Halton/LatinHypercube(D, seed=rng).random(R'*P))",
    "range [-1,1] of uniform(loc=-1, scale=2) / truncnorm(a=-1, b=1) draws and [0,1) of QMC points is SciPy's contract; it is checked on every output, not proved",
    "all samplers of one evaluator share one numpy Generator in the order _init_samplers creates them (observed and reproduced by the twin); "
    "for a gradient evaluation the twin draws for the samplers in order of first appearance in gradient.samplers (the model's sampler_order, "
    "which Coq compares with the order the driver used)",
    "gradient evaluations are issued only when at least one variable is free, with no finite bounds (so _apply_bounds is the identity) and "
    "absolute few-bit magnitudes",
]
TRUSTED = ["numpy.random.default_rng / scipy.stats / scipy.stats.qmc determinism for equal seeds (twin construction)"]

STATS = ("uniform", "norm", "truncnorm")
QMC = ("sobol", "halton", "lhs")
METHODS = STATS + QMC
COQ_METHOD = {"uniform": "Uniform", "norm": "Norm", "truncnorm": "Truncnorm", "sobol": "Sobol", "halton": "Halton", "lhs": "Lhs"}
# documented defaults of the built-in methods (ropt.plugins.sampler.scipy docstring / property text)
DEFAULTS = {"uniform": {"loc": -1.0, "scale": 2.0}, "truncnorm": {"a": -1.0, "b": 1.0}, "norm": {}}
SPELLINGS = {
    "uniform": ["uniform", "scipy/uniform", "Uniform", "SCIPY/UNIFORM"],
    "norm": ["norm", "scipy/norm", "default", "scipy/default", "Scipy/Default", "NORM"],
    "truncnorm": ["truncnorm", "scipy/truncnorm", "TruncNorm"],
    "sobol": ["sobol", "scipy/sobol", "Sobol", "scipy/SOBOL"],
    "halton": ["halton", "scipy/halton", "HALTON"],
    "lhs": ["lhs", "scipy/lhs", "LHS", "Scipy/Lhs"],
}
USER_OPTIONS = {
    "uniform": [{"loc": 0.0}, {"scale": 1.0}, {"loc": -2.0, "scale": 4.0}],
    "norm": [{"loc": 1.0}, {"scale": 0.5}],
    "truncnorm": [{"a": -0.5}, {"b": 0.5}, {"a": -2.0, "b": 2.0}],
    "sobol": [{"scramble": False}],
    "halton": [{"scramble": False}],
    "lhs": [{"scramble": False}],
}


def canonical_method(name: str) -> str:
    m = name.lower().rpartition("/")[2]
    return "norm" if m == "default" else m


# ---- generators -----------------------------------------------------------------
def _schedule(rng, K, rounds=3, shuffle=True, e2e=0):
    out = []
    for _ in range(rounds):
        ks = list(range(K))
        if shuffle:
            rng.shuffle(ks)
        out += ks
    for _ in range(e2e):      # gradient evaluations through EnsembleEvaluator.calculate, anywhere in the schedule
        out.insert(rng.randrange(len(out) + 1), rng.choice(["EB", "EG"]))
    return out


MAGS = [0.0625, 0.125, 0.25, 0.5, 1.0, 2.0]
XS = [-1.0, -0.5, 0.0, 0.0, 0.25, 0.75, 1.5]


def _weights(rng, R):
    """Realization weights; a third of the cases with R >= 2 have exact zeros (never all): a zero-weight realization still
    gets its own perturbations (per realization unless shared)."""
    if R < 2 or rng.random() < 0.6:
        return None
    w = [rng.choice([0.0, 0.0, 1.0, 0.5, 2.0]) for _ in range(R)]
    w[rng.randrange(R)] = 1.0
    if all(x > 0 for x in w):
        w[(w.index(1.0) + 1) % R] = 0.0
    return w


def _point(rng, V):
    """Variables and per-variable perturbation magnitudes of the gradient evaluations (few-bit dyadics)."""
    if rng.random() < 0.3:
        return [0.0] * V, [rng.choice(MAGS)] * V
    return [rng.choice(XS) for _ in range(V)], [rng.choice(MAGS) for _ in range(V)]


def calling_order(case):
    """The samplers _perturb_variables must call, in order, according to the property text / the documented
    behaviour: without gradient.samplers sampler 0; otherwise the non-negative entries in order of first appearance."""
    if case["assign"] is None:
        return [0]
    order = []
    for a in case["assign"]:
        if a >= 0 and a not in order:
            order.append(a)
    return order


def _seed(rng):
    r = rng.random()
    if r < 0.6:
        return rng.randrange(0, 2 ** 31)
    if r < 0.8:
        return rng.randrange(0, 20)
    return [rng.randrange(0, 2 ** 20), rng.randrange(0, 1000)]


def _sampler(rng, method, shared, spell=False, opts=False):
    s = {"method": rng.choice(SPELLINGS[method]) if spell else method, "shared": bool(shared)}
    if opts:
        s["options"] = dict(rng.choice(USER_OPTIONS[method]))
    return s


def e2e_possible(case):
    """A gradient can be evaluated at all: some sampler is called and at least one variable is free (with every
    variable fixed ropt has no gradient to estimate and raises inside the least-squares solver; that is not a
    statement about samplers)."""
    return bool(calling_order(case)) and (case["varmask"] is None or any(case["varmask"]))


def handled_mask(case, k):
    """The variables sampler k handles according to the *property text*: not fixed and assigned to k."""
    V = case["V"]
    vm, asg = case["varmask"], case["assign"]
    return [(vm is None or bool(vm[v])) and (asg is None or asg[v] == k) for v in range(V)]


def gen_cases(tier, rng):
    thorough = tier != "quick"
    # -- systematic: every mask for V <= 4, every method, shared on/off, as variables.mask and as assignment
    for V in range(1, 6 if thorough else 5):
        for mask in itertools.product([True, False], repeat=V):
            for method in METHODS:
                for shared in (False, True):
                    R, P = rng.choice([1, 2, 3]), rng.choice([1, 2, 3, 4])
                    as_assign = rng.random() < 0.5
                    x, mag = _point(rng, V)
                    base = {"R": R, "P": P, "V": V, "seed": _seed(rng), "samplers": [_sampler(rng, method, shared)],
                            "schedule": [0, rng.choice(["EB", "EG"]), 0], "x": x, "mag": mag, "weights": _weights(rng, R)}
                    if all(mask) and rng.random() < 0.5:
                        yield {**base, "varmask": None, "assign": None}
                    elif as_assign:
                        c = {**base, "varmask": None, "assign": [0 if b else -1 for b in mask]}
                        if not any(mask):           # no variable has a sampler: ropt cannot compute a gradient at all
                            c["schedule"] = [0, 0, 0]
                        yield c
                    else:
                        c = {**base, "varmask": list(mask), "assign": None}
                        if not any(mask):
                            c["schedule"] = [0, 0, 0]
                        yield c
    # -- random multi-sampler configurations
    n = 8000 if thorough else 230
    for i in range(n):
        yield random_case(rng, big=thorough and i % 4 == 0)
    # -- streams aimed at entry sequences / input regions the random family reaches only rarely
    for i in range(2400 if thorough else 100):
        yield special_case(rng, i)


def random_case(rng, big=False):
    for _ in range(50):
        R = rng.choice([1, 2, 2, 3, 3, 4, 5])
        P = rng.choice([1, 2, 3, 3, 4, 5, 6, 8])
        V = rng.choice([1, 2, 3, 3, 4, 4, 5, 6])
        if not big and R * P * V > 60:
            continue
        K = rng.choice([1, 1, 2, 2, 3, 4])
        samplers = [_sampler(rng, rng.choice(METHODS), rng.random() < 0.4, spell=rng.random() < 0.3, opts=rng.random() < 0.15)
                    for _ in range(K)]
        varmask = None if rng.random() < 0.4 else [rng.random() < 0.7 for _ in range(V)]
        if K == 1 and rng.random() < 0.4:
            assign = None
        else:
            assign = [rng.choice([-1] + list(range(K)) * 3) for _ in range(V)]
        x, mag = _point(rng, V)
        case = {"R": R, "P": P, "V": V, "varmask": varmask, "assign": assign, "samplers": samplers,
                "seed": _seed(rng), "x": x, "mag": mag, "weights": _weights(rng, R)}
        case["schedule"] = _schedule(rng, K, e2e=rng.choice([1, 1, 2, 3]) if e2e_possible(case) else 0)
        return case
    raise RuntimeError("generator could not produce a case")


def special_case(rng, i):
    """Five streams: (0) 2-4 samplers of the SAME method (different shared flags / options), (1) an assignment whose
    first-appearance order is not the sorted order and whose samplers all draw from the shared generator, (2) a sampler
    that is configured but has no variable, placed BEFORE the ones in use, (3) sampler index >= 2 together with a
    variables.mask and -1 entries, (4) options given as an explicit empty dictionary + only gradient evaluations."""
    kind = i % 5
    R, P = rng.choice([1, 2, 3]), rng.choice([1, 2, 3, 4])
    V = rng.choice([3, 4, 5])
    if kind == 0:
        K = rng.choice([2, 3, 4])
        m = rng.choice(METHODS)
        samplers = [_sampler(rng, m, k % 2 == rng.randrange(2), opts=rng.random() < 0.3) for k in range(K)]
        assign = [k % K for k in range(V)]
        rng.shuffle(assign)
        varmask = None if rng.random() < 0.5 else [rng.random() < 0.8 for _ in range(V)]
    elif kind == 1:
        K = rng.choice([2, 3])
        samplers = [_sampler(rng, rng.choice(METHODS), rng.random() < 0.4) for _ in range(K)]
        order = list(range(K))
        while order == sorted(order):
            rng.shuffle(order)
        assign = (order + [rng.choice(order + [-1]) for _ in range(V)])[:max(V, K)]
        V = len(assign)
        varmask = None
    elif kind == 2:
        K = rng.choice([2, 3])
        samplers = [_sampler(rng, rng.choice(QMC + STATS), rng.random() < 0.4) for _ in range(K)]
        unused = rng.randrange(K - 1)           # never the last one
        used = [k for k in range(K) if k != unused]
        assign = [rng.choice(used + [-1]) for _ in range(V)]
        assign[rng.randrange(V)] = used[-1]
        varmask = None if rng.random() < 0.5 else [rng.random() < 0.8 for _ in range(V)]
    elif kind == 3:
        K = rng.choice([3, 4])
        samplers = [_sampler(rng, rng.choice(METHODS), rng.random() < 0.4) for _ in range(K)]
        assign = [rng.choice([-1, 0, 1] + [2, K - 1] * 2) for _ in range(V)]
        assign[rng.randrange(V)] = K - 1
        varmask = [rng.random() < 0.75 for _ in range(V)]
    else:
        K = rng.choice([1, 2])
        samplers = [dict(_sampler(rng, rng.choice(METHODS), rng.random() < 0.4), options={}) for _ in range(K)]
        assign = None if K == 1 else [rng.randrange(K) for _ in range(V)]
        varmask = None if rng.random() < 0.5 else [rng.random() < 0.7 for _ in range(V)]
    x, mag = _point(rng, V)
    case = {"R": R, "P": P, "V": V, "varmask": varmask, "assign": assign, "samplers": samplers,
            "seed": _seed(rng), "x": x, "mag": mag, "weights": _weights(rng, R)}
    n_e = rng.choice([2, 3]) if e2e_possible(case) else 0
    case["schedule"] = (["EB", "EG", "EB"][:n_e] if kind == 4 and n_e else _schedule(rng, K, rounds=2, e2e=n_e))
    return case


# ---- running the real code ------------------------------------------------------
_PM = None


def _config_dict(case):
    d = {"variables": {"initial_values": list(case.get("x") or [0.0] * case["V"])},
         "realizations": {"weights": list(case.get("weights") or [1.0] * case["R"])},
         "gradient": {"number_of_perturbations": case["P"],
                      "seed": tuple(case["seed"]) if isinstance(case["seed"], list) else case["seed"]},
         "samplers": [dict(s) for s in case["samplers"]]}
    if case.get("mag") is not None:
        d["gradient"]["perturbation_magnitudes"] = list(case["mag"])
    if case["varmask"] is not None:
        d["variables"]["mask"] = list(case["varmask"])
    if case["assign"] is not None:
        d["gradient"]["samplers"] = list(case["assign"])
    return d


def _twin(case):
    """Twin generator and SciPy objects, built from the case alone (no ropt code involved)."""
    import numpy as np
    from scipy.stats import norm, truncnorm, uniform
    from scipy.stats.qmc import Halton, LatinHypercube, Sobol
    seed = tuple(case["seed"]) if isinstance(case["seed"], list) else case["seed"]
    rng = np.random.default_rng(seed)
    dists = {"uniform": uniform, "norm": norm, "truncnorm": truncnorm}
    engines = {"sobol": Sobol, "halton": Halton, "lhs": LatinHypercube}
    objs = []
    for k, s in enumerate(case["samplers"]):
        m = canonical_method(s["method"])
        D = sum(handled_mask(case, k))
        opts = dict(s.get("options") or {})
        if m in dists:
            objs.append(("stats", dists[m], {**DEFAULTS[m], **opts}, D))
        else:
            objs.append(("qmc", engines[m](D, seed=rng, **opts), None, D))
    return rng, objs


def _twin_draw(rng, obj, Rp, P):
    import warnings
    kind, o, opts, D = obj
    with warnings.catch_warnings():
        warnings.simplefilter("ignore")
        if kind == "stats":
            return o.rvs(size=(Rp, P, D), random_state=rng, **opts).reshape(-1).tolist()
        return o.random(Rp * P).tolist()


def run_impl(case):
    global _PM
    import warnings

    import numpy as np
    from ropt.config.enopt import EnOptConfig
    from ropt.ensemble_evaluator import EnsembleEvaluator
    from ropt.plugins import PluginManager
    if _PM is None:
        _PM = PluginManager()
    from ropt.evaluator import EvaluatorResult
    from ropt.results import GradientResults

    def evaluator(variables, context):      # deterministic; one objective
        return EvaluatorResult(objectives=np.sum((variables - 0.25) ** 2, axis=1, keepdims=True))

    config = EnOptConfig.model_validate(_config_dict(case))
    ee = EnsembleEvaluator(config, None, evaluator, _PM)
    samplers = ee._samplers  # noqa: SLF001 - what _init_samplers created
    masks = [None if s._mask is None else [bool(b) for b in s._mask] for s in samplers]  # noqa: SLF001
    rng, objs = _twin(case)
    calls, e2e = [], []
    x = np.array(case.get("x") or [0.0] * case["V"], dtype=np.float64)
    order = calling_order(case)
    for k in case["schedule"]:
        if isinstance(k, str):                  # a gradient evaluation through the public path
            if not e2e_possible(case):
                continue
            raws = [[j, _twin_draw(rng, objs[j], 1 if case["samplers"][j]["shared"] else case["R"], case["P"])] for j in order]
            rec = {"op": k, "raws": raws, "out": None, "exc": None}
            try:
                with warnings.catch_warnings():
                    warnings.simplefilter("ignore")
                    if k == "EG":               # function request, then the gradient-only request at the same point
                        ee.calculate(x.copy(), compute_functions=True, compute_gradients=False)
                        res = ee.calculate(x.copy(), compute_functions=False, compute_gradients=True)
                    else:
                        res = ee.calculate(x.copy(), compute_functions=True, compute_gradients=True)
                g = [r for r in res if isinstance(r, GradientResults)]
                pv = np.asarray(g[0].evaluations.perturbed_variables)
                rec["shape"] = list(pv.shape)
                rec["dtype"] = str(pv.dtype)
                rec["out"] = pv.astype(float).tolist() if pv.ndim == 3 else None
                if pv.ndim != 3:
                    rec["exc"] = "NotThreeDimensional"
            except Exception as e:  # noqa: BLE001 - the exception class is the observation
                rec["exc"] = type(e).__name__
                rec["msg"] = str(e)[:200]
            e2e.append(rec)
            continue
        shared = bool(case["samplers"][k]["shared"])
        raw = _twin_draw(rng, objs[k], 1 if shared else case["R"], case["P"])
        rec = {"k": k, "raw": raw, "out": None, "exc": None}
        if k >= len(samplers):
            rec["exc"] = "NoSuchSampler"
        else:
            try:
                with warnings.catch_warnings():
                    warnings.simplefilter("ignore")
                    out = samplers[k].generate_samples()
                out = np.asarray(out)
                rec["dtype"] = str(out.dtype)
                rec["shape"] = list(out.shape)
                rec["out"] = out.astype(float).tolist() if out.ndim == 3 else None
                if out.ndim != 3:
                    rec["exc"] = "NotThreeDimensional"
                # the returned array belongs to the caller: ropt's own _perturb_variables accumulates the other
                # samplers' output into it (`samples += ...`).  Do the same; later calls must not be affected.
                if out.flags.writeable:
                    out += 0.625
            except Exception as e:  # noqa: BLE001 - the exception class is the observation
                rec["exc"] = type(e).__name__
                rec["msg"] = str(e)[:200]
        calls.append(rec)
    return {"created": len(samplers), "masks": masks, "calls": calls, "e2e": e2e}


# ---- Gallina printing -----------------------------------------------------------
def fq(x) -> str:
    """Finite float as (Fi sign m e) / (F m e) = +-m * 2^-e (exact)."""
    x = float(x)
    if math.isnan(x) or math.isinf(x):
        raise ValueError("not finite")
    f = Fraction(x)
    n, d = f.numerator, f.denominator
    e = d.bit_length() - 1
    if d != 1 << e:
        raise ValueError("denominator is not a power of two")
    if abs(n) < 1 << 62:
        return f"(Fi {'true' if n < 0 else 'false'} {abs(n)} {e})"
    return f"(F ({n}) {e})" if n < 0 else f"(F {n} {e})"


def _fqs(xs):
    return cq.lst(fq(x) for x in xs)


def _arr3(a):
    return cq.lst(cq.lst(_fqs(v) for v in blk) for blk in a)


def _omask(m):
    return "None" if m is None else f"(Some {cq.bs(m)})"


def coq_case(case, obs):
    scf = []
    for s in case["samplers"]:
        scf.append(f"(Build_scfg {COQ_METHOD[canonical_method(s['method'])]} {cq.b(s['shared'])} {cq.b(not s.get('options'))})")
    calls = []
    for c in obs["calls"]:
        m = canonical_method(case["samplers"][c["k"]]["method"])
        raw = f"(RawStats {_fqs(c['raw'])})" if m in STATS else f"(RawQmc {cq.lst(_fqs(p) for p in c['raw'])})"
        out = "None" if c["out"] is None else f"(Some {_arr3(c['out'])})"
        calls.append(f"(Build_call {cq.nat(c['k'])} {raw} {out})")
    assign = "None" if case["assign"] is None else f"(Some {cq.zs(case['assign'])})"
    e2e = []
    for e in obs.get("e2e", []):
        raws = []
        for j, raw in e["raws"]:
            m = canonical_method(case["samplers"][j]["method"])
            raws.append(f"({cq.nat(j)}, " + (f"RawStats {_fqs(raw)}" if m in STATS else f"RawQmc {cq.lst(_fqs(p) for p in raw)}") + ")")
        out = "None" if e["out"] is None else f"(Some {_arr3(e['out'])})"
        e2e.append(f"(Build_e2e {cq.lst(raws)} {_fqs(case['x'])} {_fqs(case['mag'])} {out})")
    return (f"(Build_case {cq.nat(case['R'])} {cq.nat(case['P'])} {cq.nat(case['V'])} {_omask(case['varmask'])} {assign} "
            f"{cq.lst(scf)} {cq.lst(_omask(m) for m in obs['masks'])} {cq.lst(calls)} {cq.lst(e2e)})")


# ---- the property predicate on the implementation's output (no model) --------------
def _violations(case, obs):
    """All clause violations of the case, each (clause, call index, detail)."""
    R, P, V = case["R"], case["P"], case["V"]
    out = []
    for ci, c in enumerate(obs["calls"]):
        k = c["k"]
        s = case["samplers"][k]
        m = canonical_method(s["method"])
        shared = bool(s["shared"])
        default = not s.get("options")
        hm = handled_mask(case, k)
        hv = [v for v in range(V) if hm[v]]
        if c["out"] is None:
            out.append(("returns-array", ci, {"exception": c["exc"], "method": m, "handled": len(hv)}))
            continue
        a = c["out"]
        if c.get("shape") != [R, P, V] or c.get("dtype") != "float64":
            out.append(("shape", ci, {"shape": c.get("shape"), "dtype": c.get("dtype"), "expected": [R, P, V]}))
            continue
        bad = [(r, p, v) for r in range(R) for p in range(P) for v in range(V) if not hm[v] and a[r][p][v] != 0.0]
        if bad:
            out.append(("unhandled-zero", ci, {"index": bad[0], "value": a[bad[0][0]][bad[0][1]][bad[0][2]]}))
        if shared and any(a[r] != a[0] for r in range(1, R)):
            out.append(("shared-identical", ci, {"method": m}))
        if not shared and hv and P >= 1 and any(a[r] == a[q] for r in range(R) for q in range(r + 1, R)):
            out.append(("drawn-per-realization", ci, {"method": m, "detail": "two realizations received identical perturbations"}))
        if m != "norm" and default:
            rb = [(r, p, v) for r in range(R) for p in range(P) for v in range(V) if not -1.0 <= a[r][p][v] <= 1.0]
            if rb:
                out.append(("range", ci, {"index": rb[0], "value": a[rb[0][0]][rb[0][1]][rb[0][2]]}))
        Rp = 1 if shared else R
        D = len(hv)
        raw = c["raw"]
        # each perturbation vector is one draw / one engine point (per realization unless shared)
        for r in range(R):
            rr = 0 if shared else r
            for p in range(P):
                for j, v in enumerate(hv):
                    if m in STATS:
                        exp = raw[(rr * P + p) * D + j]
                        ok = a[r][p][v] == exp
                    else:
                        exp = 2.0 * raw[rr * P + p][j] - 1.0
                        ok = abs(a[r][p][v] - exp) <= 1e-15
                    if not ok:
                        out.append(("point-integrity" if m in QMC else "draws-per-realization", ci,
                                    {"method": m, "index": [r, p, v], "value": a[r][p][v], "expected": exp}))
                        break
                else:
                    continue
                break
            else:
                continue
            break
        if m == "lhs":
            n = Rp * P
            vecs = [a[r][p] for r in range(Rp) for p in range(P)]
            for v in hv:
                strata = sorted(math.floor(Fraction(n) * (Fraction(vec[v]) + 1) / 2) for vec in vecs)
                if strata != list(range(n)):
                    out.append(("lhs-stratification", ci, {"variable": v, "strata": strata, "n": n}))
                    break
    out += _e2e_violations(case, obs)
    if obs.get("created") != len(case["samplers"]):
        out.append(("one-sampler-per-configuration", -1, {"created": obs.get("created"), "configured": len(case["samplers"])}))
    return out


def _e2e_violations(case, obs):
    """perturbed_variables - variables of a gradient evaluation: magnitudes * the sample of the variable's own sampler
    (one draw / one engine point per perturbation vector, per realization unless shared); exactly nothing for a
    variable that is fixed or has no sampler."""
    R, P, V = case["R"], case["P"], case["V"]
    out = []
    for ei, e in enumerate(obs.get("e2e", [])):
        if e["out"] is None:
            out.append(("gradient-evaluation-returns-perturbed-variables", ei, {"exception": e["exc"], "msg": e.get("msg"), "op": e["op"]}))
            continue
        if e.get("shape") != [R, P, V] or e.get("dtype") != "float64":
            out.append(("perturbed-variables-shape", ei, {"shape": e.get("shape"), "expected": [R, P, V]}))
            continue
        a, x, mag = e["out"], case["x"], case["mag"]
        owner = {}
        for j, raw in e["raws"]:
            hm = handled_mask(case, j)
            hv = [v for v in range(V) if hm[v]]
            for pos, v in enumerate(hv):
                owner[v] = (j, pos, len(hv), raw)
        bad = None
        for r in range(R):
            for p in range(P):
                for v in range(V):
                    if v not in owner:
                        if a[r][p][v] != x[v]:
                            bad = ("unhandled-variable-perturbed", {"index": [r, p, v], "value": a[r][p][v], "variable": x[v]})
                    else:
                        j, pos, D, raw = owner[v]
                        sc = case["samplers"][j]
                        rr = 0 if sc["shared"] else r
                        if canonical_method(sc["method"]) in STATS:
                            smp = raw[(rr * P + p) * D + pos]
                        else:
                            smp = 2.0 * raw[rr * P + p][pos] - 1.0
                        exp = x[v] + mag[v] * smp
                        if abs(a[r][p][v] - exp) > 1e-12:
                            bad = ("perturbation-is-not-the-own-samplers-sample", {"index": [r, p, v], "sampler": j, "value": a[r][p][v],
                                                                                   "expected": exp, "op": e["op"]})
                    if bad:
                        break
                if bad:
                    break
            if bad:
                break
        if bad:
            out.append((bad[0], ei, bad[1]))
    return out


def oracle(case, obs):
    vs = _violations(case, obs)
    if not vs:
        return None
    clause, ci, detail = vs[0]
    return {"clause": clause, "call": ci, "detail": detail}


def known_signature(case, obs, violation):
    return None   # no known finding for C17 (F17 and F17b are repaired; reverting either must alarm)


def nontrivial(case, obs):
    if case["R"] * case["P"] < 2:
        return False
    return any(c["out"] is not None and any(x != 0.0 for blk in c["out"] for vec in blk for x in vec) for c in obs["calls"])


def features(case, obs):
    ms = sorted({canonical_method(s["method"]) for s in case["samplers"]})
    return {"K": len(case["samplers"]), "R": case["R"], "P": case["P"], "V": case["V"],
            "methods": "+".join(ms), "shared": sum(bool(s["shared"]) for s in case["samplers"]),
            "varmask": case["varmask"] is not None, "assign": case["assign"] is not None,
            "options": any(s.get("options") for s in case["samplers"]),
            "zero_weight": bool(case.get("weights")) and 0.0 in case["weights"],
            "raised": sum(c["out"] is None for c in obs["calls"]), "gradient_evaluations": len(obs.get("e2e", [])),
            "order_not_sorted": calling_order(case) != sorted(calling_order(case)),
            "unused_sampler": any(k not in calling_order(case) for k in range(len(case["samplers"]))) and case["assign"] is not None,
            "max_index": max(calling_order(case) or [-1]), "empty_sampler": any(m is not None and not any(m) for m in obs["masks"]),
            "same_method_twice": len(case["samplers"]) > len({canonical_method(s["method"]) for s in case["samplers"]})}


def shrink(case):
    K = len(case["samplers"])
    sched = case["schedule"]
    for i in range(len(sched)):
        if len(sched) > 1:
            yield {**case, "schedule": sched[:i] + sched[i + 1:]}
    if case.get("weights") and case["R"] > 1:
        yield {**case, "R": case["R"] - 1, "weights": case["weights"][:-1] if any(w > 0 for w in case["weights"][:-1]) else None}
    elif case["R"] > 1:
        yield {**case, "R": case["R"] - 1}
    if case["P"] > 1:
        yield {**case, "P": case["P"] - 1}
    if case["V"] > 1:
        V = case["V"] - 1
        yield {**case, "V": V, "varmask": None if case["varmask"] is None else case["varmask"][:V],
               "assign": None if case["assign"] is None else case["assign"][:V],
               "x": None if case.get("x") is None else case["x"][:V], "mag": None if case.get("mag") is None else case["mag"][:V]}
    if K > 1 and case["assign"] is not None:
        last = K - 1
        yield {**case, "samplers": case["samplers"][:last],
               "assign": [a if a < last else -1 for a in case["assign"]],
               "schedule": [k for k in sched if isinstance(k, str) or k < last] or [0]}
    for k, s in enumerate(case["samplers"]):
        if s.get("options"):
            ss = [dict(x) for x in case["samplers"]]
            ss[k].pop("options")
            yield {**case, "samplers": ss}
    if isinstance(case["seed"], list) or case["seed"] > 3:
        yield {**case, "seed": 1}


def search(rng, case):
    for _ in range(400):
        yield random_case(rng)
    if case is not None:
        for _ in range(100):
            c = dict(case)
            c["seed"] = _seed(rng)
            c["R"], c["P"] = rng.choice([1, 2, 3]), rng.choice([1, 2, 3, 4])
            c["weights"] = _weights(rng, c["R"])
            yield c
    for i in range(100):
        yield special_case(rng, i)


MANIFEST = {
    "level_text": ("Machine-checked Coq proofs, for all realization/perturbation/variable counts, masks, sampler assignments and raw draws, "
                   "about the executable model of SciPySampler.generate_samples, _get_mask and _perturb_variables (Model/Sampler.v): output shape "
                   "(R,P,V), literal zeros for unhandled variables, disjoint per-sampler masks that never cover a fixed variable, identical blocks "
                   "when shared and consecutive disjoint slices of the draw otherwise, every QMC perturbation vector is exactly one engine point "
                   "r*P+p scaled by 2u-1 into [-1,1], Latin-hypercube strata per handled variable are preserved, generate is total on well-sized "
                   "draws, the samplers are called once each in order of first appearance in gradient.samplers, and the sum over the samplers "
                   "gives every free variable exactly its own sampler's sample and leaves fixed / unassigned variables unperturbed "
                   "(perturbed = variables + magnitudes * samples); the model is tied to the code on every run by an in-Coq comparison with the "
                   "real generate_samples() output over repeated calls per sampler (the caller accumulating into the returned array in between) "
                   "and with GradientEvaluations.perturbed_variables of gradient evaluations through EnsembleEvaluator.calculate (both request "
                   "paths), against identically seeded twin SciPy distributions/engines drawn in the model's calling order, plus direct checks of "
                   "zeros, sharing, per-realization distinctness, range and LHS strata on the output."),
    "level_note": ("SciPy distributions/QMC engines and numpy's Generator are oracles (twin objects with the same seed provide the raw draws; "
                   "their range/stratification contracts are checked on outputs, not proved). The range [-1,1] is claimed for default options "
                   "only (samplers with user options are compared with a twin using the same options). Gradient evaluations use configurations "
                   "without finite bounds, so _apply_bounds is the identity (its laws are property C10). Trusted: Coq kernel + VM, the Python "
                   "driver (twin construction and calling order, exact float->Q printing). QMC scaling is compared with absolute tolerance 1e-15, "
                   "perturbed variables with 1e-12, everything else exactly. All theorems print 'Closed under the global context'."),
    "technique": "Coq proof (list induction: reshape index law, scatter/gather, floor invariance, first-appearance order, sum over disjoint masks) + in-Coq differential correspondence against identically seeded SciPy engines, per sampler and end to end",
    "design_ref": "DESIGN.md section 4, C17",
}
