"""C17 -- samplers obey the perturbation-sample contract, including QMC point integrity.

Correspondence: a real EnsembleEvaluator is built from a real EnOptConfig (R realizations, P
perturbations, V variables, optional variables.mask, optional gradient.samplers assignment, K sampler
configurations, seed); `generate_samples()` is called on the samplers `_init_samplers` created, in a
schedule that visits every sampler three times.  A twin generator `default_rng(seed)` and twin SciPy
objects (same distribution parameters / same engine class and dimension, constructed and called in the
same order) provide the raw draw of every call.  Coq evaluates Model/Sampler.v `generate` on the raw
draw and compares with the returned array (exactly for the stats methods, 1e-15 for the QMC scaling),
and evaluates shape, exact zeros, sharing, range and Latin-hypercube strata directly on the output.
"""
from __future__ import annotations

import itertools
import math
from fractions import Fraction

import coqio as cq

ID = "C17"
THEOREM_FILE = "Props/C17.v"
CHK_MODULE = "Check.Chk_C17"
CASE_TYPE = "Chk_C17.case"
CHECK_FN = "Chk_C17.check_case"
HEADER = "From Coq Require Import Uint63.\nFrom Ropt Require Import Model.Sampler.\nImport Chk_C17."
SHARD_SIZE = 40
PARALLEL = True
CASE_TIMEOUT = 60
EXHAUSTIVE = {"quick": False, "thorough": False}
RULE = ("systematic family: all six methods x shared on/off x every variables.mask for V <= 4 (single sampler), half of them "
        "expressed as gradient.samplers assignments with -1; random family: 1-3 sampler configurations of random methods, "
        "random assignment arrays (incl. -1 and samplers left without variables), random variables.mask, R <= 5, P <= 8, V <= 6 "
        "(170 cases quick / 8000 thorough; thorough also enumerates the masks of V = 5), "
        "method spellings ('scipy/Sobol', 'default'), user options for a minority of samplers, int and tuple seeds; every sampler "
        "is called three times in a (shuffled) round-robin schedule. Non-trivial = at least one call returned an array with a "
        "non-zero entry and R*P >= 2; distinct = distinct case dictionaries.")
ASSUMPTIONS = [
    "the SciPy distributions and QMC engines are oracles: the raw draw of every call is obtained from an identically seeded twin "
    "(numpy default_rng(seed); uniform/norm/truncnorm.rvs(size=(R',P,D), random_state=rng); Sobol/Halton/LatinHypercube(D, seed=rng).random(R'*P))",
    "range [-1,1] of uniform(loc=-1, scale=2) / truncnorm(a=-1, b=1) draws and [0,1) of QMC points is SciPy's contract; it is checked on every output, not proved",
    "all samplers of one evaluator share one numpy Generator in the order _init_samplers creates them (observed and reproduced by the twin)",
]
TRUSTED = ["numpy.random.default_rng / scipy.stats / scipy.stats.qmc determinism for equal seeds (twin construction)"]

STATS = ("uniform", "norm", "truncnorm")
QMC = ("sobol", "halton", "lhs")
METHODS = STATS + QMC
COQ_METHOD = {"uniform": "Uniform", "norm": "Norm", "truncnorm": "Truncnorm", "sobol": "Sobol", "halton": "Halton", "lhs": "Lhs"}
# documented defaults of the built-in methods (ropt.plugins.sampler.scipy docstring / property text)
DEFAULTS = {"uniform": {"loc": -1.0, "scale": 2.0}, "truncnorm": {"a": -1.0, "b": 1.0}, "norm": {}}
SPELLINGS = {
    "uniform": ["uniform", "scipy/uniform", "Uniform", "SCIPY/UNIFORM"],
    "norm": ["norm", "scipy/norm", "default", "scipy/default", "Scipy/Default", "NORM"],
    "truncnorm": ["truncnorm", "scipy/truncnorm", "TruncNorm"],
    "sobol": ["sobol", "scipy/sobol", "Sobol", "scipy/SOBOL"],
    "halton": ["halton", "scipy/halton", "HALTON"],
    "lhs": ["lhs", "scipy/lhs", "LHS", "Scipy/Lhs"],
}
USER_OPTIONS = {
    "uniform": [{"loc": 0.0}, {"scale": 1.0}, {"loc": -2.0, "scale": 4.0}],
    "norm": [{"loc": 1.0}, {"scale": 0.5}],
    "truncnorm": [{"a": -0.5}, {"b": 0.5}, {"a": -2.0, "b": 2.0}],
    "sobol": [{"scramble": False}],
    "halton": [{"scramble": False}],
    "lhs": [{"scramble": False}],
}


def canonical_method(name: str) -> str:
    m = name.lower().rpartition("/")[2]
    return "norm" if m == "default" else m


# ---- generators -----------------------------------------------------------------
def _schedule(rng, K, rounds=3, shuffle=True):
    out = []
    for _ in range(rounds):
        ks = list(range(K))
        if shuffle:
            rng.shuffle(ks)
        out += ks
    return out


def _seed(rng):
    r = rng.random()
    if r < 0.6:
        return rng.randrange(0, 2 ** 31)
    if r < 0.8:
        return rng.randrange(0, 20)
    return [rng.randrange(0, 2 ** 20), rng.randrange(0, 1000)]


def _sampler(rng, method, shared, spell=False, opts=False):
    s = {"method": rng.choice(SPELLINGS[method]) if spell else method, "shared": bool(shared)}
    if opts:
        s["options"] = dict(rng.choice(USER_OPTIONS[method]))
    return s


def handled_mask(case, k):
    """The variables sampler k handles according to the *property text*: not fixed and assigned to k."""
    V = case["V"]
    vm, asg = case["varmask"], case["assign"]
    return [(vm is None or bool(vm[v])) and (asg is None or asg[v] == k) for v in range(V)]


def gen_cases(tier, rng):
    thorough = tier != "quick"
    # -- systematic: every mask for V <= 4, every method, shared on/off, as variables.mask and as assignment
    for V in range(1, 6 if thorough else 5):
        for mask in itertools.product([True, False], repeat=V):
            for method in METHODS:
                for shared in (False, True):
                    R, P = rng.choice([1, 2, 3]), rng.choice([1, 2, 3, 4])
                    as_assign = rng.random() < 0.5
                    base = {"R": R, "P": P, "V": V, "seed": _seed(rng), "samplers": [_sampler(rng, method, shared)],
                            "schedule": [0, 0, 0]}
                    if all(mask) and rng.random() < 0.5:
                        yield {**base, "varmask": None, "assign": None}
                    elif as_assign:
                        yield {**base, "varmask": None, "assign": [0 if b else -1 for b in mask]}
                    else:
                        yield {**base, "varmask": list(mask), "assign": None}
    # -- random multi-sampler configurations
    n = 8000 if thorough else 170
    for i in range(n):
        yield random_case(rng, big=thorough and i % 4 == 0)


def random_case(rng, big=False):
    for _ in range(50):
        R = rng.choice([1, 2, 2, 3, 3, 4, 5])
        P = rng.choice([1, 2, 3, 3, 4, 5, 6, 8])
        V = rng.choice([1, 2, 3, 3, 4, 4, 5, 6])
        if not big and R * P * V > 60:
            continue
        K = rng.choice([1, 1, 2, 2, 3])
        samplers = [_sampler(rng, rng.choice(METHODS), rng.random() < 0.4, spell=rng.random() < 0.3, opts=rng.random() < 0.15)
                    for _ in range(K)]
        varmask = None if rng.random() < 0.4 else [rng.random() < 0.7 for _ in range(V)]
        if K == 1 and rng.random() < 0.4:
            assign = None
        else:
            assign = [rng.choice([-1] + list(range(K)) * 3) for _ in range(V)]
        case = {"R": R, "P": P, "V": V, "varmask": varmask, "assign": assign, "samplers": samplers,
                "seed": _seed(rng), "schedule": _schedule(rng, K)}
        return case
    raise RuntimeError("generator could not produce a case")


# ---- running the real code ------------------------------------------------------
_PM = None


def _config_dict(case):
    d = {"variables": {"initial_values": [0.0] * case["V"]},
         "realizations": {"weights": [1.0] * case["R"]},
         "gradient": {"number_of_perturbations": case["P"],
                      "seed": tuple(case["seed"]) if isinstance(case["seed"], list) else case["seed"]},
         "samplers": [dict(s) for s in case["samplers"]]}
    if case["varmask"] is not None:
        d["variables"]["mask"] = list(case["varmask"])
    if case["assign"] is not None:
        d["gradient"]["samplers"] = list(case["assign"])
    return d


def _twin(case):
    """Twin generator and SciPy objects, built from the case alone (no ropt code involved)."""
    import numpy as np
    from scipy.stats import norm, truncnorm, uniform
    from scipy.stats.qmc import Halton, LatinHypercube, Sobol
    seed = tuple(case["seed"]) if isinstance(case["seed"], list) else case["seed"]
    rng = np.random.default_rng(seed)
    dists = {"uniform": uniform, "norm": norm, "truncnorm": truncnorm}
    engines = {"sobol": Sobol, "halton": Halton, "lhs": LatinHypercube}
    objs = []
    for k, s in enumerate(case["samplers"]):
        m = canonical_method(s["method"])
        D = sum(handled_mask(case, k))
        opts = dict(s.get("options") or {})
        if m in dists:
            objs.append(("stats", dists[m], {**DEFAULTS[m], **opts}, D))
        else:
            objs.append(("qmc", engines[m](D, seed=rng, **opts), None, D))
    return rng, objs


def _twin_draw(rng, obj, Rp, P):
    import warnings
    kind, o, opts, D = obj
    with warnings.catch_warnings():
        warnings.simplefilter("ignore")
        if kind == "stats":
            return o.rvs(size=(Rp, P, D), random_state=rng, **opts).reshape(-1).tolist()
        return o.random(Rp * P).tolist()


def run_impl(case):
    global _PM
    import warnings

    import numpy as np
    from ropt.config.enopt import EnOptConfig
    from ropt.ensemble_evaluator import EnsembleEvaluator
    from ropt.plugins import PluginManager
    if _PM is None:
        _PM = PluginManager()
    config = EnOptConfig.model_validate(_config_dict(case))
    ee = EnsembleEvaluator(config, None, lambda *a, **k: None, _PM)
    samplers = ee._samplers  # noqa: SLF001 - what _init_samplers created
    masks = [None if s._mask is None else [bool(b) for b in s._mask] for s in samplers]  # noqa: SLF001
    rng, objs = _twin(case)
    calls = []
    for k in case["schedule"]:
        shared = bool(case["samplers"][k]["shared"])
        raw = _twin_draw(rng, objs[k], 1 if shared else case["R"], case["P"])
        rec = {"k": k, "raw": raw, "out": None, "exc": None}
        if k >= len(samplers):
            rec["exc"] = "NoSuchSampler"
        else:
            try:
                with warnings.catch_warnings():
                    warnings.simplefilter("ignore")
                    out = samplers[k].generate_samples()
                out = np.asarray(out)
                rec["dtype"] = str(out.dtype)
                rec["shape"] = list(out.shape)
                rec["out"] = out.astype(float).tolist() if out.ndim == 3 else None
                if out.ndim != 3:
                    rec["exc"] = "NotThreeDimensional"
                # the returned array belongs to the caller: ropt's own _perturb_variables accumulates the other
                # samplers' output into it (`samples += ...`).  Do the same; later calls must not be affected.
                if out.flags.writeable:
                    out += 0.625
            except Exception as e:  # noqa: BLE001 - the exception class is the observation
                rec["exc"] = type(e).__name__
                rec["msg"] = str(e)[:200]
        calls.append(rec)
    return {"created": len(samplers), "masks": masks, "calls": calls}


# ---- Gallina printing -----------------------------------------------------------
def fq(x) -> str:
    """Finite float as (Fi sign m e) / (F m e) = +-m * 2^-e (exact)."""
    x = float(x)
    if math.isnan(x) or math.isinf(x):
        raise ValueError("not finite")
    f = Fraction(x)
    n, d = f.numerator, f.denominator
    e = d.bit_length() - 1
    if d != 1 << e:
        raise ValueError("denominator is not a power of two")
    if abs(n) < 1 << 62:
        return f"(Fi {'true' if n < 0 else 'false'} {abs(n)} {e})"
    return f"(F ({n}) {e})" if n < 0 else f"(F {n} {e})"


def _fqs(xs):
    return cq.lst(fq(x) for x in xs)


def _arr3(a):
    return cq.lst(cq.lst(_fqs(v) for v in blk) for blk in a)


def _omask(m):
    return "None" if m is None else f"(Some {cq.bs(m)})"


def coq_case(case, obs):
    scf = []
    for s in case["samplers"]:
        scf.append(f"(Build_scfg {COQ_METHOD[canonical_method(s['method'])]} {cq.b(s['shared'])} {cq.b(not s.get('options'))})")
    calls = []
    for c in obs["calls"]:
        m = canonical_method(case["samplers"][c["k"]]["method"])
        raw = f"(RawStats {_fqs(c['raw'])})" if m in STATS else f"(RawQmc {cq.lst(_fqs(p) for p in c['raw'])})"
        out = "None" if c["out"] is None else f"(Some {_arr3(c['out'])})"
        calls.append(f"(Build_call {cq.nat(c['k'])} {raw} {out})")
    assign = "None" if case["assign"] is None else f"(Some {cq.zs(case['assign'])})"
    return (f"(Build_case {cq.nat(case['R'])} {cq.nat(case['P'])} {cq.nat(case['V'])} {_omask(case['varmask'])} {assign} "
            f"{cq.lst(scf)} {cq.lst(_omask(m) for m in obs['masks'])} {cq.lst(calls)})")


# ---- the property predicate on the implementation's output (no model) --------------
def _violations(case, obs):
    """All clause violations of the case, each (clause, call index, detail)."""
    R, P, V = case["R"], case["P"], case["V"]
    out = []
    for ci, c in enumerate(obs["calls"]):
        k = c["k"]
        s = case["samplers"][k]
        m = canonical_method(s["method"])
        shared = bool(s["shared"])
        default = not s.get("options")
        hm = handled_mask(case, k)
        hv = [v for v in range(V) if hm[v]]
        if c["out"] is None:
            out.append(("returns-array", ci, {"exception": c["exc"], "method": m, "handled": len(hv)}))
            continue
        a = c["out"]
        if c.get("shape") != [R, P, V] or c.get("dtype") != "float64":
            out.append(("shape", ci, {"shape": c.get("shape"), "dtype": c.get("dtype"), "expected": [R, P, V]}))
            continue
        bad = [(r, p, v) for r in range(R) for p in range(P) for v in range(V) if not hm[v] and a[r][p][v] != 0.0]
        if bad:
            out.append(("unhandled-zero", ci, {"index": bad[0], "value": a[bad[0][0]][bad[0][1]][bad[0][2]]}))
        if shared and any(a[r] != a[0] for r in range(1, R)):
            out.append(("shared-identical", ci, {"method": m}))
        if m != "norm" and default:
            rb = [(r, p, v) for r in range(R) for p in range(P) for v in range(V) if not -1.0 <= a[r][p][v] <= 1.0]
            if rb:
                out.append(("range", ci, {"index": rb[0], "value": a[rb[0][0]][rb[0][1]][rb[0][2]]}))
        Rp = 1 if shared else R
        D = len(hv)
        raw = c["raw"]
        # each perturbation vector is one draw / one engine point (per realization unless shared)
        for r in range(R):
            rr = 0 if shared else r
            for p in range(P):
                for j, v in enumerate(hv):
                    if m in STATS:
                        exp = raw[(rr * P + p) * D + j]
                        ok = a[r][p][v] == exp
                    else:
                        exp = 2.0 * raw[rr * P + p][j] - 1.0
                        ok = abs(a[r][p][v] - exp) <= 1e-15
                    if not ok:
                        out.append(("point-integrity" if m in QMC else "draws-per-realization", ci,
                                    {"method": m, "index": [r, p, v], "value": a[r][p][v], "expected": exp}))
                        break
                else:
                    continue
                break
            else:
                continue
            break
        if m == "lhs":
            n = Rp * P
            vecs = [a[r][p] for r in range(Rp) for p in range(P)]
            for v in hv:
                strata = sorted(math.floor(Fraction(n) * (Fraction(vec[v]) + 1) / 2) for vec in vecs)
                if strata != list(range(n)):
                    out.append(("lhs-stratification", ci, {"variable": v, "strata": strata, "n": n}))
                    break
    if obs.get("created") != len(case["samplers"]):
        out.append(("one-sampler-per-configuration", -1, {"created": obs.get("created"), "configured": len(case["samplers"])}))
    return out


def oracle(case, obs):
    vs = _violations(case, obs)
    if not vs:
        return None
    clause, ci, detail = vs[0]
    return {"clause": clause, "call": ci, "detail": detail}


def known_signature(case, obs, violation):
    return None   # no known finding for C17 (F17 and F17b are repaired; reverting either must alarm)


def nontrivial(case, obs):
    if case["R"] * case["P"] < 2:
        return False
    return any(c["out"] is not None and any(x != 0.0 for blk in c["out"] for vec in blk for x in vec) for c in obs["calls"])


def features(case, obs):
    ms = sorted({canonical_method(s["method"]) for s in case["samplers"]})
    return {"K": len(case["samplers"]), "R": case["R"], "P": case["P"], "V": case["V"],
            "methods": "+".join(ms), "shared": sum(bool(s["shared"]) for s in case["samplers"]),
            "varmask": case["varmask"] is not None, "assign": case["assign"] is not None,
            "options": any(s.get("options") for s in case["samplers"]),
            "raised": sum(c["out"] is None for c in obs["calls"])}


def shrink(case):
    K = len(case["samplers"])
    sched = case["schedule"]
    for i in range(len(sched)):
        if len(sched) > 1:
            yield {**case, "schedule": sched[:i] + sched[i + 1:]}
    for key in ("R", "P"):
        if case[key] > 1:
            yield {**case, key: case[key] - 1}
    if case["V"] > 1:
        V = case["V"] - 1
        yield {**case, "V": V, "varmask": None if case["varmask"] is None else case["varmask"][:V],
               "assign": None if case["assign"] is None else case["assign"][:V]}
    if K > 1 and case["assign"] is not None:
        last = K - 1
        yield {**case, "samplers": case["samplers"][:last],
               "assign": [a if a < last else -1 for a in case["assign"]],
               "schedule": [k for k in sched if k < last] or [0]}
    for k, s in enumerate(case["samplers"]):
        if s.get("options"):
            ss = [dict(x) for x in case["samplers"]]
            ss[k].pop("options")
            yield {**case, "samplers": ss}
    if isinstance(case["seed"], list) or case["seed"] > 3:
        yield {**case, "seed": 1}


def search(rng, case):
    for _ in range(400):
        yield random_case(rng)
    if case is not None:
        for _ in range(100):
            c = dict(case)
            c["seed"] = _seed(rng)
            c["R"], c["P"] = rng.choice([1, 2, 3]), rng.choice([1, 2, 3, 4])
            yield c


MANIFEST = {
    "level_text": ("Machine-checked Coq proofs, for all realization/perturbation/variable counts, masks, sampler assignments and raw draws, "
                   "about the executable model of SciPySampler.generate_samples and _get_mask (Model/Sampler.v): output shape (R,P,V), literal "
                   "zeros for unhandled variables, disjoint per-sampler masks that never cover a fixed variable, identical blocks when shared and "
                   "consecutive disjoint slices of the draw otherwise, every QMC perturbation vector is exactly one engine point r*P+p scaled by "
                   "2u-1 into [-1,1], and Latin-hypercube strata per handled variable are preserved; the model is tied to the code on every run by "
                   "an in-Coq comparison with the real generate_samples() output over three consecutive calls per sampler against identically "
                   "seeded twin SciPy distributions/engines, plus direct checks of zeros, sharing, range and LHS strata on the output."),
    "level_note": ("SciPy distributions/QMC engines and numpy's Generator are oracles (twin objects with the same seed provide the raw draws; "
                   "their range/stratification contracts are checked on outputs, not proved). Trusted: Coq kernel + VM, the Python driver "
                   "(twin construction order, exact float->Q printing). QMC scaling is compared with absolute tolerance 1e-15, everything else exactly. "
                   "All theorems print 'Closed under the global context'."),
    "technique": "Coq proof (list induction: reshape index law, scatter/gather, floor invariance) + in-Coq differential correspondence against identically seeded SciPy engines",
    "design_ref": "DESIGN.md section 4, C17",
}
