"""C15 -- event streams are well formed and aborts latch the plan, at every abort point.

Correspondence: real `Plan`s (a sequence of optimizer / evaluator steps on one plan -- a step object may be run
again --, optionally with nested plans to depth 3 run inside every evaluation of the level above) with recording
handlers (a handler plug-in registered through PluginManager.add_plugin) on every plan level, recording observers
registered for all or for some event types, and a recording evaluator; and `BasicOptimizer` runs with a recording
handler passed through its keyword arguments, its abort callback and its results callback.  Every delivery
(recipient, emitting step, event type) and every evaluator call is one entry of a global log; the entry with
index k raises OptimizationAborted(USER_ABORT).  The unaborted log, the aborted log, the exit code of every
run_step call, the Plan.aborted flags of every level and the PlanAborted behaviour of a further run_step are
compared exactly with Model/Events.v inside Coq.
"""
from __future__ import annotations

import json

import coqio as cq
from props import C14 as c14

ID = "C15"
THEOREM_FILE = "Props/C15.v"
CHK_MODULE = "Check.Chk_C15"
CASE_TYPE = "Chk_C15.case"
CHECK_FN = "Chk_C15.check_case"
HEADER = "From Ropt Require Import Model.Step Model.Events."
SHARD_SIZE = 120
PARALLEL = True
CASE_TIMEOUT = 60
EXHAUSTIVE = {"quick": True, "thorough": True}
ALLOWED_AXIOMS: list[str] = []

RULE = ("exhaustive over abort points: for every scenario of a fixed family (optimizer step with <= 4 evaluations incl. batches, "
        "gradient requests, NaN failures -> TOO_FEW and max_functions stops; evaluator step, also with a failing evaluation; sequences "
        "of two to four steps, also re-running a step object; nested plans of depth 2 (outer <= 2 x inner <= 2 evaluations) and "
        "depth 3, with failures, budget stops and empty trackers (NESTED_OPTIMIZER_FAILED) inside the inner, middle and outer run; "
        "nested plans that had another parent before (constructed with parent=, or first nested under another outer plan); "
        "nested plans on their own OptimizerContext (observers on the outer context only / on both); failing evaluations in steps "
        "run with variable / objective / non-linear-constraint transforms and finite bounds / linear constraints; "
        "BasicOptimizer with its abort and results callbacks, also one object run twice) and handler/observer layouts (0-3 handlers per plan level, 0-2 "
        "observers registered for all or for some event types), EVERY index k of the unaborted delivery log (each delivery to a "
        "handler or observer and each evaluator call) is used as the abort point, plus k = none; thorough adds seeded random "
        "scenarios, again with every abort index.  Non-trivial = an abort was raised (k inside the log); distinct = distinct "
        "(scenario, layout, k).")
ASSUMPTIONS = [
    "handlers, observers and the evaluator have no effect on the run other than raising the abort at the chosen delivery index",
    "the abort is OptimizationAborted(USER_ABORT); other exceptions raised by handlers are outside the property (exceptions "
    "raised by the evaluator are C14: they must leave every level without a FINISHED event)",
    "the nested plan function runs the nested plan's optimizer step and returns that plan's tracker result (None when no "
    "evaluation of that step has produced function values yet: the step above then ends with NESTED_OPTIMIZER_FAILED)",
    "nested runs use no transforms (known finding C11:explicit-step-variables)",
    "every event has at least one recipient on every level (otherwise a step's START would be invisible in the log)",
]
TRUSTED = [
    "the recording handler plug-ins, observers, callbacks, evaluator and scripted optimizer plug-in of harness/props/C15.py and C14.py",
    "step bodies (which evaluations happen, where too-few / budget stops occur) come from the C14 machine Model/Step.v",
    "the BasicOptimizer runs register the plug-ins with the plug-in manager of the object's private OptimizerContext",
]
# One BasicOptimizer object run twice: its callbacks must still receive every event exactly once (F15d: run() used to
# register them with the shared context again on every call; fixed in 522b7ae).  Every run() builds a new Plan, so an
# abort in the first run does not refuse the second one: the abort points enumerated are those of the second run.
BASIC_RERUN = True

EV = c14.EV
USER_ABORT = 4
CALL = -1
OBS_BASE, ABORT_CB, RESULTS_CB, STALE_BASE, INNER_OBS = 40, 50, 51, 60, 70
ALL_EVENTS = [1, 2, 3, 4, 5, 6]


# ---------------------------------------------------------------------------------------------
# real-code driver
# ---------------------------------------------------------------------------------------------
_ENV = None


def _env():
    global _ENV
    import ropt
    if _ENV is not None and _ENV["ropt"] is ropt:      # re-built when the runner re-imports ropt (forked workers)
        return _ENV
    from ropt.plugins.plan.base import PlanHandlerPlugin, ResultHandler

    class Rec(ResultHandler):
        def __init__(self, plan, *, tag=None, world=None, sources=None, verifbasic=None):
            super().__init__(plan)
            if verifbasic is not None:                 # created by BasicOptimizer from its keyword arguments
                tag, world = verifbasic["tag"], verifbasic["world"]
            self.tag = tag
            self.world = world

        def handle_event(self, event):
            self.world.deliver(self.tag, event)

        def __getitem__(self, key):
            return None

    class RecPlugin(PlanHandlerPlugin):
        def create(self, name, plan, **kw):
            return Rec(plan, **kw)

        def is_supported(self, method):
            return method.lower() in ("verifrec", "verifbasic")

    _ENV = {"RecPlugin": RecPlugin, "ropt": ropt}
    return _ENV


class World:
    def __init__(self, k):
        self.k = k
        self.log = []
        self.names = {}
        self.mute = False

    def hit(self):
        return self.k is not None and len(self.log) - 1 == self.k

    def _raise_if_hit(self):
        from ropt.enums import OptimizerExitCode
        from ropt.exceptions import OptimizationAborted
        if self.hit():
            raise OptimizationAborted(exit_code=OptimizerExitCode.USER_ABORT)

    def deliver(self, who, event):
        if self.mute:
            return
        self.log.append([who, self.names.get(event.source, 999), int(event.event_type.value)])
        self._raise_if_hit()

    def note(self, who, sid, ev):
        """A callback that is not handed the event (BasicOptimizer's abort callback); returns whether it aborts."""
        self.log.append([who, sid, ev])
        return self.hit()

    def call(self):
        if self.mute:
            return
        self.log.append([CALL, 0, 0])
        self._raise_if_hit()


class RecEvaluator(c14.FaultEvaluator):
    def __init__(self, world):
        super().__init__()
        self.world = world

    def __call__(self, variables, ctx):
        self.world.call()
        return super().__call__(variables, ctx)


def _events_of(ob):
    return ALL_EVENTS if ob["events"] == "all" else ob["events"]


def _scenario(case, k):
    import warnings
    warnings.simplefilter("ignore")
    from ropt.enums import EventType
    from ropt.exceptions import PlanAborted
    from ropt.plan import BasicOptimizer, OptimizerContext, Plan
    from ropt.plugins import PluginManager
    env14 = c14._env()
    env = _env()
    Scripted = env14["Scripted"]
    w = World(k)
    evaluator = RecEvaluator(w)
    Scripted.evaluator = evaluator
    by_value = {int(et.value): et for et in EventType}
    exits = []
    if case.get("basic"):
        try:
            c = case["steps"][0]["case"]
            opt = BasicOptimizer(c14.make_config(c), evaluator, transforms=c14.make_transforms(c["transform"]),
                                 verifbasic={"tag": 0, "world": w})
            octx = opt._optimizer_context
            octx.plugin_manager.add_plugin("optimizer", "verifscript", env14["ScriptedPlugin"]())
            octx.plugin_manager.add_plugin("plan_handler", "verifbasic", env["RecPlugin"]())
            for ob in case["observers"]:
                if ob["id"] in (ABORT_CB, RESULTS_CB):
                    continue
                for v in _events_of(ob):
                    octx.add_observer(by_value[v], lambda ev, j=ob["id"]: w.deliver(j, ev))
            # the step of the plan BasicOptimizer builds is not known beforehand: its events are the only ones of a run
            opt.set_abort_callback(lambda: w.note(ABORT_CB, w.names.v, EV["SE"]))

            def results_cb(results):
                w.log.append([RESULTS_CB, w.names.v, EV["FE"]])
                w._raise_if_hit()

            opt.set_results_callback(results_cb)
            for spec in case["steps"]:          # more than one: the same object is run again (same configuration)
                w.names = _Anything(spec["sid"])
                Scripted.queue[:] = [c14.spec_of(c14.root(spec["case"]), spec["case"]["allow_nan"])]
                opt.run()
                exits.append([spec["sid"], int(opt.exit_code.value)])
            return {"log": w.log, "exits": exits, "flags": [], "probe": "n/a"}
        except BaseException as e:  # noqa: BLE001 - the class is the observation
            return {"log": w.log, "exits": exits, "flags": [], "probe": "n/a", "exc": type(e).__name__}
    pm = PluginManager()
    pm.add_plugin("optimizer", "verifscript", env14["ScriptedPlugin"]())
    pm.add_plugin("plan_handler", "verifrec", env["RecPlugin"]())
    ctx = OptimizerContext(evaluator=evaluator, plugin_manager=pm)
    for ob in case["observers"]:
        for v in _events_of(ob):
            ctx.add_observer(by_value[v], lambda ev, j=ob["id"]: w.deliver(j, ev))
    try:
        # reparent: the nested plans have had another parent before they are run under the outer plan of the scenario --
        # "ctor": they were constructed with parent=<a stale plan with its own recording handlers>; "two-outer": they were
        # first used as nested optimization of a step of ANOTHER outer plan (that run is not recorded and leaves every
        # tracker empty).  DefaultOptimizerStep._run_nested_plan sets the parent before every nested run: the events of
        # the recorded run must reach the handlers of its real ancestors only.
        reparent = case.get("reparent")
        stale = None
        if reparent:
            stale = Plan(ctx)
            for i in range(max(1, case["plans"][0])):
                stale.add_handler("verifrec", tag=STALE_BASE + i, world=w)
        # innerctx: the nested plans live on their OWN OptimizerContext (own evaluator callable forwarding to the same
        # recording evaluator); observers are called by the ROOT plan, i.e. those of the outer context -- "both" also
        # registers observers (ids 70+) on the inner context, which must never be called
        ictx = ctx
        if case.get("innerctx"):
            ictx = OptimizerContext(evaluator=lambda v, c: evaluator(v, c), plugin_manager=pm)
            if case["innerctx"] == "both":
                for et in EventType:
                    ictx.add_observer(et, lambda ev: w.deliver(INNER_OBS, ev))
        plans = [Plan(ctx) if j == 0 else (Plan(ictx, parent=stale) if reparent == "ctor" else Plan(ictx))
                 for j, _ in enumerate(case["plans"])]
        nsteps, trackers = {}, {}
        for j, p in enumerate(plans):
            if j > 0:
                nsteps[j] = p.add_step("optimizer")
                w.names[nsteps[j]] = 100 * j
                trackers[j] = p.add_handler("tracker", sources={nsteps[j]})

                def f(plan, variables, j=j):
                    spec = Scripted.queue[0]          # the optimizer created next is the one of this nested run
                    kw2 = {"nested_optimization": plans[j + 1]} if spec["nested"] else {}
                    try:
                        code = plan.run_step(nsteps[j], config=spec["config"], variables=variables, **kw2)
                        if not w.mute:
                            exits.append([100 * j, int(code.value)])
                    except PlanAborted:
                        exits.append([100 * j, -2])
                    return plan.get(trackers[j], "results")

                p.add_function(f)
            for i in range(case["plans"][j]):
                p.add_handler("verifrec", tag=10 * j + i, world=w)
        outer = plans[0]
        if reparent == "two-outer":
            # unrecorded first use under the other outer plan: the innermost run fails at its first evaluation, so every
            # level ends with NESTED_OPTIMIZER_FAILED / TOO_FEW_REALIZATIONS and no tracker holds a result afterwards
            d = len(plans) - 1
            node = None
            for lvl in range(d, 0, -1):
                node = _node([_req("F", 0, 0, BAD if lvl == d else None)], [node] if node is not None else None)
            pre = _c14case(2, 2, False, None, [_req("F")], [node])
            w.mute = True
            Scripted.queue[:] = [c14.spec_of(c14.root(pre), False)]
            code0 = stale.run_step(stale.add_step("optimizer"), config=c14.make_config(pre), nested_optimization=plans[1])
            w.mute = False
            if int(code0.value) != 3 or any(p.aborted for p in plans):
                raise RuntimeError(f"harness: the unrecorded first run ended with {code0!r}")
        objects = {}
        for spec in case["steps"]:
            sid = spec["sid"]
            if sid not in objects:
                objects[sid] = outer.add_step(spec["type"])
                w.names[objects[sid]] = sid
            st = objects[sid]
            c = spec["case"]
            cfg = c14.make_config(c)
            try:
                if spec["type"] == "optimizer":
                    tree = c14.root(c)
                    Scripted.queue[:] = [c14.spec_of(tree, c["allow_nan"])]
                    kw = {"nested_optimization": plans[1]} if c14.depth(tree) > 0 else {}
                    code = outer.run_step(st, config=cfg, transforms=c14.make_transforms(c["transform"]), **kw)
                else:
                    req = c["script"][0]
                    evaluator.pending, evaluator.pcase = req.get("fault"), c
                    variables = ([[0.25 * (req["pt"] + j), 0.0] for j in range(req["batch"])] if req["batch"] > 0
                                 else [0.25 * req["pt"], 0.0])
                    code = outer.run_step(st, config=cfg, transforms=c14.make_transforms(c["transform"]), variables=variables)
                exits.append([sid, int(code.value)])
            except PlanAborted:
                exits.append([sid, -2])
        flags = [bool(p.aborted) for p in plans]
        # latch probe: one more step, recording switched off
        w.mute = True
        w.k = None
        probe = outer.add_step("evaluator")
        evaluator.pending, evaluator.pcase = None, _c14case(1, 1, False, None, [_req("F")])
        try:
            outer.run_step(probe, config=c14.make_config(evaluator.pcase))
            probe_out = "ran"
        except PlanAborted:
            probe_out = "PlanAborted"
        return {"log": w.log, "exits": exits, "flags": flags, "probe": probe_out}
    except BaseException as e:  # noqa: BLE001 - the class is the observation
        return {"log": w.log, "exits": exits, "flags": [False] * len(case["plans"]), "probe": "none", "exc": type(e).__name__}


class _Anything(dict):
    def __init__(self, v):
        super().__init__()
        self.v = v

    def get(self, key, default=None):
        return self.v


_FULL = {}


def run_impl(case):
    key = json.dumps({k: v for k, v in case.items() if k != "k"}, sort_keys=True)
    if key not in _FULL:
        if len(_FULL) > 64:
            _FULL.clear()
        _FULL[key] = _scenario(case, None)
    full = _FULL[key]
    if case["k"] is None:
        return {"full": full, "run": full}
    return {"full": full, "run": _scenario(case, case["k"])}


# ---------------------------------------------------------------------------------------------
# independent Python oracle
# ---------------------------------------------------------------------------------------------
def _level(sid):
    return sid // 100


def recipients(case, sid, ev):
    out = []
    for lvl in range(_level(sid), -1, -1):
        out += [10 * lvl + i for i in range(case["plans"][lvl])]
    return out + [ob["id"] for ob in case["observers"] if ev in _events_of(ob)]


def _is_start_step(ev):
    return ev in (EV["SO"], EV["SES"])


def _is_fin_step(ev):
    return ev in (EV["FO"], EV["FES"])


def _fin_of(start_ev):
    return EV["FO"] if start_ev == EV["SO"] else EV["FES"]


def open_steps(prefix):
    """Stack (innermost last) of (step, FINISHED event) open after the prefix."""
    stack = []
    for who, sid, ev in prefix:
        if who == CALL:
            continue
        if _is_start_step(ev):
            if not stack or stack[-1][0] != sid:
                stack.append((sid, _fin_of(ev)))
        elif _is_fin_step(ev):
            if stack and stack[-1][0] == sid:
                stack.pop()
    return stack


def predict(case, full, k):
    if k is None or k >= len(full):
        return list(full)
    log = list(full[:k + 1])
    for sid, fin in reversed(open_steps(log)):
        log += [[r, sid, fin] for r in recipients(case, sid, fin)]
    return log


def _emissions(case, log, partial_ok):
    """Split a log into emissions [(sid, ev, n_delivered)] checking recipient order; None if malformed."""
    out, i = [], 0
    while i < len(log):
        who, sid, ev = log[i]
        if who == CALL:
            out.append((None, "CALL", 1))
            i += 1
            continue
        rec = recipients(case, sid, ev)
        n = 0
        while n < len(rec) and i + n < len(log) and log[i + n] == [rec[n], sid, ev]:
            n += 1
        if n == 0:
            return None
        if n < len(rec) and not partial_ok:
            return None
        out.append((sid, ev, n))
        i += n
    return out


def _bracketed(case, log, k):
    """Per step: START (SE CALL FE)* [SE [CALL]] FIN, steps properly nested (a nested step only between the START of the
    step above / one of its FINISHED_EVALUATIONs and its next START_EVALUATION)."""
    ems = _emissions(case, log, True)
    if ems is None:
        return "delivery-order"
    pos, i = [], 0
    for sid, ev, n in ems:
        pos.append((i, i + n))
        i += n
    stack = []   # [sid, state, fin, eval_span_start]
    for (sid, ev, n), (a, b) in zip(ems, pos):
        if ev == "CALL":
            if not stack or stack[-1][1] != "in-eval":
                return "evaluator-call-outside-evaluation"
            stack[-1][1] = "called"
            continue
        if _is_start_step(ev):
            if stack and stack[-1][1] not in ("idle",):
                return "step-started-inside-evaluation"
            if stack and _level(sid) != _level(stack[-1][0]) + 1:
                return "nested-step-not-one-level-below"
            stack.append([sid, "idle", _fin_of(ev), None])
            continue
        if not stack or stack[-1][0] != sid:
            return "event-of-a-step-that-is-not-the-innermost-open-step"
        top = stack[-1]
        if ev == EV["SE"]:
            if top[1] != "idle":
                return "interleaved-START_EVALUATION"
            top[1], top[3] = "in-eval", a
        elif ev == EV["FE"]:
            if top[1] != "called":
                return "FINISHED_EVALUATION-without-its-START_EVALUATION"
            top[1] = "idle"
        elif _is_fin_step(ev):
            if ev != top[2]:
                return "wrong-FINISHED-event"
            if top[1] != "idle":
                # unmatched START_EVALUATION: only when the abort arose at or inside that evaluation
                if k is None or not (top[3] <= k < a):
                    return "unmatched-START_EVALUATION-without-abort-in-that-evaluation"
            stack.pop()
        else:
            return "unknown-event"
    if stack:
        return "FINISHED-step-event-missing"
    return None


def _no_abort_state(case, o):
    flags_ok = o["flags"] == ([] if case.get("basic") else [False] * len(case["plans"]))
    return flags_ok and o["probe"] in ("ran", "n/a") and not any(code in (USER_ABORT, -2) for _, code in o["exits"])


def oracle(case, obs):
    full, run = obs["full"], obs["run"]
    for o in (full, run):
        if "exc" in o:
            return {"clause": "exception-escapes-the-step", "detail": o["exc"]}
    D, log, k = full["log"], run["log"], case["k"]
    if _emissions(case, D, False) is None:
        return {"clause": "delivery-order-exactly-once-handlers-then-ancestors-then-observers", "detail": D[:12]}
    b = _bracketed(case, D, None)
    if b:
        return {"clause": "bracketing-unaborted:" + b, "detail": D[:20]}
    if not _no_abort_state(case, full):
        return {"clause": "abort-state-without-abort", "detail": [full["exits"], full["flags"], full["probe"]]}
    # exit codes of the run in which nobody aborts (C14's clause, judged by C14's oracle): steps without nested optimization
    tops = [x for x in full["exits"] if _level(x[0]) == 0]
    for spec, got in zip(case["steps"], tops):
        if spec["type"] == "evaluator" or not c14.is_nested(spec["case"]):
            want = c14.expected(spec["case"])[0]["outcome"]
            if want[0] == "exit" and got != [spec["sid"], want[1]]:
                return {"clause": "exit-code-without-abort", "detail": {"step": spec["sid"], "got": got, "expected": want}}
    aborting = k is not None and k < len(D)
    exp = predict(case, D, k)
    if log != exp:
        i = next((j for j in range(min(len(log), len(exp))) if log[j] != exp[j]), min(len(log), len(exp)))
        return {"clause": "aborted-log-is-prefix-plus-closure", "detail": {"k": k, "first_difference": i, "got": log[i:i + 6], "expected": exp[i:i + 6]}}
    b = _bracketed(case, log, k if aborting else None)
    if b:
        return {"clause": "bracketing:" + b, "detail": {"k": k}}
    if not aborting:
        if run["exits"] != full["exits"] or not _no_abort_state(case, run):
            return {"clause": "no-abort-run-differs", "detail": [run["exits"], run["flags"], run["probe"]]}
        return None
    # latch: steps open at the abort (or whose FINISHED event was being delivered) report USER_ABORT, their plans
    # are aborted, further run_step calls raise PlanAborted
    pre = D[:k + 1]
    opened = [sid for sid, _ in open_steps(pre)]            # outermost first
    who, sid, ev = D[k]
    if who != CALL and _is_fin_step(ev) and sid not in opened:
        # the abort arose while the FINISHED event of sid was being delivered (enclosing steps are in `opened`)
        opened.append(sid)
    exp_exits = _expected_exits(case, full, opened, k)
    if run["exits"] != exp_exits:
        return {"clause": "abort-latches:exit-codes", "detail": {"k": k, "got": run["exits"], "expected": exp_exits}}
    if case.get("basic"):
        return None
    exp_flags = [True] + [any(_level(s) == j for s in opened) for j in range(1, len(case["plans"]))]
    if run["flags"] != exp_flags:
        return {"clause": "abort-latches:plan-aborted-flags", "detail": {"k": k, "got": run["flags"], "expected": exp_flags}}
    if run["probe"] != "PlanAborted":
        return {"clause": "abort-latches:further-step-runs", "detail": run["probe"]}
    return None


def _expected_exits(case, full, opened, k):
    """Exit list of the aborted run from that of the unaborted run: run_step calls finished before the abort keep
    their code, those open at the abort return USER_ABORT (innermost first), later top-level steps raise PlanAborted."""
    ems = _emissions(case, full["log"][:k + 1], True)
    # completed step runs = FINISHED-step emissions in the prefix, except the aborting emission itself (the last one)
    fins = [(sid, ev) for j, (sid, ev, n) in enumerate(ems) if ev != "CALL" and _is_fin_step(ev) and j < len(ems) - 1]
    out = [list(x) for x in full["exits"][:len(fins)]]
    out += [[s, USER_ABORT] for s in reversed(opened)]
    done_top = sum(1 for sid, _ in fins if _level(sid) == 0)     # position of the top-level step that was running
    out += [[spec["sid"], -2] for spec in case["steps"][done_top + 1:]]
    return out


def known_signature(case, obs, violation):
    return None


# ---------------------------------------------------------------------------------------------
# generators
# ---------------------------------------------------------------------------------------------
def _req(kind, pt=0, batch=0, fm=None):
    return {"kind": kind, "pt": pt, "batch": batch, "fault": None if fm is None else {"fm": fm}}


def _c14case(R, rmin, allow, maxf, script, tree=None, step="optimizer"):
    return {"step": step, "R": R, "P": 1, "rmin": rmin, "pmin": 1, "allow_nan": allow, "maxf": maxf, "filter": None,
            "estimator": "mean", "transform": "none", "order": list(range(R)), "bounds": False, "linear": False,
            "script": script, "nested": None, "tree": tree}


def _node(script, subs=None, rmin=2, maxf=None):
    return {"rmin": rmin, "maxf": maxf, "script": script, "subs": subs or [None] * len(script)}


def _opt(script, R=2, rmin=2, allow=False, maxf=None, tree=None, sid=None):
    return {"type": "optimizer", "sid": sid, "case": _c14case(R, rmin, allow, maxf, script, tree)}


def _evs(batch=0, fm=None, R=2, rmin=2, sid=None):
    return {"type": "evaluator", "sid": sid, "case": _c14case(R, rmin, False, None, [_req("F", 0, batch, fm)], None, "evaluator")}


def _number(steps):
    """Step ids: position in the sequence unless the step re-runs an earlier step object (sid given)."""
    out = []
    for i, s in enumerate(steps):
        out.append({**s, "sid": i if s.get("sid") is None else s["sid"]})
    return out


BAD = [[False, True]]
ALLBAD = [[True, True]]


def scenario_family(tier):
    """(name, steps, basic) -- the fixed scenarios whose every abort index is enumerated."""
    F, G, FG = _req("F"), _req("G"), _req("FG")
    F1 = _req("F", 1)
    fam = [
        ("opt-FGFG", [_opt([F, G, F1, _req("G", 1)])]),
        ("opt-FG-batch", [_opt([FG, _req("F", 0, 2), F])]),
        ("opt-toofew-mid", [_opt([F, _req("F", 1, 0, BAD), F])]),
        ("opt-budget", [_opt([F, F, F, F], maxf=2)]),
        ("opt-nan-tolerant", [_opt([F, _req("F", 1, 0, ALLBAD), F], rmin=0, allow=True)]),
        ("eval", [_evs()]),
        ("eval-toofew", [_evs(0, BAD)]),
        ("eval-batch-toofew", [_evs(2, [[False, False], [True, False]])]),
        ("two-steps", [_opt([F, G]), _evs()]),
        ("three-steps", [_evs(), _opt([F, _req("F", 1, 0, BAD)]), _opt([FG])]),
        ("rerun-steps", [_opt([F]), _evs(0, BAD), _opt([F, F1, F], sid=0, maxf=2, rmin=1), _evs(0, BAD, sid=1, rmin=1)]),
        ("nested-2x2", [_opt([F, F1], tree=[_node([F, F1]), _node([F, G])])]),
        ("nested-budget-toofew", [_opt([F, F, F], maxf=2, tree=[_node([F, F, F], maxf=2), _node([F, _req("F", 1, 0, BAD), F], maxf=2),
                                                              _node([F], maxf=2)])]),
        ("nested-then-eval", [_opt([FG], tree=[_node([F])]), _evs()]),
        ("nested-outer-toofew", [_opt([_req("F", 0, 0, BAD), F], tree=[_node([F]), _node([F])])]),
        ("nested-no-result", [_opt([F, F], tree=[_node([_req("F", 0, 0, BAD), F]), _node([F])])]),
        ("nested-no-result-then-steps", [_opt([F], tree=[_node([_req("FG", 0, 0, BAD)])]), _evs(),
                                         _opt([F, F], tree=[_node([F]), _node([_req("F", 1, 0, BAD)])])]),
        ("nested3-1x1x2", [_opt([F], tree=[_node([FG], [_node([F, G])])])]),
        ("nested3-2x2x1", [_opt([F, F1], tree=[_node([F, F1], [_node([F]), _node([FG])]), _node([F], [_node([F1])])])]),
        ("nested3-inner-no-result", [_opt([F, F], tree=[_node([F, F], [_node([_req("F", 0, 0, BAD)]), _node([F])]),
                                                       _node([F], [_node([F])])])]),
        ("nested3-middle-toofew-then-eval", [_opt([F], tree=[_node([_req("F", 0, 0, BAD), F], [_node([F]), _node([F])])]), _evs()]),
        ("nested3-budgets", [_opt([F, F, F], maxf=2, tree=[_node([F, F], [_node([F, F], maxf=1), _node([F])], maxf=1),
                                                          _node([F], [_node([FG])]), _node([F], [_node([F])])])]),
    ]
    basic = [
        ("basic-FGF", [_opt([F, G, F1])]),
        ("basic-toofew", [_opt([F, _req("F", 1, 0, BAD), F])]),
        ("basic-budget-batch", [_opt([_req("F", 0, 2), F, F], maxf=2)]),
    ]
    if BASIC_RERUN:
        basic += [("basic-rerun", [_opt([F, G]), _opt([F1, FG, F])])]
    if tier == "thorough":
        fam += [
            ("opt-long", [_opt([F, G, FG, _req("F", 1, 3), _req("G", 1), _req("FG", 2)])]),
            ("nested-3x3", [_opt([F, FG, F1], tree=[_node([F, G, FG]), _node([F, F1, _req("G", 1)]), _node([FG, F, F])])]),
            ("nested-two-nested-steps", [_opt([F], tree=[_node([F, F])]), _opt([F, F], tree=[_node([F]), _node([FG])])]),
            ("four-steps", [_evs(), _evs(2), _opt([F]), _evs()]),
            ("nested3-two-steps", [_opt([F], tree=[_node([F], [_node([_req("F", 0, 0, BAD)])])]),
                                   _opt([F, F], tree=[_node([F], [_node([F])]), _node([F, F], [_node([F, G]), _node([F])])])]),
        ]
        basic += [("basic-long", [_opt([F, G, FG, _req("F", 1, 3), _req("G", 1)])])]
    out = [(n, _number(s), False) for n, s in fam] + [(n, _number(s), True) for n, s in basic]
    # nested plans that had another parent before (see _scenario): (name, steps, basic) with the variant after '+'
    pick = {"nested-2x2": "two-outer", "nested-no-result": "ctor", "nested3-1x1x2": "two-outer", "nested-then-eval": "ctor",
            "nested3-inner-no-result": "ctor"}
    if tier == "thorough":
        pick = {n: v for n in [x[0] for x in out if x[0].startswith("nested")] for v in ("two-outer",)}
        out += [(f"{n}+reparent-ctor", s, b) for n, s, b in out if n in pick]
    out += [(f"{n}+reparent-{pick[n]}", s, b) for n, s, b in out if n in pick and "+" not in n]
    # nested plans on their own OptimizerContext (observers on the outer context only / on both)
    ipick = {"nested-2x2": "outer-only", "nested-budget-toofew": "both", "nested3-2x2x1": "outer-only", "nested-no-result": "both"}
    if tier == "thorough":
        ipick = {x[0]: ("both" if i % 2 else "outer-only") for i, x in enumerate(out) if x[0].startswith("nested") and "+" not in x[0]}
    out += [(f"{n}+innerctx-{ipick[n]}", s, b) for n, s, b in out if n in ipick]
    # steps (without nested optimization) run with transforms -- variable / objective / non-linear constraint scalers -- and
    # with finite bounds and/or linear constraints, so that results without functions still carry a ConstraintInfo that
    # has to be transformed back before FINISHED_EVALUATION is emitted (events and exit codes must not depend on it)
    tpick = {"opt-toofew-mid": ("all", True, False), "eval-toofew": ("constraints", False, True),
             "eval-batch-toofew": ("all", True, True), "three-steps": ("constraints", True, False),
             "basic-toofew": ("all", True, True), "rerun-steps": ("variables", True, True)}
    for n, steps, b in list(out):
        if n in tpick:
            tr, bounds, linear = tpick[n]
            out.append((f"{n}+tr-{tr}", [{**st, "case": {**st["case"], "transform": tr, "bounds": bounds, "linear": linear}}
                                        for st in steps], b))
    return out


def _obs(*specs):
    return [{"id": OBS_BASE + i, "events": e} for i, e in enumerate(specs)]


# (handlers per plan level, observers).  Every event has a recipient on every level in each of them.
LAYOUTS = [
    ([1, 1, 1], _obs("all")),
    ([2, 1, 1], _obs("all")),
    ([1, 2, 1], _obs("all", "all")),
    ([0, 1, 2], _obs("all", [1, 2])),
    ([1, 0, 0], _obs([3, 4, 5, 6], [1])),
    ([3, 0, 1], []),
]
BASIC_LAYOUTS = [
    ([1], _obs("all") + [{"id": ABORT_CB, "events": [1]}, {"id": RESULTS_CB, "events": [2]}]),
    ([1], _obs("all", [2, 4]) + [{"id": ABORT_CB, "events": [1]}, {"id": RESULTS_CB, "events": [2]}]),
]


def _depth(steps):
    return max([0] + [c14.depth(c14.root(s["case"])) for s in steps if s["type"] == "optimizer"])


def _random_scenario(rng):
    def rreq(allow_batch=True, kinds=("F", "F", "G", "FG")):
        kind = rng.choice(kinds)
        batch = rng.choice([0, 0, 0, 1, 2]) if kind == "F" and allow_batch else 0
        fm = None
        if rng.random() < 0.2:
            fm = [[rng.random() < 0.5 for _ in range(2)] for _ in range(max(1, batch))]
        return _req(kind, rng.choice([0, 1]), batch, fm)

    def rnode(levels):
        n = rng.randint(1, 2)
        if levels == 0:
            sc = ([_req("F")] if rng.random() < 0.7 else []) + [rreq(False) for _ in range(rng.randint(1, 2))]
            return _node(sc, None, rng.choice([1, 2]), rng.choice([None, 1, 2]))
        return _node([rreq(False, ("F", "FG")) for _ in range(n)], [rnode(levels - 1) for _ in range(n)], rng.choice([1, 2]),
                     rng.choice([None, None, 1, 2]))
    steps = []
    for _ in range(rng.randint(1, 3)):
        u = rng.random()
        if u < 0.3:
            b = rng.choice([0, 0, 2])
            steps.append(_evs(b, None if rng.random() < 0.6 else [[rng.random() < 0.4 for _ in range(2)] for _ in range(max(1, b))]))
        elif u < 0.6:
            steps.append(_opt([rreq() for _ in range(rng.randint(1, 4))], rmin=rng.choice([0, 1, 2]), allow=rng.random() < 0.5,
                              maxf=rng.choice([None, None, 1, 2, 3])))
        else:
            n = rng.randint(1, 3)
            levels = rng.choice([0, 0, 1])
            steps.append(_opt([rreq(False, ("F", "FG")) for _ in range(n)], rmin=rng.choice([1, 2]), maxf=rng.choice([None, None, 1, 2]),
                              tree=[rnode(levels) for _ in range(n)]))
    if len(steps) > 1 and rng.random() < 0.3:
        j = rng.randrange(len(steps) - 1)
        steps.append({**steps[j], "sid": j})
    return _number(steps)


def _length_of(case):
    """Length of the unaborted log, computed on the real code (generation time)."""
    return len(_scenario({**case, "k": None}, None)["log"])


def gen_cases(tier, rng):
    scen = scenario_family(tier)
    if tier == "thorough":
        for i in range(60):
            scen.append((f"random-{i}", _random_scenario(rng), False))
    nl = 0
    for name, steps, basic in scen:
        if basic:
            layouts = BASIC_LAYOUTS
        elif tier == "thorough" and not name.startswith("random") and "+" not in name:
            layouts = LAYOUTS
        else:
            # quick / random scenarios: two or three layouts per scenario, rotating through all of them
            layouts = [LAYOUTS[nl % len(LAYOUTS)], LAYOUTS[(nl + 3) % len(LAYOUTS)]]
            if not name.startswith(("nested3", "random")) and "+" not in name:
                layouts.append(LAYOUTS[(nl + 4) % len(LAYOUTS)])
            if tier == "quick" and "+" in name and name.startswith("nested3"):
                layouts = layouts[:1]          # (the long three-level variants: one layout in the quick tier)
        nl += 1
        d = _depth(steps)
        for plans, observers in layouts:
            levels = 1 if basic else max(d + 1, 2 if nl % 2 else d + 1)     # sometimes a plan level that is never used
            base = {"name": name, "plans": plans[:levels], "observers": observers, "steps": steps, "basic": basic}
            if "+reparent-" in name:
                base["reparent"] = name.split("+reparent-")[1]
            if "+innerctx-" in name:
                base["innerctx"] = name.split("+innerctx-")[1]
            D = _scenario({**base, "k": None}, None)["log"]
            n = len(D)
            yield {**base, "k": None}
            # a BasicOptimizer object that is run again: every run has its own plan, abort points of the last run only
            first = next((i for i, e in enumerate(D) if e[0] != CALL and e[1] == len(steps) - 1), n) if basic and len(steps) > 1 else 0
            for k in range(first, n + 1):
                yield {**base, "k": k}


# ---------------------------------------------------------------------------------------------
# Gallina printer
# ---------------------------------------------------------------------------------------------
def _step_term(spec):
    c = spec["case"]
    if spec["type"] == "evaluator":
        t = f"(SEval {c14.cfg_term(c)} {cq.lst(c14._req_term(c, r) for r in c['script'])})"
    else:
        t = f"(SOpt {c14.tree_term(c14.root(c))})"
    return f"({cq.nat(spec['sid'])}, {t})"


def _entry(e):
    if e[0] == CALL:
        return "(-1)"
    if not (0 <= e[0] < 100 and 0 <= e[1] < 1000 and 0 <= e[2] < 10):
        raise ValueError(f"log entry out of range: {e}")
    return str(e[0] * 10000 + e[1] * 10 + e[2])


def _run_term(o):
    exits = cq.lst(f"({int(s)}, {int(c)})" for s, c in o["exits"]) + "%Z"
    return (f"(Build_robs {cq.lst(_entry(e) for e in o['log'])}%Z {exits} {cq.bs(o['flags'])} "
            f"{cq.b(o['probe'] == 'PlanAborted')} {cq.b('exc' in o)})")


def coq_case(case, obs):
    plans = cq.lst(cq.nats(10 * j + i for i in range(n)) for j, n in enumerate(case["plans"]))
    observers = cq.lst(f"({cq.nat(ob['id'])}, {cq.zs(_events_of(ob))})" for ob in case["observers"])
    return (f"(Build_case {plans} {observers} {cq.lst(_step_term(s) for s in case['steps'])} {cq.b(bool(case.get('basic')))} "
            f"{cq.opt(case['k'], cq.nat)} {_run_term(obs['full'])} {_run_term(obs['run'])})")


# ---------------------------------------------------------------------------------------------
# evidence helpers, shrinking, search
# ---------------------------------------------------------------------------------------------
def nontrivial(case, obs):
    return case["k"] is not None and case["k"] < len(obs["full"]["log"])


def _raiser(who):
    if who == CALL:
        return "evaluator"
    if who == ABORT_CB:
        return "abort-callback"
    if who == RESULTS_CB:
        return "results-callback"
    if who >= OBS_BASE:
        return "observer"
    return f"handler-level{who // 10}"


def features(case, obs):
    D, k = obs["full"]["log"], case["k"]
    at, rcpt = "none", "none"
    if k is not None and k < len(D):
        who, sid, ev = D[k]
        at = "evaluator-call" if who == CALL else {1: "START_EVALUATION", 2: "FINISHED_EVALUATION", 3: "START_OPTIMIZER_STEP",
                                                    4: "FINISHED_OPTIMIZER_STEP", 5: "START_EVALUATOR_STEP",
                                                    6: "FINISHED_EVALUATOR_STEP"}[ev] + (f"/level{sid // 100}" if sid >= 100 else "")
        rcpt = _raiser(who)
    return {"scenario": case["name"] if not case["name"].startswith("random") else "random", "abort_at": at, "raiser": rcpt,
            "layout": f"{case['plans']}/{[ob['events'] if ob['events'] == 'all' else len(ob['events']) for ob in case['observers']]}",
            "log_len": min(120, 20 * (len(D) // 20)), "entry": "BasicOptimizer" if case.get("basic") else "Plan",
            "depth": _depth(case["steps"])}


def shrink(case):
    if len(case["steps"]) > 1:
        for i in range(len(case["steps"])):
            yield {**case, "steps": case["steps"][:i] + case["steps"][i + 1:]}
    # (a BasicOptimizer object run twice: only abort points of the last run are in the model's domain)
    rerun = case.get("basic") and len(case["steps"]) > 1
    if case["k"] is not None and case["k"] > 0 and not rerun:
        yield {**case, "k": case["k"] - 1}


def search(rng, case):
    if case is None or (case.get("basic") and len(case["steps"]) > 1):
        return
    for k in range(0, 80):
        yield {**case, "k": k}


MANIFEST = {
    "level_text": ("Machine-checked Coq proof about the executable delivery / abort machine of plan runs (Model/Events.v: Plan.emit_event "
                   "recipient order with observers registered per event type, run_step with START / body / FINISHED, latched "
                   "Plan._aborted, nested plans to any depth; step bodies compiled from the C14 machine), for every world of handlers "
                   "and observers, every sequence of steps with arbitrary nesting and EVERY abort index: the aborted run's log is the "
                   "unaborted log cut after the aborting entry followed by the FINISHED events of the open steps, innermost first "
                   "(C15_prefix_closure), no step at any depth stays open (C15_all_steps_closed), the plan is marked aborted, every "
                   "step containing the entry returns USER_ABORT and every later run_step is refused (C15_abort_latches, "
                   "C15_aborted_step_reports_user_abort, C15_once_aborted_every_step_refused, C15_unaborted); every run_step log starts "
                   "with its START and ends with its FINISHED event whatever the abort index (C15_step_bracketed); evaluation events "
                   "alternate START/FINISHED and a START stays unmatched only when the evaluator raised or aborted inside it "
                   "(C15_evaluations_paired, C15_evaluator_step_events); events go to the emitting plan's handlers, then the "
                   "ancestors', then the observers of that event type, each exactly once (C15_delivery_order, C15_delivery_members, "
                   "C15_delivered_once).  Tied to the code on every run by an in-Coq correspondence over real Plans (nesting depth "
                   "<= 3, steps re-run, BasicOptimizer with its abort / results callbacks) in which every delivery index and evaluator "
                   "call of every scenario is used as the abort point; the prefix-closure, all-closed and block predicates are also "
                   "evaluated in Coq on the implementation's logs alone."),
    "level_note": ("Trusted / modelled, not verified: handlers, observers and the evaluator do nothing but raise OptimizationAborted(USER_ABORT) "
                   "at the chosen log index; other exceptions from handlers are outside the property; step bodies come from Model/Step.v "
                   "(C14); nesting depth in the correspondence is 3 (the theorems hold for any program tree); the wf/quiet/non-empty-"
                   "recipient side conditions of the theorems are evaluated by the checker on every compiled scenario (hypotheses_ok) "
                   "and wf / quiet are proved for everything the compiler produces (C15_compiled_steps_satisfy_hypotheses, "
                   "C15_every_compiled_scenario).  BasicOptimizer.run() called twice on one object used to register its callbacks twice (F15d, fixed in "
                   "522b7ae): scenario basic-rerun.  "
                   "Trusted: Coq kernel + VM, the recording handler plug-in, observers, callbacks and scripted optimizer of "
                   "harness/props/C15.py and C14.py.  All theorems print 'Closed under the global context'."),
    "technique": ("Coq proof (simulation invariant by induction over program trees: aborted log = prefix + closure; stack invariant over "
                  "every log prefix; latching by induction over step sequences) + exhaustive-over-abort-points in-Coq differential "
                  "correspondence with real Plan / BasicOptimizer runs"),
    "design_ref": "DESIGN.md section 4, C15",
}
