"""C15 -- event streams are well formed and aborts latch the plan, at every abort point.

Correspondence: real `Plan`s (a sequence of optimizer / evaluator steps on one plan, optionally with a
nested plan run inside every outer evaluation) with recording handlers (a handler plug-in registered
through PluginManager.add_plugin) on every plan level, recording observers for all event types and a
recording evaluator.  Every delivery (recipient, emitting step, event type) and every evaluator call
is one entry of a global log; the entry with index k raises OptimizationAborted(USER_ABORT).  The
unaborted log, the aborted log, the exit code of every run_step call, the Plan.aborted flags and the
PlanAborted behaviour of a further run_step are compared exactly with Model/Events.v inside Coq.
"""
from __future__ import annotations

import itertools

import coqio as cq
from props import C14 as c14

ID = "C15"
THEOREM_FILE = "Props/C15.v"
CHK_MODULE = "Check.Chk_C15"
CASE_TYPE = "Chk_C15.case"
CHECK_FN = "Chk_C15.check_case"
HEADER = "From Ropt Require Import Model.Step Model.Events."
SHARD_SIZE = 250
PARALLEL = True
CASE_TIMEOUT = 60
EXHAUSTIVE = {"quick": True, "thorough": True}
ALLOWED_AXIOMS: list[str] = []

RULE = ("exhaustive over abort points: for every scenario of a fixed family (optimizer step with <= 4 evaluations incl. batches, "
        "gradient requests, NaN failures -> TOO_FEW and max_functions stops; evaluator step; sequences of two and three steps; "
        "nested plans with outer <= 2 x inner <= 2 evaluations, failures and budget stops inside the inner and the outer run) and "
        "handler/observer layouts (1-2 handlers per plan level, 1-2 observers per event type), EVERY index k of the unaborted "
        "delivery log (each delivery to a handler or observer and each evaluator call) is used as the abort point, plus k = none; "
        "thorough adds seeded random scenarios, again with every abort index.  Non-trivial = an abort was raised (k inside the log); "
        "distinct = distinct (scenario, k).")
ASSUMPTIONS = [
    "handlers, observers and the evaluator have no effect on the run other than raising the abort at the chosen delivery index",
    "the abort is OptimizationAborted(USER_ABORT); other exceptions raised by handlers are outside the property",
    "the nested plan function runs the inner optimizer step and returns the inner tracker's result (None when no nested "
    "evaluation has produced function values yet: the outer step then ends with NESTED_OPTIMIZER_FAILED)",
    "nested runs use no transforms (known finding C11:explicit-step-variables)",
]
TRUSTED = [
    "the recording handler plug-in, observers, evaluator and scripted optimizer plug-in of harness/props/C15.py and C14.py",
    "step bodies (which evaluations happen, where too-few / budget stops occur) come from the C14 machine Model/Step.v",
]

EV = c14.EV
USER_ABORT = 4
OBS_BASE, INNER_BASE, CALL = 20, 10, -1


# ---------------------------------------------------------------------------------------------
# real-code driver
# ---------------------------------------------------------------------------------------------
_ENV = None


def _env():
    global _ENV
    import ropt
    if _ENV is not None and _ENV["ropt"] is ropt:      # re-built when the runner re-imports ropt (forked workers)
        return _ENV
    from ropt.plugins.plan.base import PlanHandlerPlugin, ResultHandler

    class Rec(ResultHandler):
        def __init__(self, plan, *, tag, world):
            super().__init__(plan)
            self.tag = tag
            self.world = world

        def handle_event(self, event):
            self.world.deliver(self.tag, event)

        def __getitem__(self, key):
            return None

    class RecPlugin(PlanHandlerPlugin):
        def create(self, name, plan, **kw):
            return Rec(plan, **kw)

        def is_supported(self, method):
            return method.lower() == "verifrec"

    _ENV = {"RecPlugin": RecPlugin, "ropt": ropt}
    return _ENV


class World:
    def __init__(self, k):
        self.k = k
        self.log = []
        self.names = {}
        self.mute = False

    def _hit(self):
        from ropt.enums import OptimizerExitCode
        from ropt.exceptions import OptimizationAborted
        if self.k is not None and len(self.log) - 1 == self.k:
            raise OptimizationAborted(exit_code=OptimizerExitCode.USER_ABORT)

    def deliver(self, who, event):
        if self.mute:
            return
        self.log.append([who, self.names.get(event.source, 99), int(event.event_type.value)])
        self._hit()

    def call(self):
        if self.mute:
            return
        self.log.append([CALL, 0, 0])
        self._hit()


class RecEvaluator(c14.FaultEvaluator):
    def __init__(self, world):
        super().__init__()
        self.world = world

    def __call__(self, variables, ctx):
        self.world.call()
        return super().__call__(variables, ctx)


def _cfg14(spec):
    """C14-style configuration dictionary of a step specification."""
    return {"R": spec["R"], "P": 1, "rmin": spec["rmin"], "pmin": 1, "allow_nan": spec["allow_nan"], "maxf": spec.get("maxf"),
            "filter": None, "estimator": "mean", "transform": "none", "order": list(range(spec["R"])), "bounds": False,
            "linear": False}


def _scenario(case, k):
    import warnings
    warnings.simplefilter("ignore")
    from ropt.enums import EventType
    from ropt.exceptions import PlanAborted
    from ropt.plan import OptimizerContext, Plan
    from ropt.plugins import PluginManager
    env14 = c14._env()
    env = _env()
    Scripted = env14["Scripted"]
    w = World(k)
    pm = PluginManager()
    pm.add_plugin("optimizer", "verifscript", env14["ScriptedPlugin"]())
    pm.add_plugin("plan_handler", "verifrec", env["RecPlugin"]())
    evaluator = RecEvaluator(w)
    ctx = OptimizerContext(evaluator=evaluator, plugin_manager=pm)
    for j in range(case["observers"]):
        for et in EventType:
            ctx.add_observer(et, lambda ev, j=j: w.deliver(OBS_BASE + j, ev))

    Scripted.evaluator = evaluator
    exits = []
    try:
        outer = Plan(ctx)
        for j in range(case["handlers"][0]):
            outer.add_handler("verifrec", tag=j, world=w)
        inner = None
        if any(s.get("inner") is not None for s in case["steps"]):
            inner = Plan(ctx)
            ist = inner.add_step("optimizer")
            w.names[ist] = 100
            itr = inner.add_handler("tracker", sources={ist})
            for j in range(case["handlers"][1]):
                inner.add_handler("verifrec", tag=INNER_BASE + j, world=w)
            state = {"cfg": None}

            def f(plan, variables):
                try:
                    code = plan.run_step(ist, config=state["cfg"], variables=variables)
                    exits.append([100, int(code.value)])
                except PlanAborted:
                    exits.append([100, -2])
                return inner.get(itr, "results")

            inner.add_function(f)
        for i, spec in enumerate(case["steps"]):
            st = outer.add_step(spec["type"])
            w.names[st] = i
            c14case = _cfg14(spec)
            cfg = c14.make_config(c14case)
            try:
                if spec["type"] == "optimizer":
                    Scripted.queue[:] = [{"script": spec["script"], "allow_nan": spec["allow_nan"], "case14": c14case}]
                    kw = {}
                    if spec.get("inner") is not None:
                        ic = _cfg14(spec["inner"])
                        state["cfg"] = c14.make_config(ic)
                        for sc in spec["inner"]["scripts"]:
                            Scripted.queue.append({"script": sc, "allow_nan": spec["inner"]["allow_nan"], "case14": ic})
                        kw["nested_optimization"] = inner
                    code = outer.run_step(st, config=cfg, **kw)
                else:
                    req = spec["script"][0]
                    evaluator.pending, evaluator.pcase = req.get("fault"), c14case
                    variables = ([[0.25 * (req["pt"] + j), 0.0] for j in range(req["batch"])] if req["batch"] > 0
                                 else [0.25 * req["pt"], 0.0])
                    code = outer.run_step(st, config=cfg, variables=variables)
                exits.append([i, int(code.value)])
            except PlanAborted:
                exits.append([i, -2])
        flags = [bool(outer.aborted), bool(inner.aborted) if inner is not None else False]
        # latch probe: one more step, recording switched off
        w.mute = True
        w.k = None
        probe = outer.add_step("evaluator")
        evaluator.pending, evaluator.pcase = None, _cfg14({"R": 1, "rmin": 1, "allow_nan": False})
        try:
            outer.run_step(probe, config=c14.make_config(evaluator.pcase))
            probe_out = "ran"
        except PlanAborted:
            probe_out = "PlanAborted"
        return {"log": w.log, "exits": exits, "flags": flags, "probe": probe_out}
    except BaseException as e:  # noqa: BLE001 - the class is the observation
        return {"log": w.log, "exits": exits, "flags": [False, False], "probe": "none", "exc": type(e).__name__}


def run_impl(case):
    full = _scenario(case, None)
    if case["k"] is None:
        return {"full": full, "run": full}
    return {"full": full, "run": _scenario(case, case["k"])}


# ---------------------------------------------------------------------------------------------
# independent Python oracle
# ---------------------------------------------------------------------------------------------
def _level(sid):
    return 1 if sid >= 100 else 0


def recipients(case, sid):
    own = [INNER_BASE + j for j in range(case["handlers"][1])] if _level(sid) == 1 else []
    return own + list(range(case["handlers"][0])) + [OBS_BASE + j for j in range(case["observers"])]


def _is_start_step(ev):
    return ev in (EV["SO"], EV["SES"])


def _is_fin_step(ev):
    return ev in (EV["FO"], EV["FES"])


def _fin_of(start_ev):
    return EV["FO"] if start_ev == EV["SO"] else EV["FES"]


def open_steps(prefix):
    """Stack (innermost last) of (step, FINISHED event) open after the prefix."""
    stack = []
    for who, sid, ev in prefix:
        if who == CALL:
            continue
        if _is_start_step(ev):
            if not stack or stack[-1][0] != sid:
                stack.append((sid, _fin_of(ev)))
        elif _is_fin_step(ev):
            if stack and stack[-1][0] == sid:
                stack.pop()
    return stack


def predict(case, full, k):
    if k is None or k >= len(full):
        return list(full)
    log = list(full[:k + 1])
    for sid, fin in reversed(open_steps(log)):
        log += [[r, sid, fin] for r in recipients(case, sid)]
    return log


def _emissions(case, log, partial_ok):
    """Split a log into emissions [(sid, ev, n_delivered)] checking recipient order; None if malformed."""
    out, i = [], 0
    while i < len(log):
        who, sid, ev = log[i]
        if who == CALL:
            out.append((None, "CALL", 1))
            i += 1
            continue
        rec = recipients(case, sid)
        n = 0
        while n < len(rec) and i + n < len(log) and log[i + n] == [rec[n], sid, ev]:
            n += 1
        if n == 0:
            return None
        if n < len(rec) and not partial_ok:
            return None
        out.append((sid, ev, n))
        i += n
    return out


def _bracketed(case, log, k):
    """Per step: START (SE CALL FE)* [SE [CALL]] FIN, steps properly nested."""
    ems = _emissions(case, log, True)
    if ems is None:
        return "delivery-order"
    # position (log index range) of every emission to relate the abort index to an evaluation
    pos, i = [], 0
    for sid, ev, n in ems:
        pos.append((i, i + n))
        i += n
    stack = []   # [sid, state, fin, eval_span_start]
    for (sid, ev, n), (a, b) in zip(ems, pos):
        if ev == "CALL":
            if not stack or stack[-1][1] != "in-eval":
                return "evaluator-call-outside-evaluation"
            stack[-1][1] = "called"
            continue
        if _is_start_step(ev):
            if stack and stack[-1][1] not in ("idle",):
                return "step-started-inside-evaluation"
            stack.append([sid, "idle", _fin_of(ev), None])
            continue
        if not stack or stack[-1][0] != sid:
            return "event-of-a-step-that-is-not-the-innermost-open-step"
        top = stack[-1]
        if ev == EV["SE"]:
            if top[1] != "idle":
                return "interleaved-START_EVALUATION"
            top[1], top[3] = "in-eval", a
        elif ev == EV["FE"]:
            if top[1] != "called":
                return "FINISHED_EVALUATION-without-its-START_EVALUATION"
            top[1] = "idle"
        elif _is_fin_step(ev):
            if ev != top[2]:
                return "wrong-FINISHED-event"
            if top[1] != "idle":
                # unmatched START_EVALUATION: only when the abort arose at or inside that evaluation
                if k is None or not (top[3] <= k < a):
                    return "unmatched-START_EVALUATION-without-abort-in-that-evaluation"
            stack.pop()
        else:
            return "unknown-event"
    if stack:
        return "FINISHED-step-event-missing"
    return None


def oracle(case, obs):
    full, run = obs["full"], obs["run"]
    for o in (full, run):
        if "exc" in o:
            return {"clause": "exception-escapes-the-step", "detail": o["exc"]}
    D, log, k = full["log"], run["log"], case["k"]
    if _emissions(case, D, False) is None:
        return {"clause": "delivery-order-exactly-once-handlers-then-ancestors-then-observers", "detail": D[:12]}
    b = _bracketed(case, D, None)
    if b:
        return {"clause": "bracketing-unaborted:" + b, "detail": D[:20]}
    if any(code == USER_ABORT or code == -2 for _, code in full["exits"]) or full["flags"] != [False, False] or full["probe"] != "ran":
        return {"clause": "abort-state-without-abort", "detail": [full["exits"], full["flags"], full["probe"]]}
    aborting = k is not None and k < len(D)
    exp = predict(case, D, k)
    if log != exp:
        i = next((j for j in range(min(len(log), len(exp))) if log[j] != exp[j]), min(len(log), len(exp)))
        return {"clause": "aborted-log-is-prefix-plus-closure", "detail": {"k": k, "first_difference": i, "got": log[i:i + 6], "expected": exp[i:i + 6]}}
    b = _bracketed(case, log, k if aborting else None)
    if b:
        return {"clause": "bracketing:" + b, "detail": {"k": k}}
    if not aborting:
        if run["exits"] != full["exits"] or run["flags"] != [False, False] or run["probe"] != "ran":
            return {"clause": "no-abort-run-differs", "detail": [run["exits"], run["flags"], run["probe"]]}
        return None
    # latch: steps open at the abort (or whose FINISHED event was being delivered) report USER_ABORT, their plans
    # are aborted, further run_step calls raise PlanAborted
    pre = D[:k + 1]
    opened = [sid for sid, _ in open_steps(pre)]
    who, sid, ev = D[k]
    if who != CALL and _is_fin_step(ev) and sid not in opened:
        # the abort arose while the FINISHED event of sid was being delivered (enclosing steps are in `opened`)
        opened.append(sid)
    exp_exits = _expected_exits(case, full, opened, k)
    if run["exits"] != exp_exits:
        return {"clause": "abort-latches:exit-codes", "detail": {"k": k, "got": run["exits"], "expected": exp_exits}}
    exp_flags = [True, any(_level(s) == 1 for s in opened)]
    if run["flags"] != exp_flags:
        return {"clause": "abort-latches:plan-aborted-flags", "detail": {"k": k, "got": run["flags"], "expected": exp_flags}}
    if run["probe"] != "PlanAborted":
        return {"clause": "abort-latches:further-step-runs", "detail": run["probe"]}
    return None


def _expected_exits(case, full, opened, k):
    """Exit list of the aborted run from that of the unaborted run: run_step calls finished before the abort keep
    their code, those open at the abort return USER_ABORT (innermost first), later top-level steps raise PlanAborted."""
    ems = _emissions(case, full["log"][:k + 1], True)
    # completed step runs = FINISHED-step emissions in the prefix, except the aborting emission itself (the last one)
    done = sum(1 for j, (sid, ev, n) in enumerate(ems) if ev != "CALL" and _is_fin_step(ev) and j < len(ems) - 1)
    out = [list(x) for x in full["exits"][:done]]
    tops = [s for s in opened if _level(s) == 0]
    out += [[s, USER_ABORT] for s in opened if _level(s) == 1]
    out += [[s, USER_ABORT] for s in tops]
    last_top = tops[-1] if tops else None
    out += [[i, -2] for i in range(len(case["steps"])) if last_top is not None and i > last_top]
    return out


def known_signature(case, obs, violation):
    return None


# ---------------------------------------------------------------------------------------------
# generators
# ---------------------------------------------------------------------------------------------
def _req(kind, pt=0, batch=0, fm=None):
    return {"kind": kind, "pt": pt, "batch": batch, "fault": None if fm is None else {"fm": fm}}


def _opt(script, R=2, rmin=2, allow=False, maxf=None, inner=None):
    return {"type": "optimizer", "R": R, "rmin": rmin, "allow_nan": allow, "maxf": maxf, "script": script, "inner": inner}


def _evs(batch=0, fm=None, R=2, rmin=2):
    return {"type": "evaluator", "R": R, "rmin": rmin, "allow_nan": False, "maxf": None,
            "script": [_req("F", 0, batch, fm)], "inner": None}


def _inner(scripts, R=2, rmin=2, maxf=None):
    return {"R": R, "rmin": rmin, "allow_nan": False, "maxf": maxf, "scripts": scripts}


OK2 = None
BAD = [[False, True]]


def scenario_family(tier):
    """(name, steps) -- the fixed scenarios whose every abort index is enumerated."""
    F, G, FG = _req("F"), _req("G"), _req("FG")
    fam = [
        ("opt-FGFG", [_opt([F, G, _req("F", 1), _req("G", 1)])]),
        ("opt-FG-batch", [_opt([FG, _req("F", 0, 2), F])]),
        ("opt-toofew-mid", [_opt([F, _req("F", 1, 0, BAD), F])]),
        ("opt-budget", [_opt([F, F, F, F], maxf=2)]),
        ("opt-nan-tolerant", [_opt([F, _req("F", 1, 0, [[True, True]]), F], rmin=0, allow=True)]),
        ("eval", [_evs()]),
        ("eval-batch-toofew", [_evs(2, [[False, False], [True, False]])]),
        ("two-steps", [_opt([F, G]), _evs()]),
        ("three-steps", [_evs(), _opt([F, _req("F", 1, 0, BAD)]), _opt([FG])]),
        ("nested-2x2", [_opt([F, _req("F", 1)], inner=_inner([[F, _req("F", 1)], [F, G]]))]),
        ("nested-budget-toofew", [_opt([F, F, F], maxf=2, inner=_inner([[F, F, F], [F, _req("F", 1, 0, BAD), F], [F]], maxf=2))]),
        ("nested-then-eval", [_opt([FG], inner=_inner([[F]])), _evs()]),
        ("nested-outer-toofew", [_opt([_req("F", 0, 0, BAD), F], inner=_inner([[F], [F]]))]),
        ("nested-no-result", [_opt([F, F], inner=_inner([[_req("F", 0, 0, BAD), F], [F]]))]),
        ("nested-no-result-then-steps", [_opt([F], inner=_inner([[_req("FG", 0, 0, BAD)]])), _evs(),
                                         _opt([F, F], inner=_inner([[F], [_req("F", 1, 0, BAD)]]))]),
    ]
    if tier == "thorough":
        fam += [
            ("opt-long", [_opt([F, G, FG, _req("F", 1, 3), _req("G", 1), _req("FG", 2)])]),
            ("nested-3x3", [_opt([F, G, _req("F", 1)], inner=_inner([[F, G, FG], [F, _req("F", 1), _req("G", 1)], [FG, F, F]]))]),
            ("nested-two-nested-steps", [_opt([F], inner=_inner([[F, F]])), _opt([F, F], inner=_inner([[F], [FG]]))]),
            ("four-steps", [_evs(), _evs(2), _opt([F]), _evs()]),
        ]
    return fam


LAYOUTS = {"quick": [([1, 1], 1), ([2, 1], 1), ([1, 2], 2)], "thorough": [([1, 1], 1), ([2, 1], 1), ([1, 2], 2), ([2, 2], 2), ([3, 1], 1)]}


def _random_scenario(rng):
    def rreq(allow_batch=True):
        kind = rng.choice(["F", "F", "G", "FG"])
        batch = rng.choice([0, 0, 0, 1, 2]) if kind == "F" and allow_batch else 0
        fm = None
        if rng.random() < 0.2:
            fm = [[rng.random() < 0.5 for _ in range(2)] for _ in range(max(1, batch))]
        return _req(kind, rng.choice([0, 1]), batch, fm)
    steps = []
    for _ in range(rng.randint(1, 3)):
        u = rng.random()
        if u < 0.3:
            b = rng.choice([0, 0, 2])
            steps.append(_evs(b, None if rng.random() < 0.6 else [[rng.random() < 0.4 for _ in range(2)] for _ in range(max(1, b))]))
        elif u < 0.65:
            steps.append(_opt([rreq() for _ in range(rng.randint(1, 4))], rmin=rng.choice([0, 1, 2]), allow=rng.random() < 0.5,
                              maxf=rng.choice([None, None, 1, 2, 3])))
        else:
            n = rng.randint(1, 3)
            scripts = []
            for _ in range(n):
                sc = ([_req("F")] if rng.random() < 0.7 else []) + [rreq(False) for _ in range(rng.randint(1, 2))]
                scripts.append(sc)
            steps.append(_opt([rreq(False) for _ in range(n)], rmin=rng.choice([1, 2]), maxf=rng.choice([None, None, 1, 2]),
                              inner=_inner(scripts, maxf=rng.choice([None, 1, 2]))))
    return steps


def _length_of(case):
    """Length of the unaborted log, computed on the real code (generation time)."""
    return len(_scenario({**case, "k": None}, None)["log"])


def gen_cases(tier, rng):
    scen = [(name, steps) for name, steps in scenario_family(tier)]
    if tier == "thorough":
        for i in range(60):
            scen.append((f"random-{i}", _random_scenario(rng)))
    for name, steps in scen:
        for handlers, observers in LAYOUTS[tier]:
            if name.startswith("random") and rng.random() < 0.6:
                continue
            base = {"name": name, "handlers": handlers, "observers": observers, "steps": steps}
            n = _length_of(base)
            yield {**base, "k": None}
            for k in range(n + 1):
                yield {**base, "k": k}


# ---------------------------------------------------------------------------------------------
# Gallina printer
# ---------------------------------------------------------------------------------------------
def _spec_term(spec):
    c = _cfg14(spec)
    return c14.cfg_term(c), cq.lst(c14._req_term(c, r) for r in spec["script"])


def _step_term(spec):
    cfg, script = _spec_term(spec)
    if spec["type"] == "evaluator":
        return f"(SEval {cfg} {script})"
    if spec.get("inner") is None:
        return f"(SOpt {cfg} {script} None)"
    ic = _cfg14(spec["inner"])
    scripts = cq.lst(cq.lst(c14._req_term(ic, r) for r in sc) for sc in spec["inner"]["scripts"])
    return f"(SOpt {cfg} {script} (Some ({c14.cfg_term(ic)}, {scripts})))"


def _entry(e):
    if e[0] == CALL:
        return "(-1)"
    if not (0 <= e[0] < 100 and 0 <= e[1] < 1000 and 0 <= e[2] < 10):
        raise ValueError(f"log entry out of range: {e}")
    return str(e[0] * 10000 + e[1] * 10 + e[2])


def _run_term(o):
    exits = cq.lst(f"({int(s)}, {int(c)})" for s, c in o["exits"]) + "%Z"
    return (f"(Build_robs {cq.lst(_entry(e) for e in o['log'])}%Z {exits} {cq.b(o['flags'][0])} {cq.b(o['flags'][1])} "
            f"{cq.b(o['probe'] == 'PlanAborted')} {cq.b('exc' in o)})")


def coq_case(case, obs):
    return (f"(Build_case {cq.nats(range(case['handlers'][0]))} {cq.nats(INNER_BASE + j for j in range(case['handlers'][1]))} "
            f"{cq.nats(OBS_BASE + j for j in range(case['observers']))} {cq.lst(_step_term(s) for s in case['steps'])} "
            f"{cq.opt(case['k'], cq.nat)} {_run_term(obs['full'])} {_run_term(obs['run'])})")


# ---------------------------------------------------------------------------------------------
# evidence helpers, shrinking, search
# ---------------------------------------------------------------------------------------------
def nontrivial(case, obs):
    return case["k"] is not None and case["k"] < len(obs["full"]["log"])


def features(case, obs):
    D, k = obs["full"]["log"], case["k"]
    at = "none"
    if k is not None and k < len(D):
        who, sid, ev = D[k]
        at = "evaluator-call" if who == CALL else {1: "START_EVALUATION", 2: "FINISHED_EVALUATION", 3: "START_OPTIMIZER_STEP",
                                                    4: "FINISHED_OPTIMIZER_STEP", 5: "START_EVALUATOR_STEP",
                                                    6: "FINISHED_EVALUATOR_STEP"}[ev] + ("/inner" if sid >= 100 else "")
        rcpt = "evaluator" if who == CALL else ("observer" if who >= OBS_BASE else ("inner-handler" if who >= INNER_BASE else "outer-handler"))
    else:
        rcpt = "none"
    return {"scenario": case["name"] if not case["name"].startswith("random") else "random", "abort_at": at, "raiser": rcpt,
            "layout": f"{case['handlers']}/{case['observers']}", "log_len": min(80, 10 * (len(D) // 10))}


def shrink(case):
    if len(case["steps"]) > 1:
        for i in range(len(case["steps"])):
            yield {**case, "steps": case["steps"][:i] + case["steps"][i + 1:], "k": case["k"]}
    if case["handlers"] != [1, 1] or case["observers"] != 1:
        yield {**case, "handlers": [1, 1], "observers": 1}
    for i, s in enumerate(case["steps"]):
        if len(s["script"]) > 1 and s.get("inner") is None:
            yield {**case, "steps": case["steps"][:i] + [{**s, "script": s["script"][:-1]}] + case["steps"][i + 1:]}
    if case["k"] is not None and case["k"] > 0:
        yield {**case, "k": case["k"] - 1}


def search(rng, case):
    if case is None:
        return
    for k in range(0, 60):
        yield {**case, "k": k}


MANIFEST = {
    "level_text": ("Machine-checked Coq proof about the executable delivery / abort machine of plan runs (Model/Events.v: Plan.emit_event "
                   "recipient order, run_step with START / body / FINISHED, latched Plan._aborted, nested plans; step bodies compiled from the "
                   "C14 machine), for every world of handlers and observers, every sequence of steps with arbitrary nesting and EVERY abort "
                   "index: the aborted run's log is the unaborted log cut after the aborting entry followed by the FINISHED events of the open "
                   "steps, innermost first (C15_prefix_closure), the plan is marked aborted, every step containing the entry returns "
                   "USER_ABORT and every later run_step is refused (C15_abort_latches, C15_aborted_step_reports_user_abort, "
                   "C15_once_aborted_every_step_refused, C15_unaborted); every run_step log starts with its START and ends with its FINISHED "
                   "event whatever the abort index (C15_step_bracketed); evaluation events alternate START/FINISHED and a START stays unmatched "
                   "only when the evaluator raised or aborted inside it (C15_evaluations_paired, C15_evaluator_step_events); events go to the "
                   "emitting plan's handlers, then the ancestors', then the observers, each exactly once (C15_delivery_order, "
                   "C15_delivery_members, C15_delivered_once).  Tied to the code on every run by an in-Coq correspondence over real Plans in "
                   "which every delivery index and evaluator call of every scenario is used as the abort point."),
    "level_note": ("Trusted / modelled, not verified: handlers, observers and the evaluator do nothing but raise OptimizationAborted(USER_ABORT) "
                   "at the chosen log index; other exceptions from handlers are outside the property; step bodies come from Model/Step.v "
                   "(C14); nesting depth in the correspondence is 2 (the theorems hold for any program tree); wf/quiet side conditions are "
                   "evaluated by the checker on every compiled scenario.  Trusted: Coq kernel + VM, the recording handler plug-in, observers "
                   "and scripted optimizer of harness/props/C15.py and C14.py.  All theorems print 'Closed under the global context'."),
    "technique": ("Coq proof (simulation invariant by induction over program trees: aborted log = prefix + closure; latching by induction over "
                  "step sequences) + exhaustive-over-abort-points in-Coq differential correspondence with real Plan runs"),
    "design_ref": "DESIGN.md section 4, C15",
}
