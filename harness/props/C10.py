"""C10 -- perturbed variables honour magnitudes and boundary-type semantics.

Correspondence, two streams:
  fun  : the real `_apply_bounds` on vectors of (type, lower, upper, value) components -- all three boundary
         types, finite / one-sided / infinite bounds, values from inside the bounds to overshoots of +-40
         bound widths (repeated mirroring and the clip fall-back);
  eval : one `EnsembleEvaluator` on a validated EnOptConfig (optionally validated in the context of a VariableScaler,
         optionally sent through a dict round trip) with scripted sampler plug-ins injected through
         PluginManager.add_plugin, asked for gradients at 1-3 points in sequence (function+gradient, function then
         gradient from the cache, gradient only): absolute / relative magnitudes (scalar or per variable, zero and
         negative ones), per-variable type mixes, several samplers on disjoint variable sets, masks, -1 entries;
         observed: validated magnitudes (or rejection), and per call the order of the sampler calls, reported
         `perturbed_variables`, every row the evaluator callable received.
Both are compared with Model/Bounds.v inside Coq: exactly for few-bit dyadic inputs (every float operation is
then exact), with the DESIGN 2.2 tolerance for the full-precision stream.
"""
from __future__ import annotations

import math
from fractions import Fraction as Fr

import coqio as cq

ID = "C10"
THEOREM_FILE = "Props/C10.v"
CHK_MODULE = "Check.Chk_C10"
CASE_TYPE = "Chk_C10.case"
CHECK_FN = "Chk_C10.check_case"
HEADER = "From Ropt Require Import Model.Bounds Model.Mask Gen.Generated."
SHARD_SIZE = 120
PARALLEL = True
RULE = ("fun stream: vectors of 12-16 components (boundary type x lower/upper finite or infinite x value); bounds k/16 in "
        "[-4,4], widths 0..4, values at base + k/16 * width * {1, 1/8, 1/64}, |k| <= 640 (up to +-40 widths), plus values "
        "exactly on a bound; every vector also as a (2,3,n) array; a smaller stream with full 53-bit values. eval stream: "
        "one EnsembleEvaluator object, V in 1..5, R in 1..3, P in 1..4, boundary/perturbation types and magnitudes scalar or per "
        "variable (magnitudes k/8, occasionally zero or negative), 1-3 scripted samplers on disjoint variable sets (with -1 "
        "entries and unused samplers), optional mask, samples j/64, j/4, 4j (|j| <= 16); a request sequence of 1-3 points "
        "inside the bounds (the configured initial values or other points, earlier points revisited), each asked as "
        "function+gradient in one call, function then gradient from the cached function values, or gradient only; optionally "
        "a VariableScaler (power-of-two scales, dyadic offsets) or a dict round trip of the validated configuration; in 30% "
        "the gradient section is a GradientConfig instance the caller already used for another EnOptConfig with other bound "
        "ranges / another scaler (own magnitudes required, instance unchanged), in 25% it is derived with model_copy(update=...) "
        "from the gradient section of another validated EnOptConfig; masks written as booleans or 0/1 integers; a stream of configurations without any gradient section (defaults read "
        "from the tree under test; tolerance comparison) and without a realizations section, mostly under a scaler; "
        "relative perturbations with an infinite bound -- on a free or on a FIXED (masked-out) variable -- and arrays of a "
        "wrong size (rejected). Non-trivial = some component's "
        "pre-boundary value lies outside its bounds (fun) / some row sent to the evaluator differs from the point (eval; "
        "rejected configurations count as trivial, only the outcome kind is compared); distinct = distinct case hash.")
ASSUMPTIONS = [
    "bounds are proper: lower < +inf, upper > -inf, lower <= upper (VariablesConfig rejects lower > upper; a vector inside the bounds exists only then); the checker rejects any case that violates this",
    "values, magnitudes and samples are finite (no NaN / inf entries); the evaluated points are inside the bounds (checked)",
    "the injected sampler returns a fresh copy of its scripted array with zeros outside the variable set it was given (the sampler contract of ropt.plugins.sampler.base; C17 checks the built-in samplers against it)",
    "a VariableScaler has positive scales; it is exercised with power-of-two scales and dyadic offsets so that user and optimizer domain can be compared bit for bit; that boundary handling commutes with the positive affine map is C11_apply_bounds_equivariant (here the model is evaluated in the optimizer domain and the oracle, independently, in the user domain)",
]
TRUSTED = [
    "NumPy elementwise comparisons/where/clip on float64 (the model is exact rational arithmetic; for the dyadic stream all float operations are exact)",
    "pydantic validation machinery of EnOptConfig (only its outcome -- accepted arrays or rejection -- is observed)",
    "np.allclose(rtol=0, atol=1e-15) of the evaluator's function-value cache is modelled as |a-b| <= 10^-15 on exact rationals (generated points are equal or far apart)",
]

NONE, TRUNC, MIRROR = 1, 2, 3
ABSOLUTE, RELATIVE = 1, 2
INF = math.inf


# ---------------------------------------------------------------------------------------------------
# generators
def _bounds(rng):
    lbf = rng.random() < 0.8
    ubf = rng.random() < 0.8
    lb = rng.randint(-64, 64) / 16 if lbf else -INF
    if ubf:
        ub = (lb if lbf else rng.randint(-64, 64) / 16) + rng.choice([0, 1, 2, 4, 8, 16, 24, 40, 64]) / 16
    else:
        ub = INF
    return lb, ub


def _width(lb, ub):
    return (ub - lb) if (math.isfinite(lb) and math.isfinite(ub)) else 4.0


def _component(rng, full=False):
    lb, ub = _bounds(rng)
    t = rng.choice([NONE, TRUNC, MIRROR, MIRROR])
    w = max(_width(lb, ub), 1 / 16)
    base = lb if math.isfinite(lb) else ub if math.isfinite(ub) else 0.0
    r = rng.random()
    if r < 0.08 and math.isfinite(lb):
        y = lb
    elif r < 0.16 and math.isfinite(ub):
        y = ub
    elif full:
        y = base + rng.uniform(-40, 40) * w * rng.choice([1, 1 / 8, 1 / 64])
        if math.isfinite(lb) and rng.random() < 0.5:
            lb = lb + rng.uniform(0, 1e-3)
            ub = max(ub, lb)
    else:
        y = base + rng.randint(-640, 640) / 16 * w * rng.choice([1, 1 / 8, 1 / 64])
    return [t, lb, ub, y]


def _fun_case(rng, n, full=False):
    return {"kind": "fun", "exact": not full, "comps": [_component(rng, full) for _ in range(n)]}


def _inside(rng, lb, ub):
    if math.isfinite(lb) and math.isfinite(ub):
        return lb + rng.randint(0, 8) / 8 * (ub - lb)
    if math.isfinite(lb):
        return lb + rng.randint(0, 32) / 8
    if math.isfinite(ub):
        return ub - rng.randint(0, 32) / 8
    return rng.randint(-32, 32) / 8


def _sample_value(rng, full):
    if full:
        return rng.uniform(-1, 1) * rng.choice([1 / 16, 1, 16])
    return rng.randint(-16, 16) * rng.choice([1 / 64, 1 / 4, 1 / 4, 4])


def _eval_case(rng, full=False, force_reject=False, force_shape=False, force_scaler=None, fixed_relative=False):  # noqa: C901, PLR0912
    V = rng.randint(3, 5) if force_shape else rng.randint(1, 5)
    R = rng.randint(1, 3)
    P = rng.randint(1, 4)
    bounds = [_bounds(rng) for _ in range(V)]
    if rng.random() < 0.3:      # all finite: relative perturbations acceptable everywhere
        fixed = []
        for lb, ub in bounds:
            if not math.isfinite(lb):
                lb = (ub - 3.0) if math.isfinite(ub) else -2.0
            if not math.isfinite(ub):
                ub = lb + 3.0
            fixed.append((lb, ub))
        bounds = fixed
    if force_reject and all(math.isfinite(lb) and math.isfinite(ub) for lb, ub in bounds):
        k = rng.randrange(V)
        bounds[k] = (bounds[k][0], INF) if rng.random() < 0.5 else (-INF, bounds[k][1])
    lbs = [b[0] for b in bounds]
    ubs = [b[1] for b in bounds]

    def point():
        x = [_inside(rng, lb, ub) for lb, ub in bounds]
        if full:
            x = [min(max(v + rng.uniform(0, 1e-3), lb), ub) for v, lb, ub in zip(x, lbs, ubs)]
        return x

    x = point()
    bts = [rng.choice([NONE, TRUNC, MIRROR])] if rng.random() < 0.25 else [rng.choice([NONE, TRUNC, MIRROR, MIRROR]) for _ in range(V)]
    finite = [math.isfinite(lb) and math.isfinite(ub) for lb, ub in bounds]
    if rng.random() < 0.2:
        pts = [RELATIVE if all(finite) and rng.random() < 0.5 else ABSOLUTE]
    else:
        pts = [RELATIVE if (f and rng.random() < 0.5) else ABSOLUTE for f in finite]
    if force_reject and not all(finite):
        k = rng.choice([i for i, f in enumerate(finite) if not f])
        pts = [ABSOLUTE] * V if len(pts) == 1 else list(pts)
        pts[k] = RELATIVE
    if full:
        ms = [rng.uniform(0.05, 2.0) for _ in range(1 if rng.random() < 0.25 else V)]
    else:
        ms = [rng.randint(1, 16) / 8 for _ in range(1 if rng.random() < 0.25 else V)]
        if rng.random() < 0.12:      # a zero or negative magnitude is a valid configuration: same formula
            ms[rng.randrange(len(ms))] = rng.choice([0.0, -0.5, -1.25])
    if force_shape:                  # an array that is neither of size 1 nor of size V: rejected
        which = rng.choice(["ms", "pts", "bts"])
        if which == "ms":
            ms = [0.5] * 2
        elif which == "pts":
            pts = [ABSOLUTE] * 2
        else:
            bts = [TRUNC] * 2
    ns = rng.choice([1, 1, 2, 3])
    if ns == 1 and rng.random() < 0.6:
        gs = None
    else:
        gs = [rng.choice(list(range(ns)) + [-1]) for _ in range(V)]
        if all(g < 0 for g in gs):
            gs[rng.randrange(V)] = rng.randrange(ns)
    mask = None
    if rng.random() < 0.4:
        mask = [rng.random() < 0.6 for _ in range(V)]
        if not any(mask):
            mask[rng.randrange(V)] = True
    if fixed_relative:
        # a FIXED (masked-out) variable of RELATIVE type whose bound range is infinite; every free variable is acceptable.
        # fix_perturbations must reject the configuration: there is no range to take the fraction of (accepted, the fixed
        # variable would get an infinite magnitude and inf * 0 = NaN in every perturbed vector)
        if V == 1:
            return _eval_case(rng, full, fixed_relative=True)
        if mask is None or all(mask):
            mask = [rng.random() < 0.6 for _ in range(V)]
            mask[rng.randrange(V)] = False
            if not any(mask):
                mask[[i for i in range(V) if not mask[i]][0] - 1] = True
        k = rng.choice([i for i in range(V) if not mask[i]])
        if math.isfinite(lbs[k]) and math.isfinite(ubs[k]):
            if rng.random() < 0.5:
                ubs[k] = INF
            else:
                lbs[k] = -INF
        pts = ([pts[0]] * V if len(pts) == 1 else list(pts))
        pts = [ABSOLUTE if not (math.isfinite(lb) and math.isfinite(ub)) else p_ for p_, lb, ub in zip(pts, lbs, ubs)]
        pts[k] = RELATIVE
    scripts = [[[[_sample_value(rng, full) for _ in range(V)] for _ in range(P)] for _ in range(R)] for _ in range(ns)]
    # a VariableScaler (dyadic stream only: power-of-two scales and dyadic offsets keep every float operation exact)
    scaler = None
    use_scaler = (rng.random() < 0.3) if force_scaler is None else force_scaler
    if use_scaler and not full:
        scaler = {"scales": [rng.choice([0.25, 0.5, 2.0, 4.0]) for _ in range(V)],
                  "offsets": [rng.randint(-8, 8) / 4 for _ in range(V)]}
    # the request sequence on ONE evaluator object: 1-3 points; mode 0 = functions+gradient, 1 = functions then
    # gradient (cached function values), 2 = gradient only (also at a point whose cached values are stale)
    calls = [{"x": x if rng.random() < 0.5 else point(), "mode": rng.choice([0, 0, 1, 1, 2])}]
    for _ in range(rng.choice([0, 0, 1, 2])):
        if rng.random() < 0.3:
            xx = rng.choice(calls)["x"]      # back at an earlier point
        else:
            xx = point()
        calls.append({"x": xx, "mode": rng.choice([0, 1, 1, 2, 2])})
    return {"kind": "eval", "exact": not full, "x": x, "lbs": lbs, "ubs": ubs, "bts": bts, "pts": pts, "ms": ms,
            "gs": gs, "mask": mask, "R": R, "P": P, "scripts": scripts, "calls": calls, "scaler": scaler,
            "revalidate": scaler is None and rng.random() < 0.25,
            "mask_repr": rng.choice(["bool", "int", "ndarray_int"]),
            # the gradient section is handed over as a GradientConfig INSTANCE that the caller has already used for another
            # EnOptConfig with other bound ranges (and, sometimes, another scaler); each configuration must get the
            # magnitudes of its OWN ranges and the caller's instance must stay as written
            "shared_gradient": rng.random() < 0.3,
            # the gradient section is DERIVED from the section of another, already validated EnOptConfig with
            # model_copy(update={types, magnitudes, boundary types}) -- the normal way to vary an immutable section; the new
            # configuration must follow the formula for ITS settings (takes precedence over shared_gradient)
            "derived_gradient": rng.random() < 0.25,
            "weights": [rng.randint(1, 4) / 4 for _ in range(R)]}


def _omitted_sections_case(rng):
    """a configuration WITHOUT a gradient section (all defaults: absolute magnitude 0.005, MIRROR_BOTH, 5 perturbations; the
    values the model uses are read back from ropt.config.enopt.constants), sometimes without a realizations section too,
    mostly under a VariableScaler (offsets 0 so that the user-domain rows are exact images of the reported vectors).  The
    default magnitude is not dyadic: compared with the DESIGN 2.2 tolerance."""
    c = _eval_case(rng, force_scaler=rng.random() < 0.8)
    V, R = len(c["x"]), c["R"]
    c.update({"omit_gradient": True, "exact": False, "P": 5, "bts": [MIRROR], "pts": [ABSOLUTE], "ms": [0.005], "gs": None,
              "shared_gradient": False, "derived_gradient": False, "revalidate": False})
    c["scripts"] = [[[[_sample_value(rng, False) for _ in range(V)] for _ in range(5)] for _ in range(R)]]
    if c["scaler"] is not None:
        c["scaler"]["offsets"] = [0.0] * V
    if rng.random() < 0.5:
        c.update({"omit_realizations": True, "R": 1, "weights": [1.0], "scripts": [[s[0]] for s in c["scripts"]]})
    return c


def gen_cases(tier, rng):
    n_fun, n_fun_full, n_eval, n_eval_full, n_rej, n_sc = ((400, 40, 300, 40, 25, 60) if tier == "quick"
                                                           else (12500, 600, 5000, 400, 200, 1200))
    for _ in range(n_fun):
        yield _fun_case(rng, rng.randint(12, 16))
    for _ in range(n_fun_full):
        yield _fun_case(rng, 12, full=True)
    for _ in range(n_eval):
        yield _eval_case(rng)
    for _ in range(n_eval_full):
        yield _eval_case(rng, full=True)
    for _ in range(n_rej):
        yield _eval_case(rng, force_reject=True)
    for _ in range(n_rej // 2):
        yield _eval_case(rng, force_shape=True)
    for _ in range(n_rej):
        yield _eval_case(rng, fixed_relative=True)
    for _ in range(n_sc):
        yield _eval_case(rng, force_scaler=True)
    for _ in range(max(n_sc * 2 // 3, 1)):
        yield _omitted_sections_case(rng)


def _norm(case):
    """cases written before the request sequence existed (corpus, old replays): one call at the initial values"""
    if case.get("kind") == "eval" and "calls" not in case:
        case["calls"] = [{"x": case["x"], "mode": 1 if case.get("split") else 0}]
    return case


# ---------------------------------------------------------------------------------------------------
# driver: the real code
def _run_fun(case):
    import numpy as np
    from ropt.ensemble_evaluator._gradient import _apply_bounds
    comps = case["comps"]
    got = _apply_bounds(np.array([c[3] for c in comps], dtype=np.float64),
                        np.array([c[1] for c in comps], dtype=np.float64),
                        np.array([c[2] for c in comps], dtype=np.float64),
                        np.array([c[0] for c in comps], dtype=np.ubyte))
    # the shape _perturb_variables really uses: a (realizations, perturbations, variables) array against 1-D bounds
    y3 = np.tile(np.array([c[3] for c in comps], dtype=np.float64), (2, 3, 1))
    got3 = _apply_bounds(y3, np.array([c[1] for c in comps], dtype=np.float64),
                         np.array([c[2] for c in comps], dtype=np.float64), np.array([c[0] for c in comps], dtype=np.ubyte))
    same = got3.shape == (2, 3, len(comps)) and bool(np.all(got3 == got))
    from ropt.ensemble_evaluator import _gradient
    return {"got": [float(v) for v in got], "array_same": same, "mirror_repeat": int(_gradient.MIRROR_REPEAT)}


def _defaults():
    from ropt.config.enopt import constants as k
    return {"ms": [float(k.DEFAULT_PERTURBATION_MAGNITUDE)], "pts": [int(k.DEFAULT_PERTURBATION_TYPE)],
            "bts": [int(k.DEFAULT_PERTURBATION_BOUNDARY_TYPE)], "P": int(k.DEFAULT_NUMBER_OF_PERTURBATIONS)}


def _with_defaults(case, obs):
    """a case without a gradient section is judged with the defaults of the tree under test"""
    if case.get("omit_gradient") and isinstance(obs, dict) and obs.get("defaults") and obs["defaults"]["P"] == case["P"]:
        d = obs["defaults"]
        return {**case, "ms": d["ms"], "pts": d["pts"], "bts": d["bts"]}
    return case


def _run_eval(case):
    import warnings

    import numpy as np
    from ropt.config.enopt import EnOptConfig
    from ropt.ensemble_evaluator import EnsembleEvaluator
    from ropt.evaluator import EvaluatorResult
    from ropt.plugins import PluginManager
    from ropt.plugins.sampler.base import Sampler, SamplerPlugin
    from ropt.ensemble_evaluator import _gradient
    from ropt.results import GradientResults

    calls = []
    rows = []

    class ScriptedSampler(Sampler):
        def __init__(self, cfg, idx, mask, rng):
            self._idx = idx
            self._mask = mask
            self._script = np.array(cfg.samplers[idx].options["script"], dtype=np.float64)

        def generate_samples(self):
            calls.append(int(self._idx))
            s = self._script.copy()
            if self._mask is not None:
                s = np.where(self._mask, s, 0.0)
            return s

    class ScriptedPlugin(SamplerPlugin):
        def create(self, cfg, idx, mask, rng):
            return ScriptedSampler(cfg, idx, mask, rng)

        def is_supported(self, method):
            return method.lower() == "scripted"

    def evaluator(variables, ctx):
        rows.extend([float(v) for v in r] for r in variables)
        coef = np.arange(1, variables.shape[1] + 1, dtype=np.float64)
        return EvaluatorResult(objectives=(variables * coef).sum(axis=1, keepdims=True))

    V = len(case["x"])
    cfg_dict = {
        "variables": {"initial_values": case["x"], "lower_bounds": case["lbs"], "upper_bounds": case["ubs"]},
        "realizations": {"weights": case["weights"]},
        "gradient": {"number_of_perturbations": case["P"], "perturbation_magnitudes": case["ms"],
                     "perturbation_types": case["pts"], "boundary_types": case["bts"]},
        "samplers": [{"method": "verif/scripted", "options": {"script": s}} for s in case["scripts"]],
    }
    if case.get("omit_gradient"):
        del cfg_dict["gradient"]
    if case.get("omit_realizations"):
        del cfg_dict["realizations"]
    if case["mask"] is not None:
        m = case["mask"]      # written as booleans, 0/1 integers or an integer ndarray: the same mask
        how = case.get("mask_repr", "bool")
        cfg_dict["variables"]["mask"] = ([int(b) for b in m] if how == "int" else
                                         np.array([int(b) for b in m], dtype=np.int64) if how == "ndarray_int" else m)
    if case["gs"] is not None and "gradient" in cfg_dict:
        cfg_dict["gradient"]["samplers"] = case["gs"]
    transforms = None
    if case.get("scaler") is not None:
        from ropt.transforms import OptModelTransforms
        from ropt.transforms.variable_scaler import VariableScaler
        transforms = OptModelTransforms(variables=VariableScaler(np.array(case["scaler"]["scales"], dtype=np.float64),
                                                                 np.array(case["scaler"]["offsets"], dtype=np.float64)))
    caller_kept = True
    shared = None
    if case.get("derived_gradient"):
        base_dict = {**cfg_dict, "gradient": {k: v for k, v in cfg_dict["gradient"].items()
                                               if k in ("number_of_perturbations", "samplers")}}
        base_dict["gradient"]["perturbation_magnitudes"] = 0.0625
        with warnings.catch_warnings():
            warnings.simplefilter("ignore")
            try:
                base = EnOptConfig.model_validate(base_dict, context=transforms)
            except ValueError as e:
                return {"rejected": True, "message": str(e)[:200].replace("\n", " | ")}
        derived = base.gradient.model_copy(update={
            "perturbation_magnitudes": np.array(case["ms"], dtype=np.float64),
            "perturbation_types": np.array(case["pts"], dtype=np.ubyte),
            "boundary_types": np.array(case["bts"], dtype=np.ubyte)})
        cfg_dict = {**cfg_dict, "gradient": derived}
    elif case.get("shared_gradient"):
        from ropt.config.enopt import GradientConfig
        with warnings.catch_warnings():
            warnings.simplefilter("ignore")
            try:
                shared = GradientConfig.model_validate(cfg_dict["gradient"])
            except ValueError as e:
                return {"rejected": True, "message": str(e)[:200].replace("\n", " | ")}

        def snapshot(g):
            return ([float(v) for v in np.atleast_1d(g.perturbation_magnitudes)], [int(v) for v in np.atleast_1d(g.perturbation_types)],
                    [int(v) for v in np.atleast_1d(g.boundary_types)], None if g.samplers is None else [int(v) for v in np.atleast_1d(g.samplers)])
        before = snapshot(shared)
        # the caller's other configuration: every finite range widened and shifted, no scaler / another scaler
        other = {**cfg_dict, "gradient": shared,
                 "variables": {**cfg_dict["variables"],
                               "lower_bounds": [lb - 1.0 if math.isfinite(lb) else lb for lb in case["lbs"]],
                               "upper_bounds": [ub + 2.0 if math.isfinite(ub) else ub for ub in case["ubs"]]}}
        other_tr = None
        if transforms is None and len(case["x"]) % 2 == 0:
            from ropt.transforms import OptModelTransforms
            from ropt.transforms.variable_scaler import VariableScaler
            other_tr = OptModelTransforms(variables=VariableScaler(np.full(V, 4.0), np.full(V, 0.5)))
        with warnings.catch_warnings():
            warnings.simplefilter("ignore")
            try:
                EnOptConfig.model_validate(other, context=other_tr)
            except ValueError:
                pass
        cfg_dict = {**cfg_dict, "gradient": shared}
    with warnings.catch_warnings():
        warnings.simplefilter("ignore")
        try:
            cfg = EnOptConfig.model_validate(cfg_dict, context=transforms)
            if shared is not None:
                caller_kept = snapshot(shared) == before
            if case.get("revalidate"):      # a round trip through a dict must not change the magnitudes
                cfg = EnOptConfig.model_validate(cfg.model_dump())
        except ValueError as e:      # pydantic ValidationError is a ValueError
            return {"rejected": True, "message": str(e)[:200].replace("\n", " | ")}
    pm = PluginManager()
    pm.add_plugin("sampler", "verif", ScriptedPlugin())
    out_calls = []
    with warnings.catch_warnings():
        warnings.simplefilter("ignore")
        ee = EnsembleEvaluator(cfg, transforms, evaluator, pm)
        for call in case["calls"]:
            xu = np.array(call["x"], dtype=np.float64)
            x = xu if transforms is None else transforms.variables.to_optimizer(xu)
            del calls[:], rows[:]
            if call["mode"] == 1:
                ee.calculate(x, compute_functions=True, compute_gradients=False)
                res = ee.calculate(x, compute_functions=False, compute_gradients=True)
            else:
                res = ee.calculate(x, compute_functions=call["mode"] == 0, compute_gradients=True)
            g = [r for r in res if isinstance(r, GradientResults)]
            assert len(g) == 1
            pert = g[0].evaluations.perturbed_variables
            out_calls.append({"order": list(calls),
                              "pert": [[[float(v) for v in row] for row in mat] for mat in pert],
                              "res_x": [float(v) for v in g[0].evaluations.variables],
                              "rows": [list(r) for r in rows]})
    return {"rejected": False,
            "mags": [float(v) for v in cfg.gradient.perturbation_magnitudes],
            "bts": [int(v) for v in cfg.gradient.boundary_types],
            "calls": out_calls, "V": V, "mirror_repeat": int(_gradient.MIRROR_REPEAT), "caller_kept": caller_kept,
            "defaults": _defaults()}


def run_impl(case):
    _norm(case)
    return _run_fun(case) if case["kind"] == "fun" else _run_eval(case)


# ---------------------------------------------------------------------------------------------------
# Gallina printer
def _mag(vals):
    return max([abs(v) for v in vals if math.isfinite(v)] + [1.0])


def _arr3(a):
    return cq.lst(cq.lst(cq.qs(row) for row in mat) for mat in a)


def coq_case(case, obs):
    _norm(case)
    case = _with_defaults(case, obs)
    if case["kind"] == "fun":
        comps = case["comps"]
        S = _mag([v for c in comps for v in c[1:]] + obs["got"])
        return ("(CFun (Build_fcase {} {} {} {} {} {} {}))".format(
            cq.b(case["exact"]), cq.q(S), cq.zs(c[0] for c in comps), cq.ers(c[1] for c in comps),
            cq.ers(c[2] for c in comps), cq.qs(c[3] for c in comps), cq.qs(obs["got"])))
    V = len(case["x"])
    sc = case.get("scaler") or {"scales": [1.0] * V, "offsets": [0.0] * V}
    flat = case["x"] + case["lbs"] + case["ubs"] + [v for c in case["calls"] for v in c["x"]]
    if not obs["rejected"]:
        flat = flat + [v for c in obs["calls"] for m in c["pert"] for r in m for v in r] \
                    + [v for c in obs["calls"] for r in c["rows"] for v in r]
    S = _mag(flat)
    gs = "None" if case["gs"] is None else f"(Some {cq.zs(case['gs'])})"
    mask = "None" if case["mask"] is None else f"(Some {cq.bs(case['mask'])})"
    scripts = cq.lst(_arr3(s) for s in case["scripts"])
    if obs["rejected"]:
        o = "true true [] []"
    else:
        calls = cq.lst("(Build_ecall {} {} {} {} {} {})".format(
            cq.qs(c["x"]), cq.z(c["mode"]), cq.zs(oc["order"]), cq.qs(oc["res_x"]), _arr3(oc["pert"]),
            cq.lst(cq.qs(r) for r in oc["rows"])) for c, oc in zip(case["calls"], obs["calls"]))
        o = "false {} {} {}".format(cq.b(obs.get("caller_kept", True)), cq.qs(obs["mags"]), calls)
    return ("(CEval (Build_ecase {} {} {} {} {} {} {} {} {} {} {} {} {} {}))".format(
        cq.b(case["exact"]), cq.q(S), cq.ers(case["lbs"]), cq.ers(case["ubs"]), cq.qs(sc["scales"]), cq.qs(sc["offsets"]),
        cq.zs(case["bts"]), cq.zs(case["pts"]), cq.qs(case["ms"]), gs, mask, cq.nat(case["R"]), scripts, o))


# ---------------------------------------------------------------------------------------------------
# oracle: the property text evaluated on the implementation's output (exact rational arithmetic, no model)
def _F(v):
    return Fr(v)


def _near(a, b, S):
    return abs(_F(a) - b) <= Fr(1, 10**12) * _F(S) + Fr(1, 10**9) * abs(b)


def _fold(lb, ub, pre, rep):
    """the value a point reflected back and forth between two finite walls ends at, for overshoots of at most 2*rep
    bound widths (rep = the repeat count the implementation documents: "repeat the mirroring a few times"); None beyond"""
    lo, hi = _F(lb), _F(ub)
    w = hi - lo
    d = lo - pre if pre < lo else pre - hi
    if w <= 0 or d <= 0 or d > 2 * rep * w:
        return None
    n = -((-d) // (2 * w)) - 1          # 2nw < d <= 2(n+1)w
    e = d - 2 * n * w
    if pre < lo:
        return lo + e if e <= w else lo + 2 * w - e
    return hi - e if e <= w else hi - 2 * w + e


def _component_clauses(t, lb, ub, pre, got, exact, S, where, rep=None):
    """pre: Fraction (the pre-boundary value), got: float (implementation)."""
    eq = (lambda a, b: _F(a) == b) if exact else (lambda a, b: _near(a, b, S))
    lo_ok = (not math.isfinite(lb)) or _F(lb) <= pre
    hi_ok = (not math.isfinite(ub)) or pre <= _F(ub)
    if t == NONE and not eq(got, pre):
        return {"clause": "none-left-untouched", "detail": {"at": where, "pre": float(pre), "got": got, "lb": lb, "ub": ub}}
    if lo_ok and hi_ok and not eq(got, pre):
        return {"clause": "inside-never-altered", "detail": {"at": where, "type": t, "pre": float(pre), "got": got, "lb": lb, "ub": ub}}
    if t != NONE and not (lb <= got <= ub):
        return {"clause": "within-bounds", "detail": {"at": where, "type": t, "pre": float(pre), "got": got, "lb": lb, "ub": ub}}
    if t == TRUNC:
        want = pre if (lo_ok and hi_ok) else (_F(lb) if not lo_ok else _F(ub))
        if not eq(got, want):
            return {"clause": "truncate-clips-to-bound", "detail": {"at": where, "pre": float(pre), "got": got, "lb": lb, "ub": ub}}
    if t == MIRROR:
        if not lo_ok:
            r = 2 * _F(lb) - pre
            if ((not math.isfinite(ub)) or r <= _F(ub)) and not eq(got, r):
                return {"clause": "mirror-reflects-at-violated-bound", "detail": {"at": where, "pre": float(pre), "got": got, "lb": lb, "ub": ub}}
        elif not hi_ok:
            r = 2 * _F(ub) - pre
            if ((not math.isfinite(lb)) or _F(lb) <= r) and not eq(got, r):
                return {"clause": "mirror-reflects-at-violated-bound", "detail": {"at": where, "pre": float(pre), "got": got, "lb": lb, "ub": ub}}
        if rep is not None and math.isfinite(lb) and math.isfinite(ub):
            z = _fold(lb, ub, pre, rep)
            if z is not None and not eq(got, z):
                return {"clause": "mirror-repeated-reflection", "detail": {"at": where, "pre": float(pre), "got": got, "want": float(z), "lb": lb, "ub": ub}}
    return None


def _bcast(a, n):
    return list(a) * n if len(a) == 1 else list(a)


def _expected_mags(case):
    """user-domain magnitudes: the configured absolute value, or the configured fraction of the bound range;
    None = must be rejected (RELATIVE on an infinite bound), "shape" = an array of a wrong size"""
    V = len(case["x"])
    if any(len(a) not in (1, V) for a in (case["pts"], case["ms"], case["bts"])):
        return "shape"
    pts, ms = _bcast(case["pts"], V), _bcast(case["ms"], V)
    out = []
    for p, m, lb, ub in zip(pts, ms, case["lbs"], case["ubs"]):
        if p == RELATIVE:
            if not (math.isfinite(lb) and math.isfinite(ub)):
                return None
            out.append((_F(ub) - _F(lb)) * _F(m))
        else:
            out.append(_F(m))
    return out


def oracle(case, obs):  # noqa: C901, PLR0911, PLR0912
    _norm(case)
    case = _with_defaults(case, obs)
    if case["kind"] == "fun":
        if len(obs["got"]) != len(case["comps"]):
            return {"clause": "shape", "detail": len(obs["got"])}
        if obs.get("array_same") is False:
            return {"clause": "shape", "detail": "the (R, P, V) array is not processed row by row like a single vector"}
        S = _mag([v for c in case["comps"] for v in c[1:]])
        for i, ((t, lb, ub, y), got) in enumerate(zip(case["comps"], obs["got"])):
            v = _component_clauses(t, lb, ub, _F(y), got, case["exact"], S, i, obs.get("mirror_repeat"))
            if v:
                return v
        return None
    exact = case["exact"]
    mags = _expected_mags(case)
    if mags is None or mags == "shape":
        if not obs["rejected"]:
            return {"clause": "relative-needs-finite-bounds" if mags is None else "array-size",
                    "detail": "a configuration that must be rejected was accepted"}
        return None
    if obs["rejected"]:
        return {"clause": "valid-configuration-rejected", "detail": obs.get("message")}
    if obs.get("caller_kept") is False:
        return {"clause": "caller-gradient-config-instance-changed",
                "detail": "validating an EnOptConfig rewrote the GradientConfig instance the caller passed in"}
    V, R, P = len(case["x"]), case["R"], case["P"]
    sc = case.get("scaler") or {"scales": [1.0] * V, "offsets": [0.0] * V}
    scl, off = [_F(v) for v in sc["scales"]], [_F(v) for v in sc["offsets"]]
    S = _mag(case["x"] + case["lbs"] + case["ubs"] + [v for c in obs["calls"] for m in c["pert"] for r in m for v in r]
             + [v for c in obs["calls"] for r in c["rows"] for v in r])
    eq = (lambda a, b: _F(a) == b) if exact else (lambda a, b: _near(a, b, S))
    # the stored magnitude, taken back to the user's units, is the configured one
    if len(obs["mags"]) != V or any(not eq(a, b / s) for a, b, s in zip(obs["mags"], mags, scl)):
        return {"clause": "magnitude-absolute-or-fraction-of-range",
                "detail": {"got_optimizer_domain": obs["mags"], "want_user_domain": [float(m) for m in mags], "scales": sc["scales"]}}
    if len(obs["calls"]) != len(case["calls"]):
        return {"clause": "shape", "detail": "missing calls"}
    # the sample of variable v: the script of the sampler owning it (zero when none / masked out)
    bts = _bcast(case["bts"], V)
    owner = []
    for v in range(V):
        free = case["mask"] is None or case["mask"][v]
        if case["gs"] is None:
            owner.append(0 if free else None)
        else:
            owner.append(case["gs"][v] if (free and case["gs"][v] >= 0) else None)
    cached = None
    for k, (call, oc) in enumerate(zip(case["calls"], obs["calls"])):
        x = call["x"]
        pert = oc["pert"]
        if len(pert) != R or any(len(m) != P for m in pert) or any(len(r) != V for m in pert for r in m):
            return {"clause": "shape", "detail": "perturbed_variables is not (R, P, V)"}
        # which function rows the evaluator must have seen (functions requested, or no usable cached values)
        if call["mode"] == 0:
            nfun, cached = R, None
        elif call["mode"] == 1:
            nfun, cached = R, list(x)
        else:
            nfun = 0 if cached == list(x) else R
            cached = cached if nfun == 0 else None
        rows = oc["rows"]
        if len(rows) != nfun + R * P or rows[:nfun] != [x] * nfun:
            return {"clause": "evaluator-rows", "detail": {"call": k, "n_rows": len(rows), "expected": nfun + R * P}}
        prow = rows[nfun:]
        # the evaluator sees the user domain: x + magnitude * sample, boundary-processed with the user's bounds
        for r in range(R):
            for p in range(P):
                urow = prow[r * P + p]
                for v in range(V):
                    s = _F(case["scripts"][owner[v]][r][p][v]) if owner[v] is not None else Fr(0)
                    pre = _F(x[v]) + mags[v] * s
                    viol = _component_clauses(bts[v], case["lbs"][v], case["ubs"][v], pre, urow[v], exact, S, [k, r, p, v],
                                              obs.get("mirror_repeat"))
                    if viol:
                        return viol
                    # the reported (optimizer-domain) perturbed variable is the same point
                    if not eq(pert[r][p][v], (_F(urow[v]) - off[v]) / scl[v]):
                        return {"clause": "evaluator-rows-are-the-reported-perturbed-variables",
                                "detail": {"call": k, "at": [r, p, v], "reported": pert[r][p][v], "row": urow[v]}}
        if any(not eq(a, (_F(b) - o) / sv) for a, b, o, sv in zip(oc["res_x"], x, off, scl)):
            return {"clause": "gradient-result-at-the-requested-point", "detail": {"call": k, "got": oc["res_x"], "x": x}}
    return None


# ---------------------------------------------------------------------------------------------------
def nontrivial(case, obs):
    _norm(case)
    if case["kind"] == "fun":
        return any(not (lb <= y <= ub) for _, lb, ub, y in case["comps"])
    if obs["rejected"]:
        return False      # rejected at configuration time: only the outcome kind is compared
    return any(row != c["x"] for c, oc in zip(case["calls"], obs["calls"]) for row in oc["rows"])


def _overshoot(lb, ub, y):
    if lb <= y <= ub:
        return "inside"
    w = _width(lb, ub)
    d = (lb - y) if y < lb else (y - ub)
    return "single" if d <= w else "multi" if d <= 3 * w else "clip-fallback"


def features(case, obs):
    _norm(case)
    if case["kind"] == "fun":
        f = {"kind": "fun" if case["exact"] else "fun-fullprec"}
        c = case["comps"][0]
        f["type0"] = {1: "NONE", 2: "TRUNCATE", 3: "MIRROR"}[c[0]]
        f["bounds0"] = ("fin" if math.isfinite(c[1]) else "-inf") + "/" + ("fin" if math.isfinite(c[2]) else "+inf")
        f["overshoot0"] = _overshoot(c[1], c[2], c[3])
        return f
    return {"kind": "eval" if case["exact"] else "eval-fullprec", "V": len(case["x"]), "R": case["R"], "P": case["P"],
            "samplers": len(case["scripts"]), "gs": case["gs"] is not None, "mask": case["mask"] is not None,
            "relative": RELATIVE in case["pts"], "rejected": obs["rejected"],
            "calls": len(case["calls"]), "first_mode": ["f+g", "f,g(cached)", "g-only"][case["calls"][0]["mode"]],
            "revisit": any(case["calls"][j]["x"] == case["calls"][i]["x"] for j in range(len(case["calls"])) for i in range(j)),
            "scaler": case.get("scaler") is not None,
            "revalidate": bool(case.get("revalidate")), "shared_gradient_instance": bool(case.get("shared_gradient")) and not case.get("derived_gradient"),
            "derived_gradient_section": bool(case.get("derived_gradient")),
            "gradient_section_omitted": bool(case.get("omit_gradient")), "realizations_section_omitted": bool(case.get("omit_realizations")),
            "mask_written_as": case.get("mask_repr", "bool") if case["mask"] is not None else "-", "x_is_initial": case["calls"][0]["x"] == case["x"],
            "nonpositive_magnitude": any(m <= 0 for m in case["ms"]),
            "mixed_none": NONE in case["bts"] and len(set(case["bts"])) > 1,
            "relative_on_fixed_infinite": case["mask"] is not None and len(case["pts"]) == len(case["x"]) and any(
                p == RELATIVE and not m and not (math.isfinite(a) and math.isfinite(b))
                for p, m, a, b in zip(case["pts"], case["mask"], case["lbs"], case["ubs"])),
            "half_open": any(math.isfinite(a) != math.isfinite(b) for a, b in zip(case["lbs"], case["ubs"])),
            "bts_scalar": len(case["bts"]) == 1}


def known_signature(case, obs, violation):
    return None


def shrink(case):
    _norm(case)
    if case["kind"] == "fun":
        comps = case["comps"]
        if len(comps) > 1:
            for k in range(len(comps)):
                yield {**case, "comps": [comps[k]]}
        return
    R, P = case["R"], case["P"]
    if len(case["calls"]) > 1:
        for k in range(len(case["calls"])):
            yield {**case, "calls": case["calls"][:k] + case["calls"][k + 1:]}
    if case.get("scaler") is not None:
        yield {**case, "scaler": None}
    if case.get("revalidate"):
        yield {**case, "revalidate": False}
    if R > 1:
        yield {**case, "R": 1, "weights": case["weights"][:1], "scripts": [s[:1] for s in case["scripts"]]}
    if P > 1:
        yield {**case, "P": 1, "scripts": [[m[:1] for m in s] for s in case["scripts"]]}
    V = len(case["x"])
    if V > 1:
        for k in range(V):
            keep = [i for i in range(V) if i != k]
            sub = lambda a: [a[i] for i in keep] if len(a) == V else a   # noqa: E731
            gs = None if case["gs"] is None else sub(case["gs"])
            mask = None if case["mask"] is None else sub(case["mask"])
            if (gs is not None and all(g < 0 for g in gs)) or (mask is not None and not any(mask)):
                continue
            c = {**case, "x": sub(case["x"]), "lbs": sub(case["lbs"]), "ubs": sub(case["ubs"]), "gs": gs, "mask": mask,
                 "bts": sub(case["bts"]) if len(case["bts"]) == V else case["bts"],
                 "pts": sub(case["pts"]) if len(case["pts"]) == V else case["pts"],
                 "ms": sub(case["ms"]) if len(case["ms"]) == V else case["ms"],
                 "scripts": [[[sub(row) for row in m] for m in s] for s in case["scripts"]],
                 "calls": [{**cl, "x": sub(cl["x"])} for cl in case["calls"]],
                 "scaler": None if case.get("scaler") is None else {"scales": sub(case["scaler"]["scales"]),
                                                                    "offsets": sub(case["scaler"]["offsets"])}}
            yield c


def search(rng, case):
    if case is None or case["kind"] == "fun":
        for _ in range(600):
            yield _fun_case(rng, 12)
    if case is None or case["kind"] == "eval":
        for _ in range(400):
            yield _eval_case(rng)


MANIFEST = {
    "level_text": ("Machine-checked Coq proof, for every shape, every value however far outside and all proper bounds (finite, "
                   "one-sided, infinite), that the executable model of _apply_bounds/_perturb_variables (Model/Bounds.v, with "
                   "MIRROR_REPEAT and the enum codes regenerated from the source) returns x + magnitude*sum-of-samples processed per "
                   "variable: unchanged for NONE, clip = max(lower, min(y, upper)) for TRUNCATE_BOTH, and for MIRROR_BOTH the "
                   "reflection 2*bound - y at the violated bound whenever that lands inside, between two finite bounds the complete "
                   "closed form (n whole periods back, one reflection, one more at the opposite bound if needed, for overshoots up to "
                   "2*MIRROR_REPEAT widths; the violated bound itself beyond that); always within the bounds for the truncate and "
                   "mirror types, and never altered when already inside; magnitudes are the configured absolute value or "
                   "(upper-lower)*fraction -- also in the user's units under a VariableScaler -- and relative magnitudes are rejected "
                   "on infinite bounds. The model is tied to the code on every run by an in-Coq comparison with the real "
                   "_apply_bounds and with one EnsembleEvaluator object driven through request sequences (function+gradient, "
                   "function then cached gradient, gradient only, at the initial and at other points, with and without a "
                   "VariableScaler, after a dict round trip of the configuration) with injected scripted samplers: reported "
                   "perturbed_variables, validated magnitudes, sampler call order and every row the evaluator received, exact for "
                   "dyadic inputs."),
    "level_note": ("Not covered: NaN/inf values, improper bounds (lower=+inf, upper=-inf, lower>upper; rejected by the checker), "
                   "non-positive scales. Under a scaler the model is evaluated in the optimizer domain; that this equals boundary "
                   "handling in the user domain is proved for C11's model (C11_apply_bounds_equivariant) and judged here by the "
                   "independent user-domain oracle. Between two finite bounds the oracle demands the repeatedly reflected value for "
                   "overshoots up to 2*MIRROR_REPEAT widths (the constant is read from the tree under test) and membership beyond; "
                   "the in-Coq comparison demands the model's value everywhere. Trusted: Coq kernel + "
                   "VM, the translator (MIRROR_REPEAT, BoundaryType/PerturbationType codes), the Python driver and literal printer, "
                   "NumPy's elementwise float operations (exact on the dyadic stream; tolerance 1e-9 on the full-precision stream), "
                   "pydantic validation. All theorems print 'Closed under the global context'."),
    "technique": "Coq proof (case analysis per mirror step, induction over the repeat count, vectors and the sample array) on an executable Gallina model + in-Coq differential correspondence at function level and through EnsembleEvaluator request sequences with injected sampler plug-ins",
    "design_ref": "DESIGN.md section 4, C10",
}
