"""C18 -- validated configurations are canonical, frozen and stable under re-validation.

Correspondence: random valid configuration dictionaries (weights incl. zeros, a negative entry, the smallest accepted
sum; scalar / vector / default bounds incl. infinities, masks, variable types, both perturbation types, all boundary
types, linear and non-linear constraints, defaults, every optimizer field, option dictionaries {} / None / nested,
several filters / estimators / samplers of one method, methods with blanks; with and without a VariableScaler, a
non-linear constraint scaler and an objective scaler in the validation context), a full-precision stream, a stream
without variables, and a malformed stream (wrong lengths, crossed bounds, non-positive or tiny weight sums, wrong /
ragged coefficient columns, relative perturbations with infinite bounds, enum values out of range, zero perturbations /
thresholds, index arrays of a wrong length, arrays with one dimension too many).  The real `EnOptConfig.model_validate` result is compared field by field with Model/Config.v `validate`
inside Coq.  Every accepted configuration is validated again (a) as the object itself, without and with the context
(identical dump, object unchanged), (b) from `model_dump(round_trip=True)`, (c) from the JSON round trip of the dump,
(d) from a dictionary holding the validated sub-objects, (e) a second round from the re-validated object, and (f) from
the same dictionary spelled differently (tuples, ndarrays of the target or another dtype, numpy scalars, 0-d arrays,
IntEnum members, scalars written out to full length, model instances) in the same context: (b)-(e) must reproduce the
whole dump exactly (weights within 1e-14) with the same array dtypes and shapes, (f) identically, and overwriting the
arrays the caller passed in must not change the configuration.  A reachability sweep probes every pydantic model
(setattr on each field) and every ndarray (flag, element / whole-array / in-place-operator write) reachable from all
these objects and from a `model_copy(update=...)`; accepted assignments are compared with the flag map derived from the
generated `_mutable()/_immutable()` table, and every field found holding an array with the generated table of array
fields (Gen/Gen_C18.v, re-extracted fail-closed from the AST on every run together with the array stores and
converters, and cross-checked against pydantic's run-time view of the classes).
"""
from __future__ import annotations

import ast
import copy
import math

import coqio as cq

ID = "C18"
THEOREM_FILE = "Props/C18.v"
CHK_MODULE = "Check.Chk_C18"
CASE_TYPE = "Chk_C18.case"
CHECK_FN = "Chk_C18.check_case"
HEADER = "From Ropt Require Import Gen.Generated Model.Config Gen.Gen_C18.\nImport Chk_C18."
SHARD_SIZE = 80
PARALLEL = True
CASE_TIMEOUT = 60
EXHAUSTIVE = {"quick": False, "thorough": False}
RULE = ("random valid configuration dictionaries: V in 1..6 variables (few-bit dyadic values; a scalar initial value for V = 1), bounds given as "
        "default / scalar / one-element list / vector with infinite entries, optional types and mask (scalar or vector), 1-4 objective and 1-6 "
        "realization weights incl. zeros, a single negative weight with a positive sum and the smallest accepted sum (2^-52), sections and "
        "gradient fields left to their defaults, realization_min_success / perturbation_min_success None, below and above the counts, "
        "magnitudes / perturbation types / boundary types scalar or vector (both perturbation types, all three boundary types), optional "
        "linear constraints (1-4 rows, also as a flat coefficient list) and non-linear constraints (1-4) with scalar / vector / infinite "
        "bounds and filter / estimator index arrays, every optimizer field (options {} / None / [] / nested values, methods with blanks), one or "
        "two filters / estimators / samplers also of the same method and with option dictionaries; validation context: a VariableScaler (scales "
        "and/or offsets) in 40 %, a non-linear constraint scaler in 35 % of the cases with such constraints, an objective scaler in 20 %; a "
        "stream with full 53-bit values (weights, bounds, magnitudes, scales); a stream without variables (V = 0); malformed stream: 27 "
        "corruptions of a valid dictionary (index arrays of a length that is neither 1 nor the count, an array with one dimension too many in 12 "
        "places, per-variable / per-constraint arrays of a length that cannot be broadcast, lower > upper in "
        "variable / linear / non-linear bounds also behind a scaler, weight sum zero, negative or positive but below eps, wrong / ragged / "
        "missing coefficient columns, relative perturbation with an infinite bound, enum values out of range, zero perturbations, zero "
        "threshold). Every accepted configuration is validated again as object (without / with the context), as model_dump(round_trip=True), "
        "as the JSON round trip of the dump (json.loads and pydantic's model_validate_json), as a dictionary of its validated sub-objects, every "
        "sub-object on its own in the context, a second round, and from a random re-spelling of "
        "the dictionary (case['spell']: tuples, ndarrays, numpy scalars, 0-d arrays, enum members, scalars written out, instances) whose "
        "arrays are overwritten afterwards; all resulting objects and a model_copy(update=..) are swept (setattr and delattr on every field of "
        "every reachable pydantic model; flags.writeable, element / whole-array / in-place-operator writes and the .base chain of every "
        "reachable ndarray). "
        "Non-trivial = the configuration was accepted and has V >= 2 or a constraint section, or it was rejected by a corruption; distinct = "
        "distinct case dictionaries.")
ASSUMPTIONS = [
    "re-validation of a dump is done without a validation context (the external-optimizer hand-off); a second spelling of the dictionary is validated in the same context as the first",
    "option dictionaries (dict[str, Any]) are user data: the attribute is probed, the content of the dictionary is not",
    "rejects mutation = attribute assignment raises and in-place writes to every reachable array raise; explicit unfreezing (ndarray.setflags(write=True) by the owner, object.__setattr__, cfg._is_immutable = False, __dict__) is out of scope; deep copies / pickles of a validated object are not validated configurations",
    "scales of the VariableScaler and of the non-linear constraint scaler are positive and no linear-constraint row vanishes under the scaler (the model returns Unsupported otherwise; never generated)",
    "ropt defines only abstract non-linear-constraint / objective transforms: the harness supplies a scaler dividing the bounds by positive scales and an objective scaler (which must have no effect on validation)",
    "inputs are finite (NaN / inf weights and NaN bounds pass the code's comparisons: observation F18i, outside the domain of valid dictionaries, never generated)",
    "index arrays (realization_filters, function_estimators, samplers) are modelled for their shape only (broadcast to one entry per variable / objective / constraint, other lengths rejected); that an index refers to a configured filter / estimator / sampler is not checked by the code and not part of the property",
    "the dimension check of the converters is modelled through the generated table array type -> dimensions and the list of (array type, dimensions given) of a case; the values of an array given with too many dimensions never reach the model (flattened)",
    "frozenness is a run-time fact about Python objects: the model carries it as the generated _mutable()/_immutable() call sequences and array-store sources, and the sweep observes it",
]
TRUSTED = [
    "pydantic's validator order (after-validators in definition order), model_copy/model_construct semantics and numpy's writeable flag semantics (a broadcast view of a read-only array is read-only)",
    "the AST extraction (fail-closed) of the _mutable()/_immutable() call table, of ImmutableBaseModel's shape, of the shapes of immutable_array / normalize / broadcast_1d_array / broadcast_arrays, of the Array* converters, of every field annotation and of every store into an array field; cross-checked on every run against pydantic's model_fields / MRO (extra obligation)",
]

INF = float("inf")


# ---- translator: Gen/Gen_C18.v ------------------------------------------------------------------
_EXPECTED_IMMUTABLE_BASE = '''
class ImmutableBaseModel(BaseModel):
    _is_immutable: bool

    def _immutable(self) -> None:
        self._is_immutable = True

    def _mutable(self) -> None:
        self._is_immutable = False

    def __setattr__(self, name: str, value: Any) -> None:
        if name != "_is_immutable" and self._is_immutable:
            msg = f"{self.__class__.__name__} is immutable"
            raise AttributeError(msg)
        super().__setattr__(name, value)
'''

# optional members of ImmutableBaseModel (exact shapes): the guarded __delattr__ (fix 34c3340, F18e) and the helper the
# after-validators use to leave an already validated instance alone (fix a3ecaf8, F18g); the translator records which exist
_EXPECTED_IMMUTABLE_BASE_OPTIONAL = '''
class ImmutableBaseModel(BaseModel):
    def __delattr__(self, name: str) -> None:
        if self._is_immutable:
            msg = f"{self.__class__.__name__} is immutable"
            raise AttributeError(msg)
        super().__delattr__(name)

    def _is_validated(self) -> bool:
        private = self.__pydantic_private__
        return bool(private is not None and private.get("_is_immutable"))
'''

# `if self._is_validated(): return self` as the first statement of an after-validator, and the wrap validator of EnOptConfig
_EXPECTED_GUARD = "if self._is_validated():\n    return self"
_EXPECTED_PASS_THROUGH = '''
def _pass_enopt_config_unchanged(self, handler: Any) -> Any:
    if isinstance(self, EnOptConfig):
        return self
    return handler(self)
'''

CONFIG_FILES = ["_enopt_config.py", "_variables_config.py", "_objective_functions_config.py", "_realizations_config.py",
                "_gradient_config.py", "_linear_constraints_config.py", "_nonlinear_constraints_config.py",
                "_optimizer_config.py", "_realization_filter_config.py", "_function_estimator_config.py", "_sampler_config.py"]



# names a field annotation of a configuration class may consist of (besides the Array* types of validated_types.py and
# the configuration classes themselves); anything else -- a bare ndarray type, a new converting type, a model class defined
# elsewhere -- makes the translator fail closed, because the tables below would not know what is stored there
_ANNOTATION_NAMES = {"int", "float", "bool", "str", "dict", "list", "tuple", "Any", "Path", "PositiveInt", "NonNegativeInt",
                     "NonNegativeFloat", "ItemOrTuple"}


def _check_annotation(ann, allowed, where):
    from translator import TranslatorError
    for n in ast.walk(ann):
        if isinstance(n, ast.Name):
            if n.id not in allowed:
                raise TranslatorError(f"{where}: field annotation uses the unknown type {n.id}")
        elif isinstance(n, ast.Attribute):
            raise TranslatorError(f"{where}: field annotation uses a qualified type ({ast.unparse(n)})")
        elif isinstance(n, ast.Constant):
            if n.value is not None and n.value is not Ellipsis:
                raise TranslatorError(f"{where}: field annotation holds the constant {n.value!r}")
        elif not isinstance(n, (ast.Subscript, ast.BinOp, ast.BitOr, ast.Tuple, ast.Load)):
            raise TranslatorError(f"{where}: unsupported construct in a field annotation ({type(n).__name__})")


def _strip_docstrings(node):
    for n in ast.walk(node):
        if isinstance(n, (ast.ClassDef, ast.FunctionDef)) and n.body and isinstance(n.body[0], ast.Expr) \
                and isinstance(n.body[0].value, ast.Constant) and isinstance(n.body[0].value.value, str):
            n.body = n.body[1:] or [ast.Pass()]
    return node


def _flag_call(st):
    """'M' / 'I' when the statement is exactly `self._mutable()` / `self._immutable()`."""
    if isinstance(st, ast.Expr) and isinstance(st.value, ast.Call) and not st.value.args and not st.value.keywords:
        f = st.value.func
        if isinstance(f, ast.Attribute) and isinstance(f.value, ast.Name) and f.value.id == "self":
            if f.attr == "_mutable":
                return "M"
            if f.attr == "_immutable":
                return "I"
    return None


def _mentions_flag(node, self_only=True):
    for n in ast.walk(node):
        if isinstance(n, ast.Attribute) and n.attr in ("_mutable", "_immutable", "_is_immutable"):
            if not self_only or (isinstance(n.value, ast.Name) and n.value.id == "self"):
                return True
    return False


def _is_guard(st):
    return ast.dump(st) == ast.dump(ast.parse(_EXPECTED_GUARD).body[0])


def _items(stmts, where, depth=0):
    from translator import TranslatorError
    out = []
    for st in stmts:
        if depth == 0 and _is_guard(st):
            continue
        c = _flag_call(st)
        if c is not None:
            out.append(("call", c))
        elif isinstance(st, ast.If) and _mentions_flag(st):
            if depth > 0 or _mentions_flag(st.test) or any(_mentions_flag(s) for s in st.orelse):
                raise TranslatorError(f"{where}: flag calls in a nested / else branch are not supported")
            inner = _items(st.body, where, depth + 1)
            if any(k != "call" for k, _ in inner):
                raise TranslatorError(f"{where}: nested conditional flag calls")
            out.append(("cond", [c for _, c in inner]))
        elif _mentions_flag(st):
            raise TranslatorError(f"{where}: _mutable/_immutable/_is_immutable used in an unsupported position (line {st.lineno})")
    return out


def _is_validator(fn):
    for d in fn.decorator_list:
        target = d.func if isinstance(d, ast.Call) else d
        name = target.id if isinstance(target, ast.Name) else getattr(target, "attr", None)
        if name in ("model_validator", "field_validator"):
            return True
    return False


_GUARDS, _PASS_THROUGH = {}, set()      # filled by _class_entry: (class, validator) -> starts with the guard; classes with the wrap validator


def _class_entry(cls, fname):
    from translator import TranslatorError
    bases = [b.id if isinstance(b, ast.Name) else getattr(b, "attr", "?") for b in cls.bases]
    frozen = False
    for st in cls.body:
        if isinstance(st, ast.Assign) and len(st.targets) == 1 and isinstance(st.targets[0], ast.Name) \
                and st.targets[0].id == "model_config":
            if not (isinstance(st.value, ast.Call) and isinstance(st.value.func, ast.Name) and st.value.func.id == "ConfigDict"):
                raise TranslatorError(f"{fname}:{cls.name}: model_config is not a ConfigDict(...) call")
            for kw in st.value.keywords:
                if kw.arg == "frozen":
                    if not isinstance(kw.value, ast.Constant) or not isinstance(kw.value.value, bool):
                        raise TranslatorError(f"{fname}:{cls.name}: frozen is not a literal")
                    frozen = kw.value.value
    if bases == ["ImmutableBaseModel"]:
        kind = "KImmutableBase"
    elif bases == ["BaseModel"]:
        kind = "KFrozen" if frozen else "KPlain"
    else:
        raise TranslatorError(f"{fname}:{cls.name}: unexpected bases {bases}")
    validators = []
    for st in cls.body:
        if isinstance(st, ast.FunctionDef) and st.name.startswith("__"):
            # __setattr__ / __delattr__ / __init__ / model_post_init-like hooks would change what a validated object accepts
            raise TranslatorError(f"{cls.name}.{st.name}: a configuration class defines a special method")
        if isinstance(st, ast.FunctionDef) and not _is_validator(st) and st.name.startswith("model_"):
            raise TranslatorError(f"{cls.name}.{st.name}: a configuration class overrides a pydantic method")
        if not isinstance(st, (ast.FunctionDef, ast.AnnAssign, ast.Assign, ast.Expr, ast.Pass)):
            raise TranslatorError(f"{cls.name}: unsupported statement in the class body (line {st.lineno})")
        if isinstance(st, ast.Assign) and not (len(st.targets) == 1 and isinstance(st.targets[0], ast.Name) and st.targets[0].id == "model_config"):
            raise TranslatorError(f"{cls.name}: class-level assignment other than model_config (line {st.lineno})")
        if isinstance(st, ast.FunctionDef):
            if _is_validator(st):
                body = _strip_docstrings(st).body
                if any(_is_guard(x) for x in body[1:]) or any(_is_guard(x) for b in body for x in ast.walk(b) if x is not b):
                    raise TranslatorError(f"{cls.name}.{st.name}: the _is_validated() guard is not the first statement")
                validators.append((st.name, _items(body, f"{cls.name}.{st.name}")))
                _GUARDS[(cls.name, st.name)] = bool(body) and _is_guard(body[0])
                want_pt = _strip_docstrings(ast.parse(_EXPECTED_PASS_THROUGH).body[0])
                mode = [k.value.value for d in st.decorator_list if isinstance(d, ast.Call) for k in d.keywords
                        if k.arg == "mode" and isinstance(k.value, ast.Constant)]
                if mode == ["wrap"] and cls.name == "EnOptConfig" and ast.dump(ast.Module(body=body, type_ignores=[])) == \
                        ast.dump(ast.Module(body=want_pt.body, type_ignores=[])) and [a.arg for a in st.args.args] == ["self", "handler"]:
                    _PASS_THROUGH.add(cls.name)
            elif _mentions_flag(st):
                raise TranslatorError(f"{cls.name}.{st.name}: a non-validator method touches the immutability flag of self")
        elif isinstance(st, (ast.AsyncFunctionDef, ast.ClassDef)) and _mentions_flag(st, self_only=False):
            raise TranslatorError(f"{cls.name}: flag used in a nested definition")
    if kind != "KImmutableBase" and any(items for _, items in validators):
        raise TranslatorError(f"{cls.name}: flag calls in a class that is not an ImmutableBaseModel")
    return cls.name, kind, validators


# the array helpers of config/utils.py the classification of array stores relies on (fail closed when they change)
_EXPECTED_UTILS = '''
def normalize(array: NDArray[np.float64]) -> NDArray[np.float64]:
    if array.sum() < np.finfo(np.float64).eps:
        msg = "the sum of weights is not positive"
        raise ValueError(msg)
    return immutable_array(array / array.sum())


def immutable_array(
    array_like: ArrayLike,
    **kwargs: Any,
) -> NDArray[Any]:
    array = np.array(array_like, **kwargs)
    if array.base is not None:
        array = array.copy()
    array.setflags(write=False)
    return array


def broadcast_arrays(*args: Any) -> tuple[NDArray[Any], ...]:
    results = np.broadcast_arrays(*args)
    return tuple(immutable_array(result) for result in results)


def broadcast_1d_array(array: NDArray[Any], name: str, size: int) -> NDArray[Any]:
    if size == 0:
        return immutable_array([], dtype=array.dtype)
    try:
        return np.broadcast_to(immutable_array(array), (size,))
    except ValueError as err:
        msg = f"{name} cannot be broadcasted to a length of {size}"
        raise ValueError(msg) from err
'''

# immutable_array before fix bf727e8 (F18f): it freezes whatever np.array returns, which is a view of a writable array when
# ndmin adds a dimension.  Still accepted by the translator (the flag discipline is the same) but recorded in
# Gen_C18.immutable_array_owns_data, over which Props/C18.v states a theorem, and probed at run time (.base chain).
_EXPECTED_IMMUTABLE_ARRAY_OLD = '''
def immutable_array(
    array_like: ArrayLike,
    **kwargs: Any,
) -> NDArray[Any]:
    array = np.array(array_like, **kwargs)
    array.setflags(write=False)
    return array
'''

# the dimension check of the converters (fix c92fea2, F18d)
_EXPECTED_CHECK_NDIM = '''
def _check_ndim(array: NDArray[Any], ndim: int) -> NDArray[Any]:
    if array.ndim != ndim:
        msg = f"expected an array of dimension {ndim}, got dimension {array.ndim}"
        raise ValueError(msg)
    return array
'''

_DIRECT_SOURCES = {"immutable_array": "SImmutableArray", "normalize": "SNormalize", "broadcast_1d_array": "SBroadcast1d"}


def _is_call_to(node, name):
    return isinstance(node, ast.Call) and isinstance(node.func, ast.Name) and node.func.id == name


def _self_attr(node):
    if isinstance(node, ast.Attribute) and isinstance(node.value, ast.Name) and node.value.id == "self":
        return node.attr
    return None


def _classify(expr, fn, array_fields, seen=()):
    """Sources (list of asrc constructor names) of the array an expression evaluates to inside function fn."""
    for name, src in _DIRECT_SOURCES.items():
        if _is_call_to(expr, name):
            return [src]
    if isinstance(expr, ast.Call) and isinstance(expr.func, ast.Attribute) and expr.func.attr == "broadcast_to" \
            and isinstance(expr.func.value, ast.Name) and expr.func.value.id == "np" and expr.args \
            and _is_call_to(expr.args[0], "immutable_array"):
        return ["SBroadcastToImmutable"]
    if _self_attr(expr) in array_fields:
        return ["SField"]
    if isinstance(expr, ast.Name):
        if expr.id in seen:
            return []
        out, bound = [], False
        for n in ast.walk(fn):
            if isinstance(n, ast.Assign):
                for t in n.targets:
                    if isinstance(t, ast.Name) and t.id == expr.id:
                        bound = True
                        out += _classify(n.value, fn, array_fields, seen + (expr.id,))
                    elif isinstance(t, (ast.Tuple, ast.List)) and any(isinstance(e, ast.Name) and e.id == expr.id for e in ast.walk(t)):
                        bound = True
                        v = n.value
                        out.append("SBroadcastArrays" if _is_call_to(v, "broadcast_arrays") else "SOther")
                    elif isinstance(t, ast.Subscript) and isinstance(t.value, ast.Name) and t.value.id == expr.id:
                        out.append("SOther")          # written in place: a writable array
            elif isinstance(n, (ast.AugAssign, ast.AnnAssign, ast.NamedExpr)) and isinstance(n.target, ast.Name) and n.target.id == expr.id:
                bound = True
                out.append("SOther")
            elif isinstance(n, (ast.For, ast.comprehension)) and any(isinstance(e, ast.Name) and e.id == expr.id for e in ast.walk(n.target)):
                bound = True
                out.append("SOther")
        if not bound:
            out.append("SOther")                      # an argument or a global
        return out
    return ["SOther"]


def _array_stores(cls, array_fields):
    """(site, field, sources) of every store into an array field of the class, fail closed on unknown store forms."""
    from translator import TranslatorError
    stores = []
    for fn in cls.body:
        if not isinstance(fn, ast.FunctionDef):
            continue
        where = f"{cls.name}.{fn.name}"
        construct_names = set()
        # for name in ("a", "b"): ... setattr(self, name, <expr>) ...   = a store of <expr> into self.a and self.b
        loop_names = {}
        for n in ast.walk(fn):
            if isinstance(n, ast.For) and isinstance(n.target, ast.Name) and isinstance(n.iter, (ast.Tuple, ast.List)) \
                    and n.iter.elts and all(isinstance(e, ast.Constant) and isinstance(e.value, str) for e in n.iter.elts) and not n.orelse:
                for inner in ast.walk(n):
                    if inner is not n and isinstance(inner, (ast.Assign, ast.AugAssign, ast.NamedExpr, ast.For)) and any(
                            isinstance(t, ast.Name) and t.id == n.target.id for t in ast.walk(inner.targets[0] if isinstance(inner, ast.Assign) else inner.target)):
                        raise TranslatorError(f"{where}: the loop variable {n.target.id} is rebound")
                    if isinstance(inner, ast.Call) and isinstance(inner.func, ast.Name) and inner.func.id == "setattr":
                        loop_names[id(inner)] = [e.value for e in n.iter.elts]
        for n in ast.walk(fn):
            if isinstance(n, ast.Call) and isinstance(n.func, ast.Name) and n.func.id == "setattr":
                ok = (id(n) in loop_names and len(n.args) == 3 and not n.keywords and isinstance(n.args[0], ast.Name) and n.args[0].id == "self"
                      and isinstance(n.args[1], ast.Name))
                if not ok:
                    raise TranslatorError(f"{where}: setattr() in a form that is not `for name in (<literals>): setattr(self, name, expr)`")
                for f in loop_names[id(n)]:
                    if f in array_fields:
                        stores.append((fn.name, f, _classify(n.args[2], fn, array_fields)))
                    else:
                        raise TranslatorError(f"{where}: setattr() on {f}, which is not an array field")
            if isinstance(n, ast.Call) and isinstance(n.func, ast.Name) and n.func.id == "vars":
                raise TranslatorError(f"{where}: vars() in a configuration class")
            if isinstance(n, ast.Attribute) and n.attr in ("__dict__", "__setattr__", "__pydantic_private__") and fn.name != "__setattr__":
                raise TranslatorError(f"{where}: {n.attr} used in a configuration class")
            if isinstance(n, (ast.Assign, ast.AugAssign, ast.AnnAssign)):
                targets = n.targets if isinstance(n, ast.Assign) else [n.target]
                for t in targets:
                    for e in ([t] if not isinstance(t, (ast.Tuple, ast.List)) else ast.walk(t)):
                        f = _self_attr(e)
                        if f in array_fields:
                            if isinstance(n, ast.Assign) and e is t and len(targets) == 1:
                                stores.append((fn.name, f, _classify(n.value, fn, array_fields)))
                            else:
                                stores.append((fn.name, f, ["SOther"]))
                        g = _self_attr(e.value) if isinstance(e, ast.Subscript) else None
                        if g in array_fields:
                            stores.append((fn.name, g, ["SOther"]))     # self.field[...] = ...: needs a writable array
            if isinstance(n, ast.Call) and isinstance(n.func, ast.Attribute) and n.func.attr == "model_copy":
                upd = [k for k in n.keywords if k.arg == "update"]
                if n.args or len(upd) != len(n.keywords) or len(upd) > 1:
                    raise TranslatorError(f"{where}: model_copy with unexpected arguments")
                if upd:
                    d = upd[0].value
                    if not isinstance(d, ast.Dict) or not all(isinstance(k, ast.Constant) and isinstance(k.value, str) for k in d.keys):
                        raise TranslatorError(f"{where}: model_copy(update=...) is not a dict display with literal keys")
                    for k, v in zip(d.keys, d.values):
                        if k.value in array_fields:
                            stores.append((fn.name, k.value, _classify(v, fn, array_fields)))
            if isinstance(n, ast.Call) and isinstance(n.func, ast.Attribute) and n.func.attr == "model_construct":
                if n.args or len(n.keywords) != 1 or n.keywords[0].arg is not None or not isinstance(n.keywords[0].value, ast.Name):
                    raise TranslatorError(f"{where}: model_construct is not called as model_construct(**name)")
                construct_names.add(n.keywords[0].value.id)
        for name in construct_names:
            # name = self.model_dump(round_trip=True); name.update(field=expr, ...); nothing else may touch it
            for n in ast.walk(fn):
                if isinstance(n, ast.Assign) and any(isinstance(t, ast.Name) and t.id == name for t in n.targets):
                    v = n.value
                    if not (isinstance(v, ast.Call) and isinstance(v.func, ast.Attribute) and v.func.attr == "model_dump"
                            and _self_attr(v.func) == "model_dump"):
                        raise TranslatorError(f"{where}: {name} is not built from self.model_dump(...)")
                elif isinstance(n, ast.Subscript) and isinstance(n.value, ast.Name) and n.value.id == name and isinstance(n.ctx, ast.Store):
                    raise TranslatorError(f"{where}: {name}[...] = ... before model_construct")
                elif isinstance(n, ast.Call) and isinstance(n.func, ast.Attribute) and isinstance(n.func.value, ast.Name) \
                        and n.func.value.id == name:
                    if n.func.attr != "update" or n.args or any(k.arg is None for k in n.keywords):
                        raise TranslatorError(f"{where}: unsupported call {name}.{n.func.attr}(...) before model_construct")
                    for k in n.keywords:
                        if k.arg in array_fields:
                            stores.append((fn.name, k.arg, _classify(k.value, fn, array_fields)))
    return stores


def _array_tables(tr):
    """array_converters (validated_types.py aliases), per-class array fields and array stores."""
    from translator import TranslatorError
    utils = tr.parse("config/utils.py")
    want = {n.name: ast.dump(_strip_docstrings(n)) for n in ast.parse(_EXPECTED_UTILS).body}
    old_ia = ast.dump(_strip_docstrings(ast.parse(_EXPECTED_IMMUTABLE_ARRAY_OLD).body[0]))
    owns_data = True
    for n in utils.body:
        if isinstance(n, ast.FunctionDef) and n.name in want:
            got = ast.dump(_strip_docstrings(n))
            if n.name == "immutable_array" and got == old_ia:
                owns_data = False
                want.pop(n.name)
            elif got != want.pop(n.name):
                raise TranslatorError(f"config/utils.py: {n.name} does not have the expected shape")
    if want:
        raise TranslatorError(f"config/utils.py: {sorted(want)} not found")
    check_ndim = [n for n in utils.body if isinstance(n, ast.FunctionDef) and n.name == "_check_ndim"]
    if check_ndim and ast.dump(_strip_docstrings(check_ndim[0])) != ast.dump(_strip_docstrings(ast.parse(_EXPECTED_CHECK_NDIM).body[0])):
        raise TranslatorError("config/utils.py: _check_ndim does not have the expected shape")

    def converted(expr):
        """(source, ndim) of the expression a converter returns: immutable_array(x, .., ndmin=K) -> (SImmutableArray, None);
        _check_ndim(immutable_array(x, .., ndmin=K), K) -> (SImmutableArray, K); anything else -> (SOther, None)"""
        def ndmin_of(call):
            ks = [k.value.value for k in call.keywords if k.arg == "ndmin" and isinstance(k.value, ast.Constant)]
            return ks[0] if len(ks) == 1 and isinstance(ks[0], int) else None
        if _is_call_to(expr, "immutable_array"):
            return "SImmutableArray", None
        if _is_call_to(expr, "_check_ndim") and check_ndim and len(expr.args) == 2 and not expr.keywords \
                and _is_call_to(expr.args[0], "immutable_array") and isinstance(expr.args[1], ast.Constant) \
                and isinstance(expr.args[1].value, int) and ndmin_of(expr.args[0]) == expr.args[1].value:
            return "SImmutableArray", expr.args[1].value
        return "SOther", None
    conv = {}
    for n in utils.body:
        if isinstance(n, ast.FunctionDef) and n.name.startswith("_convert_") and "array" in n.name:
            body = _strip_docstrings(n).body
            ok = (len(n.args.args) == 1 and len(body) == 2 and isinstance(body[0], ast.If) and not body[0].orelse
                  and len(body[0].body) == 1 and isinstance(body[0].body[0], ast.Return)
                  and isinstance(body[0].body[0].value, ast.Name) and body[0].body[0].value.id == n.args.args[0].arg
                  and isinstance(body[0].test, ast.Compare) and len(body[0].test.ops) == 1 and isinstance(body[0].test.ops[0], ast.Is)
                  and isinstance(body[0].test.comparators[0], ast.Constant) and body[0].test.comparators[0].value is None
                  and isinstance(body[1], ast.Return) and body[1].value is not None)
            if not ok:
                raise TranslatorError(f"config/utils.py: {n.name} does not have the shape `if x is None: return x; return <expr>`")
            conv[n.name] = converted(body[1].value)
    vt = tr.parse("config/validated_types.py")
    aliases = []
    for n in vt.body:
        if isinstance(n, ast.Assign) and len(n.targets) == 1 and isinstance(n.targets[0], ast.Name) and n.targets[0].id.startswith("Array"):
            v = n.value
            ok = (isinstance(v, ast.Subscript) and isinstance(v.value, ast.Name) and v.value.id == "Annotated"
                  and isinstance(v.slice, ast.Tuple) and len(v.slice.elts) == 2 and _is_call_to(v.slice.elts[1], "BeforeValidator")
                  and len(v.slice.elts[1].args) == 1 and isinstance(v.slice.elts[1].args[0], ast.Name))
            if not ok or v.slice.elts[1].args[0].id not in conv:
                raise TranslatorError(f"validated_types.py: {n.targets[0].id} is not Annotated[..., BeforeValidator(_convert_*array*)]")
            aliases.append((n.targets[0].id,) + conv[v.slice.elts[1].args[0].id])
    if not aliases:
        raise TranslatorError("validated_types.py: no Array* types found")
    alias_names = {a for a, _, _ in aliases}
    class_names = set()
    for f in CONFIG_FILES:
        class_names |= {n.name for n in tr.parse("config/enopt/" + f).body if isinstance(n, ast.ClassDef)}
    fields, stores = [], []
    for f in CONFIG_FILES:
        tree = tr.parse("config/enopt/" + f)
        for n in ast.walk(tree):
            if isinstance(n, ast.Name) and n.id in ("NDArray", "ndarray") and isinstance(n.ctx, ast.Load):
                # an array field declared without one of the converting types would escape the table
                for c in tree.body:
                    if isinstance(c, ast.ClassDef):
                        for st in c.body:
                            if isinstance(st, ast.AnnAssign) and any(x is n for x in ast.walk(st.annotation)):
                                raise TranslatorError(f"{f}: field {ast.unparse(st.target)} is annotated with a bare ndarray type")
        cls = [n for n in tree.body if isinstance(n, ast.ClassDef)][0]
        allowed = _ANNOTATION_NAMES | alias_names | class_names
        for st in cls.body:
            if isinstance(st, ast.AnnAssign):
                if not isinstance(st.target, ast.Name):
                    raise TranslatorError(f"{f}:{cls.name}: annotated assignment to something that is not a field name")
                _check_annotation(st.annotation, allowed, f"{f}:{cls.name}.{st.target.id}")
        af = [st.target.id for st in cls.body if isinstance(st, ast.AnnAssign) and isinstance(st.target, ast.Name)
              and any(isinstance(x, ast.Name) and x.id in alias_names for x in ast.walk(st.annotation))]
        fields.append((cls.name, af))
        stores += [(cls.name, site, fld, srcs) for site, fld, srcs in _array_stores(cls, set(af))]
    return aliases, fields, stores, owns_data


def _instance_defaults(tr, immutable_classes):
    out = []
    for f in CONFIG_FILES:
        cls = [n for n in tr.parse("config/enopt/" + f).body if isinstance(n, ast.ClassDef)][0]
        for st in cls.body:
            if isinstance(st, ast.AnnAssign) and isinstance(st.target, ast.Name) and st.value is not None:
                for n in ast.walk(st.value):
                    # C(...) anywhere in the default expression, except as `default_factory=C` (a name, not a call)
                    if isinstance(n, ast.Call) and isinstance(n.func, ast.Name) and n.func.id in immutable_classes:
                        out.append((cls.name, st.target.id))
                        break
    return out


def translate(repo):
    import translator as tr
    from translator import TranslatorError
    # 1. ImmutableBaseModel has exactly the expected flag semantics
    utils = tr.parse("config/utils.py")
    found = [n for n in utils.body if isinstance(n, ast.ClassDef) and n.name == "ImmutableBaseModel"]
    if len(found) != 1:
        raise TranslatorError("ImmutableBaseModel not found in config/utils.py")
    base = _strip_docstrings(found[0])
    want_cls = _strip_docstrings(ast.parse(_EXPECTED_IMMUTABLE_BASE).body[0])
    optional = {n.name: ast.dump(n) for n in _strip_docstrings(ast.parse(_EXPECTED_IMMUTABLE_BASE_OPTIONAL).body[0]).body}
    required = [ast.dump(n) for n in want_cls.body]
    if [ast.dump(b) for b in base.bases] != [ast.dump(b) for b in want_cls.bases] or base.keywords or base.decorator_list:
        raise TranslatorError("ImmutableBaseModel: unexpected bases / decorators")
    members = [ast.dump(n) for n in base.body if not (isinstance(n, ast.FunctionDef) and n.name in optional)]
    if members != required:
        raise TranslatorError("ImmutableBaseModel (_is_immutable/_immutable/_mutable/__setattr__) does not have the expected shape")
    have = {}
    for n in base.body:
        if isinstance(n, ast.FunctionDef) and n.name in optional:
            if ast.dump(n) != optional[n.name] or n.name in have:
                raise TranslatorError(f"ImmutableBaseModel.{n.name} does not have the expected shape")
            have[n.name] = True
    guards_delete = "__delattr__" in have
    has_validated = "_is_validated" in have
    # 2. per class: kind and the flag-call items of every validator, in definition order
    entries = []
    _GUARDS.clear()
    _PASS_THROUGH.clear()
    for f in CONFIG_FILES:
        tree = tr.parse("config/enopt/" + f)
        classes = [n for n in tree.body if isinstance(n, ast.ClassDef)]
        if len(classes) != 1:
            raise TranslatorError(f"{f}: expected exactly one class, found {len(classes)}")
        entries.append(_class_entry(classes[0], f))
    import os
    present = sorted(x for x in os.listdir(repo / "src" / "ropt" / "config" / "enopt") if x.startswith("_") and x.endswith(".py") and x != "__init__.py")
    if present != sorted(CONFIG_FILES):
        raise TranslatorError(f"config/enopt holds unexpected modules: {present}")
    # 3. enumerations
    en = tr.parse("enums.py")
    vt = dict(tr.int_enum(en, "VariableType"))
    pt = dict(tr.int_enum(en, "PerturbationType"))
    bt = dict(tr.int_enum(en, "BoundaryType"))
    if "ABSOLUTE" not in pt or "RELATIVE" not in pt:
        raise TranslatorError("PerturbationType lacks ABSOLUTE / RELATIVE")

    def item(i):
        kind, v = i
        return f"Call F{v}" if kind == "call" else "Cond [" + "; ".join("F" + c for c in v) + "]"

    out = ["(* GENERATED on every run by harness/props/C18.py (translate) from /repo sources -- do not edit. *)",
           "From Coq Require Import String.", "From Coq Require Import ZArith List.",
           "From Ropt Require Import Model.Config.", "Import ListNotations.", "Open Scope string_scope.", "",
           "(* per configuration class: kind and, per model validator in definition order, the _mutable()/_immutable() calls *)",
           "Definition config_classes : list cclass := ["]
    rows = []
    for name, kind, validators in entries:
        vs = "; ".join(f'("{vn}", [' + "; ".join(item(i) for i in items) + "])" for vn, items in validators)
        rows.append(f'  {{| cc_name := "{name}"; cc_kind := {kind}; cc_validators := [{vs}] |}}')
    out.append(";\n".join(rows))
    out += ["].", "",
            "(* ImmutableBaseModel also defines the guarded __delattr__ (attribute deletion raises once the flag is set) *)",
            f"Definition immutable_base_guards_delete : bool := {'true' if guards_delete else 'false'}.", "",
            "(* re-validation of an instance: every after-validator that calls _mutable() / _immutable(), whether it starts with",
            "   `if self._is_validated(): return self` (the helper exists: " + ("yes" if has_validated else "NO") + "), and the classes whose wrap validator returns an instance untouched *)",
            "Definition mutating_validators : list (string * (string * bool)) := ["
            + "; ".join(f'("{c}", ("{v}", {"true" if (_GUARDS.get((c, v)) and has_validated) else "false"}))'
                        for c, _k, vs in entries for v, items in vs if items) + "].",
            "Definition instance_pass_through : list string := [" + "; ".join(f'"{c}"' for c in sorted(_PASS_THROUGH)) + "].",
            "(* fields whose default is an INSTANCE of an ImmutableBaseModel class (`x: C = C()`): pydantic deep-copies such a default for",
            "   every validation, numpy's deepcopy drops the read-only flag, and the guard above returns the copy unchanged *)",
            "Definition instance_defaults : list (string * string) := ["
            + "; ".join(f'("{c}", "{f}")' for c, f in _instance_defaults(tr, {n for n, k, _ in entries if k == "KImmutableBase"})) + "].", "",
            "Definition gen_enums : enums := {|",
            f"  vt_lo := {min(vt.values())}%Z; vt_hi := {max(vt.values())}%Z;",
            f"  pt_lo := {min(pt.values())}%Z; pt_hi := {max(pt.values())}%Z;",
            f"  bt_lo := {min(bt.values())}%Z; bt_hi := {max(bt.values())}%Z;",
            f"  pt_abs := {pt['ABSOLUTE']}%Z; pt_rel := {pt['RELATIVE']}%Z |}}.", ""]
    # 4. arrays: converting types, array fields per class, and every store into an array field with its sources
    aliases, fields, stores, owns_data = _array_tables(tr)
    if not stores:
        raise TranslatorError("no array stores found in the configuration classes")
    out += ["(* validated_types.py: array type, what its BeforeValidator converter returns *)",
            "Definition array_converters : list (string * asrc) := ["
            + "; ".join(f'("{a}", {s})' for a, s, _ in aliases) + "].", "",
            "(* ... and the number of dimensions its converter insists on (np.array(.., ndmin=k) followed by _check_ndim(.., k)); None = unchecked *)",
            "Definition array_ndims : list (string * option nat) := ["
            + "; ".join(f'("{a}", {"None" if k is None else f"Some {k}%nat"})' for a, _, k in aliases) + "].", "",
            "(* immutable_array copies a result of np.array that is a view, so the frozen array owns its data (no writable .base) *)",
            f"Definition immutable_array_owns_data : bool := {'true' if owns_data else 'false'}.", "",
            "(* per class: the fields declared with one of these array types *)",
            "Definition array_fields : list (string * list string) := [",
            ";\n".join(f'  ("{c}", [' + "; ".join(f'"{x}"' for x in af) + "])" for c, af in fields), "].", "",
            "(* every store into an array field (assignment in a validator, model_copy(update=..), update() before model_construct) *)",
            "Definition array_stores : list astore := [",
            ";\n".join(f'  {{| as_class := "{c}"; as_site := "{s}"; as_field := "{f}"; as_sources := [' + "; ".join(src) + "] |}"
                       for c, s, f, src in stores), "].", ""]
    return {"Gen/Gen_C18.v": "\n".join(out)}


# ---- generators ---------------------------------------------------------------------------------
def _dy(rng, lo, hi, den=8):
    return rng.randint(lo * den, hi * den) / den


def _bounds(rng, n, finite=False, precise=False):
    """lower/upper given as default (None) / scalar / vector, lower <= upper, infinities allowed."""
    form = rng.choice(["default", "scalar", "vector", "vector"]) if not finite else rng.choice(["scalar", "vector"])
    if form == "default":
        return None, None
    eps = (lambda: rng.random() * 0.25) if precise else (lambda: 0.0)
    if form == "scalar":
        lo = _dy(rng, -3, 0) - eps()
        up = lo + _dy(rng, 0, 4) + (0.0 if rng.random() < 0.2 else 0.125) + eps()
        if not finite and rng.random() < 0.25:
            lo = -INF
        if not finite and rng.random() < 0.25:
            up = INF
        return lo, up
    los, ups = [], []
    for _ in range(n):
        lo = _dy(rng, -3, 0) - eps()
        up = lo + _dy(rng, 0, 4) + eps()
        if not finite and rng.random() < 0.2:
            lo = -INF
        if not finite and rng.random() < 0.2:
            up = INF
        los.append(lo)
        ups.append(up)
    return los, ups


def _sv(rng, n, gen):
    """scalar, one-element list or vector of length n"""
    r = rng.random()
    if r < 0.3:
        return gen()
    if r < 0.4:
        return [gen()]
    return [gen() for _ in range(n)]


def _weights(rng, n, precise=False):
    if precise:
        w = [rng.choice([0.0, rng.random(), rng.random() * 10, 0.1, 0.7, 1 / 3]) for _ in range(n)]
        if sum(w) <= 0.01:
            w[rng.randrange(n)] = 0.3
        return w
    w = [rng.choice([0, 0, 1, 1, 2, 3, 0.5, 0.25, 1.5]) for _ in range(n)]
    if sum(w) <= 0:
        w[rng.randrange(n)] = 1
    r = rng.random()
    if n >= 2 and r < 0.06:          # one negative weight, positive sum: accepted by normalize()
        i = rng.randrange(n)
        w[i] = -0.5
        w[(i + 1) % n] = max(w[(i + 1) % n], 1) + 1
    elif r < 0.09:                   # the smallest accepted sum
        w = [0.0] * n
        w[rng.randrange(n)] = EPS
    elif r < 0.13:                   # a sum next to one but not one (a shortcut for "already normalised" must not take it)
        w = [0.0] * n
        w[0] = 0.5 + rng.choice([2.0 ** -20, -2.0 ** -21, 2.0 ** -30, 2.0 ** -16])
        w[1 if n > 1 else 0] += 0.5
    return w


EPS = 2.0 ** -52


def valid_case(rng, V=None, precise=False):
    if V is None:
        V = rng.choice([1, 2, 2, 3, 3, 4, 5, 6])
    cfg = {}
    val = (lambda: rng.uniform(-2, 2)) if precise else (lambda: _dy(rng, -2, 2))
    var = {"initial_values": [val() for _ in range(V)]}
    if V == 1 and rng.random() < 0.3:
        var["initial_values"] = var["initial_values"][0]          # a scalar: one variable
    ptypes = _sv(rng, V, lambda: rng.choice([1, 1, 2]))
    any_rel = 2 in _as_list(ptypes)
    lo, up = _bounds(rng, V, finite=any_rel, precise=precise)
    if lo is not None:
        var["lower_bounds"], var["upper_bounds"] = lo, up
    if rng.random() < 0.4:
        var["types"] = _sv(rng, V, lambda: rng.choice([1, 2]))
    if rng.random() < 0.5:
        var["mask"] = _sv(rng, V, lambda: rng.random() < 0.7)
    cfg["variables"] = var
    nobj = rng.choice([1, 1, 2, 3, 4])
    obj = {"weights": _weights(rng, nobj, precise)}
    if nobj == 1 and rng.random() < 0.3:
        obj["weights"] = obj["weights"][0]
    nfilt = rng.choice([0, 0, 1])
    nest = rng.choice([1, 1, 2])
    if nfilt:
        cfg["realization_filters"] = [{"method": "sort-objective", "options": {"sort": [0], "first": 0, "last": 0}}]
        if rng.random() < 0.3:       # a second filter of the same method, possibly never referred to
            nfilt = 2
            cfg["realization_filters"].append({"method": "sort-objective", "options": {"sort": [0], "first": 0, "last": 1}})
        obj["realization_filters"] = [rng.choice([-1] + list(range(nfilt))) for _ in range(nobj)]
    if nest == 2 or rng.random() < 0.3:
        cfg["function_estimators"] = [{"method": "mean"}, {"method": rng.choice(["stddev", "mean", " default/mean "])}][:nest]
        if rng.random() < 0.3:
            cfg["function_estimators"][-1]["options"] = rng.choice([{}, {"k": 1.5, "deep": {"l": [1, 2, {"m": None}]}}])
        obj["function_estimators"] = [rng.randrange(nest) for _ in range(nobj)]
    if rng.random() < 0.9 or nfilt or "function_estimators" in obj:
        cfg["objectives"] = obj
    R = rng.choice([1, 2, 3, 4, 6])
    real = {"weights": _weights(rng, R, precise)}
    if rng.random() < 0.6:
        real["realization_min_success"] = rng.randint(0, R + 2)
    if rng.random() < 0.9:
        cfg["realizations"] = real
    P = rng.choice([1, 2, 3, 5])
    mag = (lambda: rng.uniform(0.01, 1.0)) if precise else (lambda: rng.randint(1, 16) / 16)
    grad = {"number_of_perturbations": P, "perturbation_types": ptypes,
            "perturbation_magnitudes": _sv(rng, V, mag),
            "boundary_types": _sv(rng, V, lambda: rng.choice([1, 2, 3]))}
    if rng.random() < 0.6:
        grad["perturbation_min_success"] = rng.randint(1, P + 2)
    if rng.random() < 0.3:
        grad["seed"] = rng.choice([3, [1, 2]])
    if rng.random() < 0.2:
        grad["merge_realizations"] = True
    nsmp = rng.choice([1, 1, 2])
    if nsmp == 2 or rng.random() < 0.3:
        cfg["samplers"] = [{"method": "norm"}, {"method": rng.choice(["sobol", "norm", "scipy/norm"]), "shared": True}][:nsmp]
        if rng.random() < 0.3:
            cfg["samplers"][0]["options"] = rng.choice([{}, {"scale": 2.0}, {"nested": {"x": [1, 2.5, "s", None, True]}}])
        grad["samplers"] = [rng.randrange(-1, nsmp) for _ in range(V)]
    if not any_rel and rng.random() < 0.12:
        # defaults of the gradient section (magnitude / types from constants.py); P must stay known to the model
        for k in rng.sample(["perturbation_types", "perturbation_magnitudes", "boundary_types", "number_of_perturbations"], rng.randint(1, 4)):
            grad.pop(k)
        if "number_of_perturbations" not in grad:
            grad.pop("perturbation_min_success", None)
    cfg["gradient"] = grad
    if V > 0 and rng.random() < 0.45:
        rows = rng.choice([1, 2, 3, 4])
        A = []
        for _ in range(rows):
            row = [(rng.uniform(-2, 2) if precise else rng.randint(-8, 8) / 4) for _ in range(V)]
            if all(a == 0 for a in row):
                row[rng.randrange(V)] = 1.0
            A.append(row)
        lo, up = _bounds(rng, rows, precise=precise)
        if lo is None:
            lo, up = -INF, rng.choice([1.0, [1.0] * rows])
        if rows == 1 and rng.random() < 0.3:
            A = A[0]                                               # a 1-D coefficient list: one constraint
        cfg["linear_constraints"] = {"coefficients": A, "lower_bounds": lo, "upper_bounds": up}
    nl_n = 0
    if rng.random() < 0.45:
        n = rng.choice([1, 2, 3, 4])
        lo, up = _bounds(rng, n, precise=precise)
        if lo is None:
            lo, up = rng.choice([0.0, [0.0] * n]), INF
        if not isinstance(lo, list) and not isinstance(up, list) and rng.random() < 0.5:
            up = [up] * n
        nl = {"lower_bounds": lo, "upper_bounds": up}
        nl_n = max(len(_as_list(lo)), len(_as_list(up)))
        if nfilt and rng.random() < 0.5:
            nl["realization_filters"] = [rng.choice([-1, 0]) for _ in range(nl_n)]
        if rng.random() < 0.3:
            nl["function_estimators"] = [rng.randrange(nest if "function_estimators" in cfg else 1) for _ in range(nl_n)]
        cfg["nonlinear_constraints"] = nl
    if rng.random() < 0.5:
        opt = {"method": rng.choice(["slsqp", "scipy/slsqp", "scipy/default", " slsqp ", "external/scipy/slsqp"])}
        if rng.random() < 0.5:
            opt["options"] = rng.choice([{"maxiter": 5}, ["a", "b"], {"nested": {"x": [1, 2]}}, {}, None, [],
                                         {"tol": 1e-3, "flags": [True, None, "s", 2.5], "inf": INF}])
        for key, gen in (("max_iterations", lambda: rng.randint(1, 50)), ("speculative", lambda: True),
                         ("split_evaluations", lambda: True), ("stdout", lambda: "out.txt"), ("stderr", lambda: "/tmp/err.txt")):
            if rng.random() < 0.15:
                opt[key] = gen()
        if rng.random() < 0.5:
            opt["max_functions"] = rng.randint(1, 20)
        if rng.random() < 0.3:
            opt["tolerance"] = 0.001
        if rng.random() < 0.2:
            opt["output_dir"] = "/tmp/out"
        if rng.random() < 0.2:
            opt["parallel"] = True
        cfg["optimizer"] = opt
    scaler = None
    if V > 0 and rng.random() < 0.4:
        kind = rng.choice(["scales", "offsets", "both"])
        sc = (lambda: rng.uniform(0.5, 4.0)) if precise else (lambda: rng.choice([0.5, 1.0, 2.0, 4.0]))
        of = (lambda: rng.uniform(-1, 1)) if precise else (lambda: rng.randint(-4, 4) / 4)
        scaler = {"scales": [sc() for _ in range(V)] if kind != "offsets" else None,
                  "offsets": [of() for _ in range(V)] if kind != "scales" else None}
    nl_scales = None
    if nl_n and rng.random() < 0.35:
        nl_scales = [rng.choice([0.5, 1.0, 2.0, 4.0]) for _ in range(nl_n)]
    return {"cfg": cfg, "scaler": scaler, "nl_scales": nl_scales, "obj_scaler": rng.random() < 0.2,
            "kind": "valid-precise" if precise else "valid", "spell": rng.randrange(1, 2 ** 30)}


def _bad_len(rng, n):
    return rng.choice([k for k in (0, 2, 3, 4, 5, 7) if k not in (1, n)])


CORRUPTIONS = ["var_len", "var_cross", "obj_weights", "real_weights", "weights_below_eps", "lin_cols", "lin_len", "lin_cross",
               "lin_ragged", "lin_empty", "nonlin_len", "nonlin_cross", "relative_inf", "ptype_enum", "btype_enum", "vtype_enum",
               "mag_len", "btype_len", "ptype_len", "types_len", "zero_perturbations", "pmin_zero", "mask_len",
               "samplers_len", "obj_index_len", "nl_index_len", "ndim"]


def corrupt(rng, case, what):
    case = copy.deepcopy(case)
    cfg = case["cfg"]
    var, grad = cfg["variables"], cfg["gradient"]
    V = len(_as_list(var["initial_values"]))
    if V == 1 and what in ("var_len", "mag_len", "btype_len", "ptype_len", "types_len", "mask_len", "lin_cols"):
        pass                                                       # every bad length is still available (0, 2, 3, ..)
    if what == "var_len":
        key = rng.choice(["lower_bounds", "upper_bounds"])
        var[key] = [(-5.0 if key == "lower_bounds" else 9.0)] * _bad_len(rng, V)
        var.setdefault("lower_bounds", -5.0)
        var.setdefault("upper_bounds", 9.0)
    elif what == "var_cross":
        lo = [-1.0] * V
        up = [1.0] * V
        i = rng.randrange(V)
        lo[i], up[i] = 2.0, 1.5
        if rng.random() < 0.3:
            lo, up = 2.0, up                                       # a scalar lower bound above one upper bound
        var["lower_bounds"], var["upper_bounds"] = lo, up
    elif what == "obj_weights":
        n = len(_as_list(cfg.get("objectives", {}).get("weights", 1.0)))
        cfg.setdefault("objectives", {})["weights"] = rng.choice([[0.0] * n, [-2.0] + [0.5] * (n - 1), [-1.0] + [1.0 / max(n - 1, 1)] * (n - 1)])
    elif what == "real_weights":
        n = len(_as_list(cfg.get("realizations", {}).get("weights", 1.0)))
        cfg.setdefault("realizations", {})["weights"] = rng.choice([[0.0] * n, [-float(n)] + [1.0] * (n - 1)])
    elif what == "weights_below_eps":
        sect = rng.choice(["objectives", "realizations"])
        n = len(_as_list(cfg.get(sect, {}).get("weights", 1.0)))
        w = [0.0] * n
        w[rng.randrange(n)] = rng.choice([EPS / 2, EPS * 0.999, 1e-300])
        cfg.setdefault(sect, {})["weights"] = w
    elif what in ("lin_cols", "lin_len", "lin_cross", "lin_ragged", "lin_empty"):
        rows = rng.choice([2, 3])
        A = [[1.0] * V for _ in range(rows)]
        lin = {"coefficients": A, "lower_bounds": [0.0] * rows, "upper_bounds": [1.0] * rows}
        if what == "lin_cols":
            lin["coefficients"] = [[1.0] * (V + rng.choice([-1, 1, 2])) for _ in range(rows)]
        elif what == "lin_len":
            lin[rng.choice(["lower_bounds", "upper_bounds"])] = [0.5] * _bad_len(rng, rows)
        elif what == "lin_ragged":
            lin["coefficients"][rng.randrange(rows)] = [1.0] * (V + 1)
        elif what == "lin_empty":
            lin = {"coefficients": [], "lower_bounds": rng.choice([0.0, [0.0]]), "upper_bounds": 1.0}   # one row without columns
        else:
            lin["lower_bounds"][rng.randrange(rows)] = 3.0
            if rng.random() < 0.3:
                lin["upper_bounds"] = 1.0
        cfg["linear_constraints"] = lin
    elif what == "nonlin_len":
        cfg["nonlinear_constraints"] = rng.choice([{"lower_bounds": [0.0, 0.0], "upper_bounds": [1.0, 1.0, 1.0]},
                                                   {"lower_bounds": [0.0] * 4, "upper_bounds": [1.0, 1.0]}])
        case["nl_scales"] = None
    elif what == "nonlin_cross":
        cfg["nonlinear_constraints"] = {"lower_bounds": [0.0, 2.0], "upper_bounds": rng.choice([1.0, [1.0, 1.5]])}
        case["nl_scales"] = rng.choice([None, [0.5, 2.0]])
    elif what == "relative_inf":
        i = rng.randrange(V)
        grad["perturbation_types"] = [2 if j == i else 1 for j in range(V)] if rng.random() < 0.7 else 2
        grad.setdefault("perturbation_magnitudes", 0.25)
        lo, up = [-1.0] * V, [1.0] * V
        if rng.random() < 0.5:
            lo[i] = -INF
        else:
            up[i] = INF
        var["lower_bounds"], var["upper_bounds"] = lo, up
    elif what == "ptype_enum":
        grad["perturbation_types"] = rng.choice([0, 3, [1] * (V - 1) + [7]])
    elif what == "btype_enum":
        grad["boundary_types"] = rng.choice([0, 4, [2] * (V - 1) + [9]])
    elif what == "vtype_enum":
        var["types"] = rng.choice([0, 3, [1] * (V - 1) + [5]])
    elif what == "mag_len":
        grad["perturbation_magnitudes"] = [0.5] * _bad_len(rng, V)
    elif what == "btype_len":
        grad["boundary_types"] = [2] * _bad_len(rng, V)
    elif what == "ptype_len":
        grad["perturbation_types"] = [1] * _bad_len(rng, V)
    elif what == "types_len":
        var["types"] = [1] * _bad_len(rng, V)
    elif what == "zero_perturbations":
        grad["number_of_perturbations"] = 0
    elif what == "pmin_zero":
        grad["perturbation_min_success"] = 0
        grad.setdefault("number_of_perturbations", 3)
    elif what == "mask_len":
        var["mask"] = [True] * _bad_len(rng, V)
    elif what == "samplers_len":                                   # fix 2477cc1: one sampler index per variable
        cfg.setdefault("samplers", [{"method": "norm"}])
        grad["samplers"] = [0] * _bad_len(rng, V)
    elif what == "obj_index_len":
        obj = cfg.setdefault("objectives", {})
        n = len(_as_list(obj.get("weights", 1.0)))
        key = rng.choice(["realization_filters", "function_estimators"])
        obj[key] = [-1 if key == "realization_filters" else 0] * _bad_len(rng, n)
    elif what == "nl_index_len":
        n = rng.choice([2, 3])
        key = rng.choice(["realization_filters", "function_estimators"])
        cfg["nonlinear_constraints"] = {"lower_bounds": [0.0] * n, "upper_bounds": rng.choice([1.0, [1.0] * n]),
                                        key: [-1 if key == "realization_filters" else 0] * _bad_len(rng, n)}
        case["nl_scales"] = None
    elif what == "ndim":                                           # fix c92fea2: one dimension too many
        which = rng.choice(["initial", "initial_row", "bounds", "obj_weights", "real_weights", "mags", "mask", "types", "btypes",
                            "samplers", "nonlinear", "coefficients"])
        if which == "initial":
            var["initial_values"] = [[0.5, 1.0], [1.5, 2.0]]          # four numbers in two rows; bounds that fit four variables
            var.pop("lower_bounds", None), var.pop("upper_bounds", None), var.pop("types", None), var.pop("mask", None)
            cfg["gradient"] = {"number_of_perturbations": 2}
            cfg.pop("linear_constraints", None)
            case["scaler"] = None
        elif which == "initial_row":
            var["initial_values"] = [_as_list(var["initial_values"])]   # shape (1, V)
        elif which == "bounds":
            key = rng.choice(["lower_bounds", "upper_bounds"])
            var[key] = [[(-9.0 if key == "lower_bounds" else 9.0)] * V]
            var.setdefault("lower_bounds", -9.0), var.setdefault("upper_bounds", 9.0)
        elif which in ("obj_weights", "real_weights"):
            sect = "objectives" if which == "obj_weights" else "realizations"
            w = _as_list(cfg.get(sect, {}).get("weights", 1.0))
            cfg.setdefault(sect, {})["weights"] = rng.choice([[w], [[x] for x in w]])
        elif which == "mags":
            grad["perturbation_magnitudes"] = [[0.25] * V]
        elif which == "mask":
            var["mask"] = [[True] * V]
        elif which == "types":
            var["types"] = [[1] * V]
        elif which == "btypes":
            grad["boundary_types"] = [[2] * V]
        elif which == "samplers":
            cfg.setdefault("samplers", [{"method": "norm"}])
            grad["samplers"] = [[0] * V]
        elif which == "nonlinear":
            cfg["nonlinear_constraints"] = {"lower_bounds": [[0.0, 0.0]], "upper_bounds": rng.choice([1.0, [[1.0], [2.0]]])}
            case["nl_scales"] = None
        else:
            cfg["linear_constraints"] = {"coefficients": [[[1.0] for _ in range(V)]], "lower_bounds": 0.0, "upper_bounds": 1.0}
    case["kind"] = "malformed:" + what
    return case


def empty_case(rng):
    """No variables at all: every per-variable array becomes empty (broadcast_1d_array returns the empty array for size
    0 whatever it is given; np.broadcast_to accepts a scalar or an empty vector)."""
    case = valid_case(rng, V=0)
    cfg = case["cfg"]
    if rng.random() < 0.5:
        cfg["variables"]["lower_bounds"] = [-1.0] * rng.choice([1, 2, 3])
    case["kind"] = "valid-empty"
    return case


def gen_cases(tier, rng):
    n_valid, n_precise, n_empty, n_bad = (1500, 120, 40, 30) if tier == "quick" else (18000, 1500, 200, 300)
    for _ in range(n_valid):
        yield valid_case(rng)
    for _ in range(n_precise):
        yield valid_case(rng, precise=True)
    for _ in range(n_empty):
        yield empty_case(rng)
    for what in CORRUPTIONS:
        for _ in range(n_bad):
            yield corrupt(rng, valid_case(rng), what)


# ---- running the real code ------------------------------------------------------------------------
def _arr(a):
    return None if a is None else [x.item() if hasattr(x, "item") else x for x in a.tolist()] if a.ndim == 1 else a.tolist()


def _fields(c):
    """The canonical fields of a validated EnOptConfig as plain lists."""
    import numpy as np

    def lst(a):
        return None if a is None else np.asarray(a).tolist()
    out = {"initial": lst(c.variables.initial_values), "lower": lst(c.variables.lower_bounds), "upper": lst(c.variables.upper_bounds),
           "types": lst(c.variables.types), "mask": lst(c.variables.mask),
           "obj_w": lst(c.objectives.weights), "real_w": lst(c.realizations.weights), "rmin": c.realizations.realization_min_success,
           "P": c.gradient.number_of_perturbations, "pmin": c.gradient.perturbation_min_success,
           "mags": lst(c.gradient.perturbation_magnitudes), "ptypes": lst(c.gradient.perturbation_types),
           "btypes": lst(c.gradient.boundary_types), "lin": None, "nonlin": None}
    if c.linear_constraints is not None:
        out["lin"] = {"coeffs": lst(c.linear_constraints.coefficients), "lower": lst(c.linear_constraints.lower_bounds),
                      "upper": lst(c.linear_constraints.upper_bounds)}
    if c.nonlinear_constraints is not None:
        out["nonlin"] = {"lower": lst(c.nonlinear_constraints.lower_bounds), "upper": lst(c.nonlinear_constraints.upper_bounds)}
    nlc = c.nonlinear_constraints
    out["ix"] = {"samplers": lst(c.gradient.samplers), "obj_rf": lst(c.objectives.realization_filters),
                 "obj_fe": lst(c.objectives.function_estimators), "nl_rf": None if nlc is None else lst(nlc.realization_filters),
                 "nl_fe": None if nlc is None else lst(nlc.function_estimators)}
    shapes = {k: list(np.shape(v)) for k, v in (("initial", c.variables.initial_values), ("lower", c.variables.lower_bounds),
                                                ("upper", c.variables.upper_bounds), ("mags", c.gradient.perturbation_magnitudes),
                                                ("ptypes", c.gradient.perturbation_types), ("btypes", c.gradient.boundary_types),
                                                ("obj_w", c.objectives.weights), ("real_w", c.realizations.weights))}
    out["shapes"] = shapes
    return out


# Probes for the defects found by the audit of this property and repaired in /repo (known_findings.json, `fixed`); each is
# detected again when its commit is reverted (corpus/C18/F18*.json hold a failing input for each).  The constants exist so that a
# probe can be switched off while a tree that is known to fail it is being examined; they are all on.
PROBE_DELATTR = True                  # F18e, fix 34c3340: `del cfg.gradient` was accepted (only __setattr__ was guarded)
PROBE_BASE = True                     # F18f, fix bf727e8: immutable_array(x, ndmin=k) froze a view of a writable array (.base)
# F18g, fix a3ecaf8 + default_factory follow-up: pydantic runs the after-validators of an ImmutableBaseModel again when an already
# validated instance is validated (directly, or as a value inside a dictionary), so a frozen sub-configuration was re-normalised /
# re-transformed IN PLACE; the guard `if self._is_validated(): return self` in turn must never meet a deep-copied default instance
SPELL_WEIGHT_INSTANCES = True         # a weight section spelled as an instance: no second normalisation
PROBE_SUBOBJECTS_WITH_CONTEXT = True  # every sub-object validated again in the transform context: same values, tree unchanged


def sweep(obj, path="cfg", classes=None, arrays=None, accepted=None, seen=None, sig=None, owner=None, afields=None):
    """Probe every pydantic model (setattr -- and delattr when enabled -- on each field) and every ndarray (writeable flag of the
    array and of every array in its .base chain, an element write and a whole-array in-place write) reachable from obj.
    sig collects path -> (dtype, shape) of every array, afields the (class, field) pairs that hold an array."""
    import numpy as np
    from pydantic import BaseModel
    classes = {} if classes is None else classes
    arrays = [0, 0] if arrays is None else arrays
    accepted = [] if accepted is None else accepted
    seen = set() if seen is None else seen
    if isinstance(obj, np.ndarray):
        if sig is not None:
            sig[path] = [str(obj.dtype), list(obj.shape)]
        if afields is not None and owner is not None:
            afields.add(owner)
    if id(obj) in seen:
        return classes, arrays, accepted
    seen.add(id(obj))
    if isinstance(obj, np.ndarray):
        arrays[0] += 1
        ok = bool(obj.flags.writeable)
        if obj.size:
            for write in (lambda: obj.flat.__setitem__(0, obj.flat[0]), lambda: obj.__setitem__(Ellipsis, obj),
                          lambda: obj.__ior__(obj) if obj.dtype == np.bool_ else obj.__iadd__(obj.dtype.type(0))):
                try:
                    write()
                    ok = True
                except ValueError:
                    pass
        base, hops = obj.base, 0
        while PROBE_BASE and base is not None and hops < 8:   # a read-only view of a writable buffer can be written through .base
            if isinstance(base, np.ndarray) and base.flags.writeable:
                ok = True
            base, hops = getattr(base, "base", None), hops + 1
        if ok:
            arrays[1] += 1
            accepted.append(path + "[...]")
    elif isinstance(obj, BaseModel):
        rec = classes.setdefault(type(obj).__name__, [0, 0])
        for name in type(obj).model_fields:
            val = getattr(obj, name)
            rec[0] += 1
            try:
                setattr(obj, name, val)
                rec[1] += 1
                accepted.append(path + "." + name)
            except Exception:  # noqa: BLE001 - any refusal counts as rejected
                pass
            if PROBE_DELATTR:
                try:
                    delattr(obj, name)
                    rec[1] += 1
                    accepted.append("del " + path + "." + name)
                    obj.__dict__[name] = val             # put it back for the rest of the sweep
                except Exception:  # noqa: BLE001
                    pass
            sweep(val, path + "." + name, classes, arrays, accepted, seen, sig, (type(obj).__name__, name), afields)
    elif isinstance(obj, (tuple, list)):
        for i, v in enumerate(obj):
            sweep(v, f"{path}[{i}]", classes, arrays, accepted, seen, sig, owner, afields)
    return classes, arrays, accepted


def _plain(o):
    """Dump value -> JSON-able / comparable plain value."""
    import numpy as np
    from pathlib import Path
    if isinstance(o, np.ndarray):
        return o.tolist()
    if isinstance(o, dict):
        return {str(k): _plain(v) for k, v in o.items()}
    if isinstance(o, (list, tuple)):
        return [_plain(v) for v in o]
    if isinstance(o, (set, frozenset)):
        return sorted(_plain(v) for v in o)
    if isinstance(o, Path):
        return str(o)
    if isinstance(o, np.generic):
        return o.item()
    return o


WEIGHT_TOL = 1e-14      # re-normalising normalised weights divides by a sum of 1 +- a few ulp; nothing else may move at all


def _diff(a, b, path="", tol=0.0, wtol=None):
    """Paths at which two plain dumps differ: exactly, except that entries of a `weights` array may differ by wtol (relative)."""
    if isinstance(a, dict) and isinstance(b, dict):
        out = []
        for k in sorted(set(a) | set(b)):
            if k not in a or k not in b:
                out.append(f"{path}.{k}")
            else:
                out += _diff(a[k], b[k], f"{path}.{k}", tol, wtol)
        return out
    if isinstance(a, list) and isinstance(b, list):
        if len(a) != len(b):
            return [path + "(len)"]
        out = []
        for i, (x, y) in enumerate(zip(a, b)):
            out += _diff(x, y, f"{path}[{i}]", tol, wtol)
        return out
    if isinstance(a, bool) or isinstance(b, bool) or a is None or b is None or isinstance(a, str) or isinstance(b, str):
        return [] if a == b and type(a) is type(b) else [path]
    if isinstance(a, (int, float)) and isinstance(b, (int, float)):
        t = wtol if (wtol is not None and ".weights[" in path) else tol
        if a == b or (t and math.isfinite(a) and math.isfinite(b) and abs(a - b) <= t * max(1.0, abs(a), abs(b))):
            return []
        return [path]
    return [] if a == b else [path]


# ---- the same dictionary spelled differently ------------------------------------------------------------------------------
# (section, field) -> kind of the array field: f float, b bool, i index, e<enum class> enumeration, F 2-D float; the second entry
# says which length a scalar stands for (V variables, O objectives, R rows of the coefficient matrix, N non-linear constraints)
_SPELL_FIELDS = {
    ("variables", "initial_values"): ("f", None), ("variables", "lower_bounds"): ("f", "V"), ("variables", "upper_bounds"): ("f", "V"),
    ("variables", "types"): ("eVariableType", "V"), ("variables", "mask"): ("b", "V"),
    ("objectives", "weights"): ("f", None), ("objectives", "realization_filters"): ("i", "O"),
    ("objectives", "function_estimators"): ("i", "O"), ("realizations", "weights"): ("f", None),
    ("gradient", "perturbation_magnitudes"): ("f", "V"), ("gradient", "perturbation_types"): ("ePerturbationType", "V"),
    ("gradient", "boundary_types"): ("eBoundaryType", "V"), ("gradient", "samplers"): ("i", "V"),
    ("linear_constraints", "coefficients"): ("F", None), ("linear_constraints", "lower_bounds"): ("f", "R"),
    ("linear_constraints", "upper_bounds"): ("f", "R"),
    ("nonlinear_constraints", "lower_bounds"): ("f", "N"), ("nonlinear_constraints", "upper_bounds"): ("f", "N"),
    ("nonlinear_constraints", "realization_filters"): ("i", "N"), ("nonlinear_constraints", "function_estimators"): ("i", "N"),
}


def respell(cfg, seed):
    """The configuration dictionary cfg written differently without changing its meaning: lists as tuples, as ndarrays of the
    target dtype (which a converter that avoids copies would alias) or of another integer dtype, scalars as numpy scalars,
    0-d arrays, one-element lists or written out to full length, enumeration values as members of the IntEnum classes, integer /
    boolean / float options as numpy scalars, seeds as tuples, context-free sections and the plug-in tuples as model instances.
    Returns the new dictionary and the ndarrays placed in it (the caller mutates them afterwards)."""
    import random

    import numpy as np
    from ropt import enums
    from ropt.config.enopt import (FunctionEstimatorConfig, ObjectiveFunctionsConfig, OptimizerConfig, RealizationFilterConfig,
                                   RealizationsConfig, SamplerConfig)
    rng = random.Random(seed)
    cfg = copy.deepcopy(cfg)
    given = []
    V = len(_as_list(cfg["variables"].get("initial_values", 0.0)))
    lin, nl = cfg.get("linear_constraints"), cfg.get("nonlinear_constraints")
    full = {"V": V, "O": len(_as_list(cfg.get("objectives", {}).get("weights", 1.0))), "R": len(_coeffs(lin)) if lin else 0,
            "N": max(len(_as_list(nl["lower_bounds"])), len(_as_list(nl["upper_bounds"]))) if nl else 0}
    dtypes = {"f": np.float64, "F": np.float64, "b": np.bool_, "i": np.intc}

    def arr(x, dt):
        a = np.array(x, dtype=dt)
        given.append(a)
        return a

    for (sect, field), (kind, length) in _SPELL_FIELDS.items():
        if sect not in cfg or field not in cfg[sect] or cfg[sect][field] is None:
            continue
        x = cfg[sect][field]
        dt = dtypes.get(kind[0], np.ubyte)
        scalar = not isinstance(x, (list, tuple))
        flat = _as_list(x)
        integral = kind != "F" and all(isinstance(v, (int, bool)) or float(v).is_integer() for v in flat if not isinstance(v, (list, tuple))) \
            and all(not isinstance(v, (list, tuple)) and math.isfinite(v) for v in flat)
        choices = ["tuple", "ndarray", "ndarray"]
        if integral and kind[0] in "fei":
            choices.append("int64")
        if kind[0] == "e":
            choices.append("member")
        if scalar or (len(flat) == 1 and kind != "F"):
            choices += ["npscalar", "zerod", "unit"]
            if length and full[length] > 0 and (V > 0 or length != "V"):
                choices += ["expand", "expand"]
        how = rng.choice(choices)
        if kind == "F" and how == "tuple":
            y = tuple(tuple(r) if isinstance(r, list) else r for r in x) if isinstance(x, list) else x
        elif how == "tuple":
            y = tuple(flat) if not scalar else x
        elif how == "ndarray":
            y = arr(x, dt)
        elif how == "int64":
            y = arr([int(v) for v in flat] if not scalar else int(x), np.int64)
        elif how == "member":
            cls = getattr(enums, kind[1:])
            y = [cls(int(v)) for v in flat] if not scalar else cls(int(x))
        elif how == "npscalar":
            y = dt(flat[0])
        elif how == "zerod":
            y = arr(flat[0], dt)
        elif how == "unit":
            y = flat[0] if not scalar else [x]
        else:
            y = [flat[0]] * full[length]
            if rng.random() < 0.5:
                y = arr(y, dt)
        cfg[sect][field] = y
    g = cfg.get("gradient", {})
    if isinstance(g.get("seed"), list):
        g["seed"] = tuple(g["seed"])
    elif "seed" in g and rng.random() < 0.5:
        g["seed"] = np.int64(g["seed"])
    for sect, key, conv in (("gradient", "number_of_perturbations", np.int64), ("gradient", "perturbation_min_success", np.int64),
                            ("gradient", "merge_realizations", np.bool_), ("realizations", "realization_min_success", np.int64),
                            ("optimizer", "max_functions", np.int64), ("optimizer", "tolerance", np.float64),
                            ("optimizer", "parallel", np.bool_)):
        if key in cfg.get(sect, {}) and rng.random() < 0.5:
            cfg[sect][key] = conv(cfg[sect][key])
    for key, cls in (("samplers", SamplerConfig), ("realization_filters", RealizationFilterConfig), ("function_estimators", FunctionEstimatorConfig)):
        if key in cfg:
            how = rng.choice(["list", "tuple", "instances"])
            if how != "list":
                cfg[key] = tuple(cls(**d) if how == "instances" else d for d in cfg[key])
    for key, cls in (("optimizer", OptimizerConfig), ("realizations", RealizationsConfig), ("objectives", ObjectiveFunctionsConfig)):
        if key in cfg and rng.random() < 0.3 and (SPELL_WEIGHT_INSTANCES or key == "optimizer"):
            cfg[key] = cls.model_validate(cfg[key])
    return cfg, given


def run_impl(case):
    import json

    import numpy as np
    from pydantic import ValidationError
    from ropt.config.enopt import EnOptConfig
    from ropt.transforms import OptModelTransforms, VariableScaler
    from ropt.transforms.base import NonLinearConstraintTransform, ObjectiveTransform

    class ConstraintScaler(NonLinearConstraintTransform):
        """The non-linear constraint transform of the validation context: divides by positive scales."""

        def __init__(self, scales):
            self._scales = np.array(scales, dtype=np.float64)

        def bounds_to_optimizer(self, lower_bounds, upper_bounds):
            return lower_bounds / self._scales, upper_bounds / self._scales

        def to_optimizer(self, constraints):
            return constraints / self._scales

        def from_optimizer(self, constraints):
            return constraints * self._scales

        def nonlinear_constraint_diffs_from_optimizer(self, lower_diffs, upper_diffs):
            return lower_diffs * self._scales, upper_diffs * self._scales

    class ObjectiveScaler(ObjectiveTransform):
        """An objective transform: must not influence the validation of the configuration at all."""

        def to_optimizer(self, objectives):
            return objectives / 2.0

        def from_optimizer(self, objectives):
            return objectives * 2.0

        def weighted_objective_from_optimizer(self, weighted_objective):
            return weighted_objective * 2.0

    tr = None
    if case["scaler"] is not None or case.get("nl_scales") is not None or case.get("obj_scaler"):
        vs = None
        if case["scaler"] is not None:
            s, o = case["scaler"]["scales"], case["scaler"]["offsets"]
            vs = VariableScaler(None if s is None else np.array(s), None if o is None else np.array(o))
        tr = OptModelTransforms(variables=vs, objectives=ObjectiveScaler() if case.get("obj_scaler") else None,
                                nonlinear_constraints=None if case.get("nl_scales") is None else ConstraintScaler(case["nl_scales"]))
    cfg = copy.deepcopy(case["cfg"])
    try:
        c = EnOptConfig.model_validate(cfg, context=tr)
    except ValidationError as e:
        return {"outcome": "reject", "errors": [str(x.get("msg"))[:120] for x in e.errors()[:3]]}
    obs = {"outcome": "ok", "fields": _fields(c)}
    classes, arrays, accepted, afields = {}, [0, 0], [], set()
    sig = {}
    sweep(c, "cfg", classes, arrays, accepted, sig=sig, afields=afields)
    sig_diff = []
    d = c.model_dump(round_trip=True)
    plain = _plain(d)
    # validating the validated object, without and with the context: an identical configuration (the text asks for an
    # equivalent one: the object itself or a copy), as frozen as the first, and the object is left exactly as it was
    obs["identical"], obs["same_diff"] = True, []
    for tag, ctx_ in (("again", None), ("again_ctx", tr)):
        try:
            c1 = EnOptConfig.model_validate(c, context=ctx_)
        except ValidationError as e:
            obs["same_diff"].append(f"{tag} <rejected> {str(e.errors()[:1])[:100]}")
            continue
        obs["identical"] = obs["identical"] and c1 is c
        obs["same_diff"] += [f"{tag}{p_}" for p_ in _diff(plain, _plain(c1.model_dump(round_trip=True)))]
        if c1 is not c:
            sweep(c1, tag, classes, arrays, accepted, afields=afields)
    obs["same_diff"] += ["object changed: " + p_ for p_ in _diff(plain, _plain(c.model_dump(round_trip=True)))]
    obs["same_diff"] = obs["same_diff"][:10]
    obs["same"] = not obs["same_diff"]

    def again(tag, build, wtol):
        """validate another form of the validated configuration: canonical fields, whole-dump difference, array dtypes/shapes, sweep"""
        try:
            c2 = build()
        except ValidationError as e:
            obs[tag] = None
            obs[tag + "_diff"] = ["<rejected> " + "; ".join(str(x.get("msg"))[:80] for x in e.errors()[:2])]
            return None
        obs[tag] = _fields(c2)
        obs[tag + "_diff"] = _diff(plain, _plain(c2.model_dump(round_trip=True)), wtol=wtol)
        sig2 = {}
        sweep(c2, tag, classes, arrays, accepted, sig=sig2, afields=afields)
        sig_diff.extend(f"{tag}{k[len(tag):]}: {sig.get('cfg' + k[len(tag):])} -> {v}" for k, v in sig2.items() if sig.get("cfg" + k[len(tag):]) != v)
        sig_diff.extend(f"{tag}{k[3:]}: missing" for k in sig if tag + k[3:] not in sig2)
        return c2

    c_dump = again("dump", lambda: EnOptConfig.model_validate(c.model_dump(round_trip=True)), WEIGHT_TOL)
    again("json", lambda: EnOptConfig.model_validate(json.loads(json.dumps(plain))), WEIGHT_TOL)
    again("jsontext", lambda: EnOptConfig.model_validate_json(json.dumps(plain)), WEIGHT_TOL)     # pydantic's own JSON parser
    # a dictionary holding the validated sub-objects themselves (what `{**dict(cfg), "optimizer": ...}` produces)
    again("parts", lambda: EnOptConfig.model_validate({k: getattr(c, k) for k in type(c).model_fields}), WEIGHT_TOL)
    # validating any configuration object of the tree again, in the same context, returns an equivalent object and leaves the
    # (frozen) tree as it was
    obs["sub_diff"] = []
    if PROBE_SUBOBJECTS_WITH_CONTEXT:
        from pydantic import BaseModel
        for name in type(c).model_fields:
            for i, o in enumerate(x for x in (getattr(c, name) if isinstance(getattr(c, name), tuple) else (getattr(c, name),))
                                  if isinstance(x, BaseModel)):
                try:
                    o2 = type(o).model_validate(o, context=tr)
                    obs["sub_diff"] += [f"{name}[{i}] -> {p_}" for p_ in _diff(_plain(plain[name] if not isinstance(plain[name], list) else plain[name][i]),
                                                                             _plain(o2.model_dump(round_trip=True)))]
                except ValidationError as e:
                    obs["sub_diff"].append(f"{name}[{i}] <rejected> {str(e.errors()[:1])[:100]}")
        obs["sub_diff"] += ["tree changed: " + p_ for p_ in _diff(plain, _plain(c.model_dump(round_trip=True)))]
        obs["sub_diff"] = obs["sub_diff"][:10]
    # a copy made with model_copy(update=...) is as frozen as the original
    sweep(c.model_copy(update={"realizations": c.realizations}), "copy", classes, arrays, accepted, afields=afields)
    # second round: the re-validated configuration is a fixed point as well
    obs["round2_diff"] = []
    if c_dump is not None:
        d2 = c_dump.model_dump(round_trip=True)
        try:
            c3 = EnOptConfig.model_validate(json.loads(json.dumps(_plain(d2))))
            obs["round2_diff"] = _diff(_plain(d2), _plain(c3.model_dump(round_trip=True)), wtol=WEIGHT_TOL)
        except ValidationError as e:
            obs["round2_diff"] = ["<rejected> " + str(e.errors()[:1])[:120]]
    # the same dictionary spelled differently, validated in the same context: identical result, nothing shared with the caller
    obs["spell"], obs["spell_diff"], obs["alias_diff"] = None, [], []
    if case.get("spell"):
        cfg2, given = respell(case["cfg"], case["spell"])
        try:
            c4 = EnOptConfig.model_validate(cfg2, context=tr)
            obs["spell"] = _fields(c4)
            before = _plain(c4.model_dump(round_trip=True))
            obs["spell_diff"] = _diff(plain, before)
            frozen_inputs = 0
            for a in given:                       # the caller goes on using (and overwriting) the arrays it passed in
                try:
                    if a.size:
                        a[...] = ~a if a.dtype == np.bool_ else a + 1
                except ValueError:
                    frozen_inputs += 1
            obs["alias_diff"] = _diff(before, _plain(c4.model_dump(round_trip=True)))
            obs["frozen_inputs"] = frozen_inputs
            sweep(c4, "spell", classes, arrays, accepted, afields=afields)
        except ValidationError as e:
            obs["spell_diff"] = ["<rejected> " + "; ".join(str(x.get("msg"))[:80] for x in e.errors()[:2])]
    obs["sig_diff"] = sig_diff[:10]
    obs["array_fields"] = sorted(list(x) for x in afields)
    obs["classes"] = classes
    obs["arrays"] = arrays
    obs["accepted"] = accepted[:20]
    return obs


# ---- Gallina printing --------------------------------------------------------------------------------
def _as_list(x):
    return list(x) if isinstance(x, (list, tuple)) else [x]


def _oz(x):
    return "None" if x is None else f"(Some {cq.zs(int(v) for v in _as_list(x))})"


def _ob(x):
    return "None" if x is None else f"(Some {cq.bs(bool(v) for v in _as_list(x))})"


def _onat(x):
    return "None" if x is None else f"(Some {cq.nat(x)})"


def _coeffs(lin):
    """coefficients after np.array(.., ndmin=2): a flat list is one row, the empty list one row without columns"""
    A = lin["coefficients"]
    if not isinstance(A, (list, tuple)):
        return [[A]]
    if all(not isinstance(r, (list, tuple)) for r in A):
        return [list(A)]
    return [list(r) if isinstance(r, (list, tuple)) else [r] for r in A]


_TYPE_OF_KIND = {"f": "Array1D", "F": "Array2D", "b": "Array1DBool", "i": "Array1DInt", "e": "ArrayEnum"}


def _depth(x):
    return 0 if not isinstance(x, (list, tuple)) else 1 + max([_depth(v) for v in x] + [0])


def _flat(x):
    """all numbers of a (possibly nested) value, in order"""
    return [y for v in x for y in _flat(v)] if isinstance(x, (list, tuple)) else [x]


def _dims(cfg):
    """(array type, dimensions of the value given) for every array field present in the dictionary"""
    out = []
    for (sect, field), (kind, _length) in _SPELL_FIELDS.items():
        if cfg.get(sect) is not None and cfg[sect].get(field) is not None:
            out.append((_TYPE_OF_KIND[kind[0]], _depth(cfg[sect][field])))
    return out


def _model_view(cfg):
    """The dictionary as the model's raw record sees it: arrays given with too many dimensions are flattened (the model rejects
    such a case through its dimension table before it looks at the values)."""
    cfg = copy.deepcopy(cfg)
    for (sect, field), (kind, _length) in _SPELL_FIELDS.items():
        if cfg.get(sect) is not None and cfg[sect].get(field) is not None:
            x = cfg[sect][field]
            if kind == "F" and _depth(x) > 2:
                cfg[sect][field] = [_flat(r) for r in x]
            elif kind != "F" and _depth(x) > 1:
                cfg[sect][field] = _flat(x)
    return cfg


def _ix_term(cfg):
    g, o, nl = cfg.get("gradient", {}), cfg.get("objectives", {}), cfg.get("nonlinear_constraints") or {}
    return (f"(mk_ix {_oz(g.get('samplers'))} {_oz(o.get('realization_filters'))} {_oz(o.get('function_estimators'))} "
            f"{_oz(nl.get('realization_filters'))} {_oz(nl.get('function_estimators'))})")


def _dims_term(cfg):
    return cq.lst(f"({cq.s(t)}, {cq.nat(d)})" for t, d in _dims(cfg))


def _raw_term(cfg):
    var = cfg["variables"]
    vars_t = (f"(mk_vars {cq.qs(_as_list(var.get('initial_values', 0.0)))} {cq.ers(_as_list(var.get('lower_bounds', -INF)))} "
              f"{cq.ers(_as_list(var.get('upper_bounds', INF)))} {_oz(var.get('types'))} {_ob(var.get('mask'))})")
    g = cfg.get("gradient", {})
    mags = cq.qs(_as_list(g["perturbation_magnitudes"])) if "perturbation_magnitudes" in g else "[default_perturbation_magnitude]"
    pty = cq.zs(_as_list(g["perturbation_types"])) if "perturbation_types" in g else "[default_perturbation_type]"
    bty = cq.zs(_as_list(g["boundary_types"])) if "boundary_types" in g else "[default_boundary_type]"
    P = cq.nat(g["number_of_perturbations"]) if "number_of_perturbations" in g else "default_number_of_perturbations"
    grad_t = f"(mk_grad {P} {_onat(g.get('perturbation_min_success'))} {mags} {pty} {bty})"
    lin = cfg.get("linear_constraints")
    lin_t = "None" if lin is None else (f"(Some (mk_lin {cq.qmat(_coeffs(lin))} {cq.ers(_as_list(lin['lower_bounds']))} "
                                        f"{cq.ers(_as_list(lin['upper_bounds']))}))")
    nl = cfg.get("nonlinear_constraints")
    nl_t = "None" if nl is None else f"(Some (mk_nonlin {cq.ers(_as_list(nl['lower_bounds']))} {cq.ers(_as_list(nl['upper_bounds']))}))"
    real = cfg.get("realizations", {})
    return (f"(mk_config {vars_t} {cq.qs(_as_list(cfg.get('objectives', {}).get('weights', 1.0)))} "
            f"{cq.qs(_as_list(real.get('weights', 1.0)))} {_onat(real.get('realization_min_success'))} {grad_t} {lin_t} {nl_t})")


def _obs_term(f):
    if f is None:
        return "None"
    vars_t = f"(mk_vars {cq.qs(f['initial'])} {cq.ers(f['lower'])} {cq.ers(f['upper'])} {_oz(f['types'])} {_ob(f['mask'])})"
    grad_t = f"(mk_grad {cq.nat(f['P'])} {_onat(f['pmin'])} {cq.qs(f['mags'])} {cq.zs(f['ptypes'])} {cq.zs(f['btypes'])})"
    lin_t = "None" if f["lin"] is None else f"(Some (mk_lin {cq.qmat(f['lin']['coeffs'])} {cq.ers(f['lin']['lower'])} {cq.ers(f['lin']['upper'])}))"
    nl_t = "None" if f["nonlin"] is None else f"(Some (mk_nonlin {cq.ers(f['nonlin']['lower'])} {cq.ers(f['nonlin']['upper'])}))"
    ix = f["ix"]
    ix_t = f"(mk_ix {_oz(ix['samplers'])} {_oz(ix['obj_rf'])} {_oz(ix['obj_fe'])} {_oz(ix['nl_rf'])} {_oz(ix['nl_fe'])})"
    return f"(Some (mk_config {vars_t} {cq.qs(f['obj_w'])} {cq.qs(f['real_w'])} {_onat(f['rmin'])} {grad_t} {lin_t} {nl_t}, {ix_t}))"


def _magnitude(x):
    if isinstance(x, dict):
        return max([_magnitude(v) for v in x.values()] + [0.0])
    if isinstance(x, (list, tuple)):
        return max([_magnitude(v) for v in x] + [0.0])
    if isinstance(x, bool) or not isinstance(x, (int, float)):
        return 0.0
    return abs(float(x)) if math.isfinite(x) else 0.0


def coq_case(case, obs):
    cfg = _model_view(case["cfg"])
    sc = case["scaler"]
    ctx = "None" if sc is None else (f"(Some (mk_scaler {cq.opt(sc['scales'], cq.qs)} {cq.opt(sc['offsets'], cq.qs)}))")
    ctx += " " + cq.opt(case.get("nl_scales"), cq.qs)
    S = max(1.0, _magnitude({k: cfg.get(k) for k in ("variables", "linear_constraints", "nonlinear_constraints")}),
            _magnitude(sc or {}))
    S = S * S * 4      # bounds are shifted by offsets and A.offsets and divided by scales >= 1/2
    ctx += f" {_dims_term(case['cfg'])} {_ix_term(cfg)}"
    if obs["outcome"] != "ok":
        return f"(Build_case {cq.q(S)} false {ctx} {_raw_term(cfg)} None false None None None [] (0%nat, 0%nat) [])"
    spell = obs["spell"] if case.get("spell") else obs["fields"]
    if not all(_representable(x) for x in (obs["fields"], obs["dump"], obs["json"], spell)):
        # NaN / infinite magnitudes, weights, coefficients or initial values cannot be written as rationals: the case fails
        return f"(Build_case {cq.q(S)} true {ctx} {_raw_term(cfg)} None false None None None [] (0%nat, 0%nat) [])"
    classes = cq.lst(f"({cq.s(n)}, ({cq.nat(min(p, 5000))}, {cq.nat(min(a, 5000))}))" for n, (p, a) in sorted(obs["classes"].items()))
    afields = cq.lst(f"({cq.s(c)}, {cq.s(f)})" for c, f in obs["array_fields"])
    # the four observed configurations are usually the same term: write each distinct term once (a let) -- pure sharing of text,
    # the checker still compares them
    names, lets = {}, []
    for t in (_obs_term(obs["fields"]), _obs_term(obs["dump"]), _obs_term(obs["json"]), _obs_term(spell)):
        if t not in names:
            names[t] = f"o{len(names)}"
            lets.append(f"let {names[t]} : option (config * indices) := {t} in")
    o_out, o_dump, o_json, o_spell = (names[_obs_term(x)] for x in (obs["fields"], obs["dump"], obs["json"], spell))
    return (f"({' '.join(lets)} Build_case {cq.q(S)} false {ctx} {_raw_term(cfg)} {o_out} {cq.b(obs['same'])} "
            f"{o_dump} {o_json} {o_spell} {classes} "
            f"({cq.nat(min(obs['arrays'][0], 5000))}, {cq.nat(min(obs['arrays'][1], 5000))}) {afields})")


def _representable(f):
    """Every array has the dimension of its field, every field that is a rational in the model is finite, every bound is not NaN."""
    if f is None:
        return True
    flat = [f["initial"], f["lower"], f["upper"], f["obj_w"], f["real_w"], f["mags"], f["ptypes"], f["btypes"], f["types"], f["mask"]]
    flat += list(f["ix"].values())
    if f["nonlin"] is not None:
        flat += [f["nonlin"]["lower"], f["nonlin"]["upper"]]
    if f["lin"] is not None:
        flat += [f["lin"]["lower"], f["lin"]["upper"]] + list(f["lin"]["coeffs"])
        if _depth(f["lin"]["coeffs"]) != 2:
            return False
    if any(x is not None and _depth(x) != 1 for x in flat):
        return False

    def fin(xs):
        return all(math.isfinite(x) for x in xs)

    def nonan(xs):
        return not any(math.isnan(x) for x in xs)
    ok = fin(f["initial"]) and fin(f["obj_w"]) and fin(f["real_w"]) and fin(f["mags"]) and nonan(f["lower"]) and nonan(f["upper"])
    if f["lin"] is not None:
        ok = ok and all(fin(r) for r in f["lin"]["coeffs"]) and nonan(f["lin"]["lower"]) and nonan(f["lin"]["upper"])
    if f["nonlin"] is not None:
        ok = ok and nonan(f["nonlin"]["lower"]) and nonan(f["nonlin"]["upper"])
    return ok


# ---- the property predicate on the implementation's output (no model) ------------------------------------
def _bcast(x, n):
    x = _as_list(x)
    return x * n if len(x) == 1 else x


def _expect_reject(case):
    """Is the dictionary inconsistent in one of the ways the property text names?  (independent of the model)"""
    reasons = []
    for t, d in _dims(case["cfg"]):
        if d > (2 if t == "Array2D" else 1):
            reasons.append(f"{t} given with {d} dimensions")
    if reasons:
        return reasons
    cfg = case["cfg"]
    var = cfg["variables"]
    V = len(_as_list(var.get("initial_values", 0.0)))

    def bad_len(x, n):
        return x is not None and len(_as_list(x)) not in (1, n)
    for k in ("lower_bounds", "upper_bounds", "types", "mask"):
        # without variables broadcast_1d_array returns the empty array for every input (degenerate, accepted by design)
        if V > 0 and bad_len(var.get(k), V):
            reasons.append("variables." + k + " length")
    g = cfg.get("gradient", {})
    for k in ("perturbation_magnitudes", "perturbation_types", "boundary_types"):
        if bad_len(g.get(k), V):
            reasons.append("gradient." + k + " length")
    lo, up = var.get("lower_bounds", -INF), var.get("upper_bounds", INF)
    if not reasons:
        lo_b, up_b = _bcast(lo, V), _bcast(up, V)
        sc = case["scaler"]
        if any(a > b for a, b in zip(lo_b, up_b)):
            reasons.append("variables lower > upper")
        pt = _bcast(g.get("perturbation_types", 1), V)
        if any(t == 2 and not (math.isfinite(a) and math.isfinite(b)) for t, a, b in zip(pt, lo_b, up_b)):
            reasons.append("relative perturbation with infinite bounds")
        del sc
    for sect, key in (("objectives", "weights"), ("realizations", "weights")):
        w = _as_list(cfg.get(sect, {}).get(key, 1.0))
        if sum(w) <= 0:
            reasons.append(sect + " weights sum <= 0")
    lin = cfg.get("linear_constraints")
    if lin is not None:
        A = _coeffs(lin)
        rows = len(A)
        if any(len(r) != V for r in A):
            reasons.append("coefficient columns")
        if bad_len(lin["lower_bounds"], rows) or bad_len(lin["upper_bounds"], rows):
            reasons.append("linear bounds length")
        elif any(a > b for a, b in zip(_bcast(lin["lower_bounds"], rows), _bcast(lin["upper_bounds"], rows))):
            reasons.append("linear lower > upper")
    nl = cfg.get("nonlinear_constraints")
    if nl is not None:
        a, b = _as_list(nl["lower_bounds"]), _as_list(nl["upper_bounds"])
        if len(a) != len(b) and 1 not in (len(a), len(b)):
            reasons.append("non-linear bounds length")
        else:
            n = max(len(a), len(b))
            if any(x > y for x, y in zip(_bcast(a, n), _bcast(b, n))):
                reasons.append("non-linear lower > upper")
            for key in ("realization_filters", "function_estimators"):
                if n > 0 and nl.get(key) is not None and len(_as_list(nl[key])) not in (1, n):
                    reasons.append("non-linear " + key + " length")
    nobj = len(_as_list(cfg.get("objectives", {}).get("weights", 1.0)))
    for key in ("realization_filters", "function_estimators"):
        x = cfg.get("objectives", {}).get(key)
        if x is not None and len(_as_list(x)) not in (1, nobj):
            reasons.append("objectives " + key + " length")
    smp = g.get("samplers")
    if V > 0 and smp is not None and len(_as_list(smp)) not in (1, V):
        reasons.append("gradient.samplers length")
    return reasons


def oracle(case, obs):
    cfg = case["cfg"]
    reasons = _expect_reject(case)
    if obs["outcome"] != "ok":
        if not reasons and case["kind"].startswith("valid"):
            return {"clause": "valid-configuration-rejected", "detail": obs.get("errors")}
        return None
    if reasons:
        return {"clause": "inconsistent-configuration-accepted", "detail": reasons}
    f = obs["fields"]
    V = len(f["initial"])
    # canonical weights: sum one, ratios preserved, zeros stay zeros
    for sect, key, got in (("objectives", "weights", f["obj_w"]), ("realizations", "weights", f["real_w"])):
        w = _as_list(cfg.get(sect, {}).get(key, 1.0))
        if len(got) != len(w) or abs(sum(got) - 1.0) > 1e-12:
            return {"clause": "weights-sum-one", "detail": {sect: got}}
        for i in range(len(w)):
            if (w[i] == 0) != (got[i] == 0):
                return {"clause": "weights-zeros-preserved", "detail": {sect: got, "raw": w}}
            for j in range(len(w)):
                if abs(w[i] * got[j] - w[j] * got[i]) > 1e-12 * max(1.0, max(abs(x) for x in w)):
                    return {"clause": "weights-ratios-preserved", "detail": {sect: got, "raw": w}}
    # broadcasts
    for name in ("lower", "upper", "mags", "ptypes", "btypes"):
        if f["shapes"].get(name, [len(f[name])]) != [V]:
            return {"clause": "broadcast-full-length", "detail": {name: f[name], "V": V}}
    for name in ("types", "mask"):
        if f[name] is not None and len(f[name]) != V:
            return {"clause": "broadcast-full-length", "detail": {name: f[name], "V": V}}
    var = cfg["variables"]

    def _bcast1d(x, n):          # broadcast_1d_array: the empty array when there are no variables
        return [] if n == 0 else _bcast(x, n)
    for name, key in (("types", "types"), ("mask", "mask")):
        if var.get(key) is not None and f[name] != _bcast1d(var[key], V):
            return {"clause": "broadcast-values", "detail": {name: f[name], "raw": var[key]}}
    g = cfg.get("gradient", {})
    if "boundary_types" in g and f["btypes"] != _bcast(g["boundary_types"], V):
        return {"clause": "broadcast-values", "detail": {"btypes": f["btypes"], "raw": g["boundary_types"]}}
    # index arrays: one entry per variable / objective / constraint, the given vector or the repeated scalar
    nlc_raw = cfg.get("nonlinear_constraints") or {}
    n_nl = 0 if f["nonlin"] is None else len(f["nonlin"]["lower"])
    for key, raw_ix, n in (("samplers", g.get("samplers"), V), ("obj_rf", cfg.get("objectives", {}).get("realization_filters"), len(f["obj_w"])),
                           ("obj_fe", cfg.get("objectives", {}).get("function_estimators"), len(f["obj_w"])),
                           ("nl_rf", nlc_raw.get("realization_filters"), n_nl), ("nl_fe", nlc_raw.get("function_estimators"), n_nl)):
        got = f["ix"][key]
        if (raw_ix is None) != (got is None) or (got is not None and got != [int(v) for v in _bcast1d(raw_ix, n)]):
            return {"clause": "index-array-broadcast", "detail": {key: got, "raw": raw_ix, "n": n}}
    if case["scaler"] is None:
        for name, key, dflt in (("lower", "lower_bounds", -INF), ("upper", "upper_bounds", INF)):
            if f[name] != [float(x) for x in _bcast1d(var.get(key, dflt), V)]:
                return {"clause": "broadcast-values", "detail": {name: f[name], "raw": var.get(key, dflt)}}
    # the transforms of the validation context are applied to what they concern, and to nothing else
    sc = case["scaler"]
    if V > 0:
        scales = [1.0] * V if sc is None or sc["scales"] is None else sc["scales"]
        offs = [0.0] * V if sc is None or sc["offsets"] is None else sc["offsets"]

        def near(x, y):
            return x == y or (math.isfinite(x) and math.isfinite(y) and abs(x - y) <= 1e-9 * max(1.0, abs(x), abs(y)))
        for name, key, dflt in (("initial", "initial_values", 0.0), ("lower", "lower_bounds", -INF), ("upper", "upper_bounds", INF)):
            want = [(float(x) - o) / s for x, o, s in zip(_bcast(var.get(key, dflt), V), offs, scales)]
            if len(f[name]) != V or not all(near(x, y) for x, y in zip(f[name], want)):
                return {"clause": "context-transform-applied", "detail": {name: f[name], "expected": want}}
        # magnitudes: absolute ones in optimizer units, relative ones times the (finite) range in optimizer units, stored as absolute
        pt = _bcast(g.get("perturbation_types", 1), V)
        if "perturbation_magnitudes" in g and len(f["mags"]) == V and len(pt) == V:
            mg = _bcast(g["perturbation_magnitudes"], V)
            lo_b, up_b = _bcast(var.get("lower_bounds", -INF), V), _bcast(var.get("upper_bounds", INF), V)
            want = [((u - l) * m if t == 2 else m) / s for t, m, l, u, s in zip(pt, mg, lo_b, up_b, scales)]
            if not all(near(x, y) for x, y in zip(f["mags"], want)):
                return {"clause": "perturbation-magnitudes", "detail": {"mags": f["mags"], "expected": want}}
            if any(t != 1 for t in f["ptypes"]) and 2 in pt:
                return {"clause": "relative-magnitudes-stored-as-absolute", "detail": {"ptypes": f["ptypes"]}}
    if f["nonlin"] is not None:
        nlc = cfg["nonlinear_constraints"]
        n = len(f["nonlin"]["lower"])
        nls = case.get("nl_scales") or [1.0] * n
        for name, key in (("lower", "lower_bounds"), ("upper", "upper_bounds")):
            want = [float(x) / s for x, s in zip(_bcast(nlc[key], n), nls)]
            if len(want) != n or any(x != y and not (math.isfinite(x) and abs(x - y) <= 1e-9 * max(1.0, abs(y))) for x, y in zip(f["nonlin"][name], want)):
                return {"clause": "context-transform-applied", "detail": {"nonlinear " + name: f["nonlin"][name], "expected": want}}
    if f["lin"] is not None:
        rows = len(f["lin"]["coeffs"])
        if len(f["lin"]["lower"]) != rows or len(f["lin"]["upper"]) != rows:
            return {"clause": "broadcast-full-length", "detail": {"linear": [f["lin"]["lower"], f["lin"]["upper"]]}}
    if f["nonlin"] is not None and len(f["nonlin"]["lower"]) != len(f["nonlin"]["upper"]):
        return {"clause": "broadcast-full-length", "detail": {"nonlinear": [f["nonlin"]["lower"], f["nonlin"]["upper"]]}}
    # clamps
    R, P = len(f["real_w"]), f["P"]
    rmin = cfg.get("realizations", {}).get("realization_min_success")
    pmin = g.get("perturbation_min_success")
    if f["rmin"] != (R if rmin is None else min(rmin, R)):
        return {"clause": "threshold-clamped", "detail": {"realization_min_success": f["rmin"], "raw": rmin, "R": R}}
    if f["pmin"] != (P if pmin is None else min(pmin, P)):
        return {"clause": "threshold-clamped", "detail": {"perturbation_min_success": f["pmin"], "raw": pmin, "P": P}}
    # idempotence
    if not obs["same"]:
        return {"clause": "revalidating-the-object-equivalent-and-unchanged", "detail": obs["same_diff"][:6]}
    for tag in ("dump", "json", "jsontext", "parts"):
        if obs[tag + "_diff"]:
            return {"clause": "revalidation-of-" + tag + "-equivalent", "detail": obs[tag + "_diff"][:6]}
    if obs.get("sub_diff"):
        return {"clause": "revalidating-a-sub-configuration-object", "detail": obs["sub_diff"][:6]}
    if obs["round2_diff"]:
        return {"clause": "second-revalidation-equivalent", "detail": obs["round2_diff"][:6]}
    if obs["sig_diff"]:
        return {"clause": "revalidation-keeps-array-types-and-shapes", "detail": obs["sig_diff"][:6]}
    # canonical: the result does not depend on how the dictionary was spelled, and shares nothing with the caller's arrays
    if obs["spell_diff"]:
        return {"clause": "canonical-whatever-the-spelling", "detail": obs["spell_diff"][:6]}
    if obs["alias_diff"]:
        return {"clause": "frozen-against-the-callers-arrays", "detail": obs["alias_diff"][:6]}
    # frozen
    if obs["accepted"]:
        return {"clause": "frozen", "detail": obs["accepted"][:8]}
    return None


def known_signature(case, obs, violation):
    return None


def nontrivial(case, obs):
    if obs["outcome"] != "ok":
        return not case["kind"].startswith("valid")
    cfg = case["cfg"]
    return len(obs["fields"]["initial"]) >= 2 or "linear_constraints" in cfg or "nonlinear_constraints" in cfg


def features(case, obs):
    cfg = case["cfg"]
    g = cfg.get("gradient", {})
    pt = _as_list(g.get("perturbation_types", 1))
    return {"kind": case["kind"], "outcome": obs["outcome"], "V": len(_as_list(cfg["variables"].get("initial_values", 0.0))),
            "scaler": "none" if case["scaler"] is None else "+".join(k for k in ("scales", "offsets") if case["scaler"][k] is not None),
            "nl_scaler": case.get("nl_scales") is not None, "obj_scaler": bool(case.get("obj_scaler")),
            "btypes": "".join(str(b) for b in sorted(set(_as_list(g.get("boundary_types", "d"))))),
            "relative": 2 in pt, "linear": "linear_constraints" in cfg, "nonlinear": "nonlinear_constraints" in cfg,
            "mask": "mask" in cfg["variables"], "types": "types" in cfg["variables"],
            "respelled": obs["outcome"] == "ok" and bool(case.get("spell")),
            "object_returned_itself": obs.get("identical"),
            "index_arrays": sum(k in cfg.get(s_, {}) for s_, k in (("gradient", "samplers"), ("objectives", "realization_filters"),
                                                                   ("objectives", "function_estimators"),
                                                                   ("nonlinear_constraints", "realization_filters"),
                                                                   ("nonlinear_constraints", "function_estimators")))}


def shrink(case):
    cfg = case["cfg"]
    for key in ("optimizer", "linear_constraints", "nonlinear_constraints", "realization_filters", "function_estimators", "samplers"):
        if key in cfg:
            c = copy.deepcopy(case)
            del c["cfg"][key]
            if key == "realization_filters":
                c["cfg"]["objectives"].pop("realization_filters", None)
            if key == "function_estimators":
                c["cfg"]["objectives"].pop("function_estimators", None)
            if key == "samplers":
                c["cfg"]["gradient"].pop("samplers", None)
            yield c
    if case["scaler"] is not None:
        yield {**copy.deepcopy(case), "scaler": None}
    if case.get("nl_scales") is not None:
        yield {**copy.deepcopy(case), "nl_scales": None}
    if case.get("obj_scaler"):
        yield {**copy.deepcopy(case), "obj_scaler": False}
    for sect, key in (("variables", "types"), ("variables", "mask"), ("gradient", "seed"), ("gradient", "merge_realizations"),
                      ("realizations", "realization_min_success"), ("gradient", "perturbation_min_success")):
        if key in cfg.get(sect, {}):
            c = copy.deepcopy(case)
            del c["cfg"][sect][key]
            yield c


def search(rng, case):
    for _ in range(600):
        yield valid_case(rng)


def extra_obligations(tier):
    """The tables extracted from the AST agree with what pydantic sees at run time: the classes reachable from EnOptConfig through
    its field types are exactly the classes of the table, each with the table's kind (ImmutableBaseModel subclass whose
    __setattr__/__delattr__ are the base's, or frozen), and the fields whose type holds an ndarray are exactly the table's array
    fields.  (A field inherited from a mix-in, a class injected by a decorator or a type alias resolved differently would show here.)"""
    import typing
    out = []
    try:
        from common import REPO, use_repo_sources
        use_repo_sources()
        import numpy as np
        import translator as tr_mod
        from pydantic import BaseModel
        from ropt.config.enopt import EnOptConfig
        from ropt.config.utils import ImmutableBaseModel
        _aliases, fields, _stores, _owns = _array_tables(tr_mod)
        table_fields = {c: set(af) for c, af in fields}
        kinds = {}
        for f in CONFIG_FILES:
            name, kind, _v = _class_entry([n for n in tr_mod.parse("config/enopt/" + f).body if isinstance(n, ast.ClassDef)][0], f)
            kinds[name] = kind

        def types_in(t, acc):
            if isinstance(t, type):
                acc.add(t)
            origin = typing.get_origin(t)
            if isinstance(origin, type):
                acc.add(origin)
            for alias in (t, origin):                         # numpy's NDArray is a type alias of np.ndarray[...]
                if hasattr(alias, "__value__"):
                    types_in(alias.__value__, acc)
            for a in typing.get_args(t):
                types_in(a, acc)
            return acc
        seen, todo, problems = {}, [EnOptConfig], []
        while todo:
            cls = todo.pop()
            if cls.__name__ in seen:
                continue
            seen[cls.__name__] = cls
            arrays = set()
            for fname, info in cls.model_fields.items():
                ts = types_in(info.annotation, set())
                if any(isinstance(t, type) and issubclass(t, np.ndarray) for t in ts):
                    arrays.add(fname)
                todo += [t for t in ts if isinstance(t, type) and issubclass(t, BaseModel)]
            if arrays != table_fields.get(cls.__name__, set()):
                problems.append(f"{cls.__name__}: array fields {sorted(arrays)} vs table {sorted(table_fields.get(cls.__name__, set()))}")
            kind = kinds.get(cls.__name__)
            if kind == "KImmutableBase":
                if not (issubclass(cls, ImmutableBaseModel) and cls.__setattr__ is ImmutableBaseModel.__setattr__
                        and cls.__delattr__ is ImmutableBaseModel.__delattr__ and not cls.model_config.get("frozen")):
                    problems.append(f"{cls.__name__}: not a plain ImmutableBaseModel subclass at run time")
            elif kind == "KFrozen":
                if not cls.model_config.get("frozen") or cls.__setattr__ is not BaseModel.__setattr__:
                    problems.append(f"{cls.__name__}: not frozen at run time")
            else:
                problems.append(f"{cls.__name__}: kind {kind}")
        if set(seen) != set(kinds):
            problems.append(f"reachable classes {sorted(seen)} vs table {sorted(kinds)}")
        out.append(("C18 tables agree with pydantic's run-time view (reachable classes, kinds, array fields)", not problems, "; ".join(problems)[:600]))
        del REPO
    except Exception as e:  # noqa: BLE001 - a failure to establish the agreement is an undischarged obligation
        out.append(("C18 tables agree with pydantic's run-time view (reachable classes, kinds, array fields)", False, repr(e)[:400]))
    return out


MANIFEST = {
    "level_text": ("Machine-checked Coq proofs (Props/C18.v, 43 theorems, all closed under the global context, for every number of variables, "
                   "objectives, realizations and constraints, by induction) about the executable model of EnOptConfig validation that the "
                   "checker runs against the real code (Model/Config.v: normalize, broadcasts, threshold clamps, VariablesConfig, "
                   "GradientConfig.fix_perturbations, LinearConstraintsConfig.apply_transformation, NonlinearConstraintsConfig, with an optional "
                   "VariableScaler and non-linear constraint scaler as validation context). Canonical: C18_weights_canonical (validated weights "
                   "have sum one, ratios, zeros and signs preserved), C18_weights_rejected / C18_nonpositive_weights_rejected (a sum below eps, "
                   "in particular <= 0, is rejected), C18_broadcast (every per-variable / per-constraint array has full length), "
                   "C18_broadcast_values (it is the given vector or the repeated scalar, bounds then mapped by the scaler), "
                   "C18_spelling_irrelevant / C18_scalars_written_out (a scalar and the vector repeating it have the same outcome, accepted or "
                   "rejected, for every broadcastable field and any context), C18_perturbations_converted (relative magnitudes times the finite "
                   "bound range, stored as ABSOLUTE), C18_clamped (thresholds = min(threshold, count)), C18_crossed_iff + "
                   "C18_rejects_crossed_{variable,linear,nonlinear}_bounds, C18_rejects_bad_{variable,gradient,linear,nonlinear}_shapes, "
                   "C18_rejects_relative_infinite, C18_rejects_bad_gradient_fields, and conversely C18_consistent_accepted (every consistent "
                   "dictionary is accepted); for the whole of model_validate (validate_full = dimension check of the converters, validate, "
                   "broadcast of the index arrays): C18_full_is_validate, C18_index_arrays_broadcast, C18_rejects_bad_index_shapes, "
                   "C18_rejects_extra_dimensions + C18_array_types_check_dimensions, C18_full_idempotent. Stable: C18_validated_canonical, C18_canonical_fixed_point, C18_idempotent (+ "
                   "C18_idempotent_generated, C18_generated_enums_wf for the enumeration values of the current source): validating the dump of any "
                   "validated configuration succeeds and yields the same configuration up to == on the weights, again canonical; "
                   "C18_stable_under_repeated_revalidation (any number of hand-offs), C18_equivalence_relation; C18_magnitudes_not_rescaled (fix "
                   "8967086: no stored type is RELATIVE, magnitudes and bounds are returned unchanged). Frozen (flag discipline): "
                   "C18_flags_final_immutable, C18_arrays_stored_immutable, C18_array_types_converted, C18_deletion_guarded, "
                   "C18_immutable_arrays_own_data, C18_revalidation_guarded, C18_no_shared_default_instances (finite facts over tables regenerated "
                   "from the source on every run), C18_flag_discipline / C18_last_mutable_not_frozen (the flag machine, all validator sequences). Tied to the "
                   "code on every run by an in-Coq field-by-field comparison with the real EnOptConfig.model_validate on random, full-precision, "
                   "empty and malformed dictionaries; re-validation of the object (without / with context), its dump, the JSON round trip, the "
                   "dictionary of its sub-objects, a second round and a re-spelled dictionary (exact comparison of whole dumps, array dtypes and "
                   "shapes; no memory shared with the caller's arrays); and a reachability sweep of setattr / in-place writes on all resulting objects."),
    "level_note": ("Frozenness is PARTIAL: that objects and arrays reject mutation is a run-time fact about Python objects. Proved is the flag "
                   "discipline of the generated tables (every class ends its validators with _immutable() on every path; every store into an "
                   "array field stores the result of immutable_array / normalize / broadcast_1d_array / a broadcast view of an immutable array; "
                   "every Array* type converts with immutable_array) and the general flag machine; that pydantic runs the validators in this "
                   "order and numpy honours the flag is established only by the run-time sweep over the generated configurations (every "
                   "reachable model: setattr on each field raises; every reachable ndarray: flags.writeable is False and element, whole-array and "
                   "in-place-operator writes raise; every field holding an array is in the generated table; the tables agree with pydantic's "
                   "run-time view of the classes; attribute deletion raises; no array in a .base chain is writable; validating any sub-object again "
                   "in the context changes nothing). No theorem is partial otherwise. Modelled, not "
                   "verified: pydantic's field conversions and validator order, numpy broadcasting, the VariableScaler formulas (compared on "
                   "every run); C18_consistent_accepted, C18_perturbations_converted are stated without a transform in the context, the "
                   "rejection / canonical-form / spelling / idempotence theorems with any context. Out of the model: optimizer / sampler option "
                   "dictionaries (user data), the range of the index arrays, NaN inputs (F18i: accepted by the code, outside the domain of valid "
                   "dictionaries). Trusted: Coq kernel + VM, the AST translator, the Python driver. Reals are "
                   "compared with tolerance (1e-12*S + 1e-9*|m|) against the model, exactly between validations of the same configuration "
                   "(1e-14 on re-normalised weights); discrete fields, shapes, dtypes, flags and outcomes exactly."),
    "technique": ("Coq proof (monadic validation model over Q and extended reals; canonical-form, rejection, completeness, spelling and fixed-point "
                  "lemmas by list induction; generated flag and array-store tables discharged by computation) + in-Coq differential "
                  "correspondence + run-time reachability sweep + independent Python oracle of the property clauses"),
    "design_ref": "DESIGN.md section 4, C18",
}
